// C03 - Decoding arbitrary bytes never panics, crashes or over-allocates.
package c03

import (
	"bytes"
	"encoding/hex"
	"fmt"
	"net"
	"os"
	"os/exec"
	"runtime"
	"runtime/debug"
	"strconv"
	"strings"
	"syscall"
	"testing"
	"time"

	"github.com/fiorix/go-diameter/v4/diam"
	"github.com/fiorix/go-diameter/v4/diam/datatype"
	"github.com/fiorix/go-diameter/v4/diam/dict"
	"github.com/fiorix/go-diameter/v4/diam/sm/smparser"
	"pgregory.net/rapid"

	"verif/internal/ev"
	"verif/internal/gen"
	"verif/internal/memnet"
	"verif/internal/refcodec"
)

// Case: the bytes offered to the decoders and the dictionary in force.
type Case struct {
	Dict gen.DictChoice `json:"dict"`
	Wire []byte         `json:"wire"`
	Tags []string       `json:"tags,omitempty"` // what the generator did (for the class histogram only)
}

// Allocation bound: A + B * len(input). An 8-byte AVP of an undefined code
// costs about 500 bytes of decoder bookkeeping (AVP struct, placeholder
// dictionary entry with a formatted name); claim-driven allocations are
// 10^4..10^8 times the input, so the constants are not delicate.
const (
	allocA = 512 << 10
	allocB = 256
)

// Bound for inputs whose header claims more bytes than were supplied.
const (
	truncA = 256 << 10
	truncB = 6
)

func declaredLen(h *diam.Header) int {
	if h == nil {
		return -1
	}
	return int(h.MessageLength)
}

// Rendering (String, PrettyDump) is checked for panics only and only on
// inputs up to this size: its output is legitimately super-linear in the
// nesting depth (indentation).
const renderMax = 4 << 10

type unmarshalScalars struct {
	OriginHost  string                    `avp:"Origin-Host"`
	OriginRealm datatype.DiameterIdentity `avp:"Origin-Realm"`
	ResultCode  uint32                    `avp:"Result-Code"`
	StateID     int64                     `avp:"Origin-State-Id"`
	HostIP      net.IP                    `avp:"Host-IP-Address"`
	Stamp       time.Time                 `avp:"Event-Timestamp"`
	Product     []byte                    `avp:"Product-Name"`
	ErrMsg      *string                   `avp:"Error-Message"`
	Sess        datatype.UTF8String       `avp:"Session-Id"`
}

type unmarshalAVPs struct {
	OriginHost diam.AVP    `avp:"Origin-Host"`
	State      *diam.AVP   `avp:"Origin-State-Id"`
	Inband     *diam.AVP   `avp:"Inband-Security-Id"`
	Auth       []*diam.AVP `avp:"Auth-Application-Id"`
	Acct       []diam.AVP  `avp:"Acct-Application-Id"`
	VSA        []*diam.AVP `avp:"Vendor-Specific-Application-Id"`
	Failed     []*diam.AVP `avp:"Failed-AVP"`
	IPs        []net.IP    `avp:"Host-IP-Address"`
	Vendors    []uint32    `avp:"Supported-Vendor-Id"`
}

type vsaStruct struct {
	Vendor uint32  `avp:"Vendor-Id"`
	Auth   *uint32 `avp:"Auth-Application-Id"`
	Acct   []int   `avp:"Acct-Application-Id"`
}

type embedded struct {
	OriginHost datatype.DiameterIdentity `avp:"Origin-Host"`
}

type unmarshalNested struct {
	embedded
	VSA    vsaStruct    `avp:"Vendor-Specific-Application-Id"`
	VSAp   *vsaStruct   `avp:"Vendor-Specific-Application-Id"`
	VSAs   []vsaStruct  `avp:"Vendor-Specific-Application-Id"`
	VSAsp  []*vsaStruct `avp:"Vendor-Specific-Application-Id"`
	Failed struct {
		Host string `avp:"Origin-Host"`
		In   struct {
			Code uint32 `avp:"Result-Code"`
		} `avp:"Failed-AVP"`
	} `avp:"Failed-AVP"`
	Stamp datatype.Time `avp:"Event-Timestamp"`
}

// destinations reused from case to case (see inspect); pre-sized so that capacity is there from the start
var (
	reusedAVPs   = unmarshalAVPs{Auth: make([]*diam.AVP, 0, 4), Acct: make([]diam.AVP, 0, 4), VSA: make([]*diam.AVP, 0, 2), IPs: make([]net.IP, 0, 3), Vendors: make([]uint32, 0, 8)}
	reusedNested = unmarshalNested{VSAs: make([]vsaStruct, 0, 4), VSAsp: make([]*vsaStruct, 0, 4)}
)

// guard runs f and converts a panic into a failure.
func guard(what string, f func()) (fail *ev.Failure) {
	defer func() {
		if r := recover(); r != nil {
			st := string(debug.Stack())
			if i := strings.Index(st, "panic("); i > 0 {
				st = st[i:]
			}
			if len(st) > 1800 {
				st = st[:1800]
			}
			fail = ev.Failf("panic:"+what, "%s panicked: %v\n%s", what, r, st)
		}
	}()
	f()
	return nil
}

func totalAlloc() uint64 {
	var ms runtime.MemStats
	runtime.ReadMemStats(&ms)
	return ms.TotalAlloc
}

var findCodes = []interface{}{uint32(264), 296, "Origin-State-Id", uint32(260), uint32(279), uint32(999999), "Result-Code", 258}

// inspect applies every later inspection the property lists to a decoded message.
func inspect(m *diam.Message) *ev.Failure {
	if f := guard("Len", func() { _ = m.Len() }); f != nil {
		return f
	}
	if f := guard("Serialize", func() { m.Serialize() }); f != nil {
		return f
	}
	if f := guard("Unmarshal(scalars)", func() { m.Unmarshal(new(unmarshalScalars)) }); f != nil {
		return f
	}
	if f := guard("Unmarshal(AVP fields)", func() { m.Unmarshal(new(unmarshalAVPs)) }); f != nil {
		return f
	}
	if f := guard("Unmarshal(nested structs)", func() { m.Unmarshal(new(unmarshalNested)) }); f != nil {
		return f
	}
	// destinations that are not fresh: an application that decodes every message of a connection
	// into the same struct truncates its slices (keeping their capacity) before the next Unmarshal
	if f := guard("Unmarshal(reused AVP-field struct)", func() {
		r := &reusedAVPs
		r.Auth, r.Acct, r.VSA, r.Failed, r.IPs, r.Vendors = r.Auth[:0], r.Acct[:0], r.VSA[:0], r.Failed[:0], r.IPs[:0], r.Vendors[:0]
		m.Unmarshal(r)
	}); f != nil {
		return f
	}
	if f := guard("Unmarshal(reused nested struct)", func() {
		r := &reusedNested
		r.VSAs, r.VSAsp, r.VSA.Acct = r.VSAs[:0], r.VSAsp[:0], r.VSA.Acct[:0]
		m.Unmarshal(r)
	}); f != nil {
		return f
	}
	if f := guard("smparser.CER.Parse", func() { new(smparser.CER).Parse(m, smparser.Server) }); f != nil {
		return f
	}
	if f := guard("smparser.CEA.Parse", func() { new(smparser.CEA).Parse(m, smparser.Client) }); f != nil {
		return f
	}
	if f := guard("smparser.DWR.Parse", func() { new(smparser.DWR).Parse(m) }); f != nil {
		return f
	}
	if f := guard("smparser.DWA.Parse", func() { new(smparser.DWA).Parse(m) }); f != nil {
		return f
	}
	return nil
}

// inspectUnmeasured: search and rendering, checked for panics only.
func inspectUnmeasured(m *diam.Message, render bool) *ev.Failure {
	{
		// AVP search: its result is legitimately as large as the number of matches, and
		// collecting matches level by level makes the *total* allocated (not the live
		// memory) quadratic in the depth of a self-nested chain of matching AVPs, which
		// TotalAlloc cannot tell apart from real consumption: checked for panics, and
		// for process-level memory in the child-process cases.
		for _, code := range findCodes {
			code := code
			if f := guard(fmt.Sprintf("FindAVP(%v)", code), func() {
				m.FindAVP(code, dict.UndefinedVendorID)
				m.FindAVPs(code, 0)
				m.FindAVPsWithPath([]interface{}{uint32(279), code}, dict.UndefinedVendorID)
				m.FindAVPsWithPath([]interface{}{code}, dict.UndefinedVendorID)
			}); f != nil {
				return f
			}
		}
	}
	if render {
		if f := guard("String", func() { _ = m.String() }); f != nil {
			return f
		}
		// the String method of every decoded value, called directly: package fmt recovers a
		// panicking Stringer (and prints a marker instead), a caller that logs `a.Data.String()`
		// or `a.Data` through another route does not
		var walk func(avps []*diam.AVP, depth int) *ev.Failure
		walk = func(avps []*diam.AVP, depth int) *ev.Failure {
			for _, a := range avps {
				if a == nil || a.Data == nil {
					continue
				}
				if g, ok := a.Data.(*diam.GroupedAVP); ok {
					if depth < 64 {
						if f := walk(g.AVP, depth+1); f != nil {
							return f
						}
					}
					continue
				}
				a := a
				if f := guard(fmt.Sprintf("Data.String of a decoded %T", a.Data), func() { _ = a.Data.String() }); f != nil {
					return f
				}
			}
			return nil
		}
		if f := walk(m.AVP, 0); f != nil {
			return f
		}
		if f := guard("PrettyDump", func() { _ = m.PrettyDump() }); f != nil {
			return f
		}
	}
	return nil
}

// decodeAll offers the bytes to every decoder entry point and inspects what
// comes back. It returns the first failure and whether AVP decoding was reached.
func decodeAll(p *dict.Parser, wire []byte) (fail *ev.Failure, reached bool) {
	render := len(wire) <= renderMax
	var hdr *diam.Header
	if f := guard("DecodeHeader", func() { hdr, _ = diam.DecodeHeader(wire) }); f != nil {
		return f, false
	}
	app := uint32(0)
	if hdr != nil {
		app = hdr.ApplicationID
		if f := guard("Header.String", func() { _ = hdr.String(); _ = hdr.Serialize() }); f != nil {
			return f, false
		}
	}
	// --- ReadMessage + inspections, with the allocation bound
	before := totalAlloc()
	var m *diam.Message
	var err error
	if f := guard("ReadMessage", func() { m, err = diam.ReadMessage(bytes.NewReader(wire), p) }); f != nil {
		return f, false
	}
	if err == nil && m != nil {
		reached = true
		if f := inspect(m); f != nil {
			return f, reached
		}
	} else if err != nil && strings.Contains(err.Error(), "AVP") {
		reached = true
	}
	used := totalAlloc() - before
	bound := uint64(allocA + allocB*len(wire))
	if hdr != nil && int(hdr.MessageLength) > len(wire) {
		// the header claims more than was supplied: no AVP can be decoded, so nothing but read
		// buffers proportional to the bytes that arrived may be allocated (the chunked reader
		// needs about 3.5x; a buffer sized from the claim is 16 MiB whatever arrived)
		bound = uint64(truncA + truncB*len(wire))
	}
	if used > bound {
		return ev.Failf("over-allocation", "decoding + re-serialising + unmarshalling + searching a %d-byte input (declared message length %d) allocated %d bytes (bound %d); ReadMessage error: %v; input starts % x",
			len(wire), declaredLen(hdr), used, bound, err, clip(wire)), reached
	}
	if err == nil && m != nil {
		if f := inspectUnmeasured(m, render); f != nil {
			return f, reached
		}
	}
	// --- the same bytes through the other ways into ReadMessage: without a dictionary argument
	// (nil selects dict.Default) and from a multi-stream (SCTP) reader, which has a read path of
	// its own; the allocation bound for claimed-but-missing bytes applies there as well
	if f := guard("ReadMessage(nil dictionary)", func() {
		if m2, err2 := diam.ReadMessage(bytes.NewReader(wire), nil); err2 == nil && m2 != nil {
			_, _ = m2.Serialize()
			_ = m2.Len()
		}
	}); f != nil {
		return f, reached
	}
	if truncated := hdr != nil && int(hdr.MessageLength) > len(wire); truncated || len(wire) <= 1024 {
		var merr error
		// others > 0: while the claimed body is awaited, that many 4-byte records arrive on streams
		// not seen before (they are buffered for later): what they cost is bounded by what they carry
		sctpRead := func(others int) (used uint64, fail *ev.Failure) {
			be := memnet.NewSCTP()
			be.Feed(memnet.Chunk{Stream: 3, Data: wire})
			for i := 0; i < others; i++ {
				be.Feed(memnet.Chunk{Stream: uint16(4 + i), Data: []byte{1, 0, 0, byte(20 + i)}})
			}
			be.FeedEOF()
			sc := diam.NewVerifSCTPConn(be)
			start := totalAlloc()
			fail = guard("ReadMessage(SCTP)", func() {
				var m3 *diam.Message
				if m3, merr = diam.ReadMessage(sc, p); merr == nil && m3 != nil {
					_, _ = m3.Serialize()
				}
			})
			used = totalAlloc() - start
			diam.ReleaseVerifSCTPConn(sc) // the hook's registry must not grow with the number of cases
			return
		}
		for _, others := range []int{0, 24} {
			if others > 0 && !truncated {
				continue
			}
			used, f := sctpRead(others)
			if f != nil {
				return f, reached
			}
			if bound := uint64(truncA + truncB*(len(wire)+4*others)); truncated && used > bound {
				// TotalAlloc is process-wide: measure once more before believing it
				if used2, _ := sctpRead(others); used2 < used {
					used = used2
				}
				if used > bound {
					return ev.Failf("over-allocation", "ReadMessage from a multi-stream (SCTP) reader: a %d-byte input whose header declares %d bytes, followed by %d 4-byte records on other streams, made it allocate %d bytes (bound %d, measured twice); error: %v; input starts % x",
						len(wire), declaredLen(hdr), others, used, bound, merr, clip(wire)), reached
				}
			}
		}
	}
	// --- the AVP-level entry points on the body
	if len(wire) > 20 {
		body := wire[20:]
		before = totalAlloc()
		var a *diam.AVP
		var aerr error
		if f := guard("DecodeAVP", func() { a, aerr = diam.DecodeAVP(body, app, p) }); f != nil {
			return f, reached
		}
		if aerr == nil && a != nil && a.Data != nil {
			if f := guard("AVP.Serialize", func() { a.Serialize(); _ = a.Len() }); f != nil {
				return f, reached
			}
			if render {
				if f := guard("AVP.String", func() { _ = a.String() }); f != nil {
					return f, reached
				}
			}
		}
		var g *diam.GroupedAVP
		var gerr error
		if f := guard("DecodeGrouped", func() { g, gerr = diam.DecodeGrouped(datatype.Grouped(body), app, p) }); f != nil {
			return f, reached
		}
		if gerr == nil && g != nil {
			if f := guard("GroupedAVP.Serialize", func() { g.Serialize(); _ = g.Len() }); f != nil {
				return f, reached
			}
			if render {
				if f := guard("GroupedAVP.String", func() { _ = g.String() }); f != nil {
					return f, reached
				}
			}
		}
		used = totalAlloc() - before
		if bound := uint64(allocA + allocB*len(wire)); used > bound && !render {
			return ev.Failf("over-allocation", "DecodeAVP + DecodeGrouped + re-serialisation of a %d-byte body allocated %d bytes (bound %d)", len(body), used, bound), reached
		}
	}
	return nil, reached
}

func clip(b []byte) []byte {
	if len(b) > 200 {
		return b[:200]
	}
	return b
}

func runCase(c Case) *ev.Failure {
	p, _, err := c.Dict.Load()
	if err != nil {
		return ev.Failf("harness-dict", "%v", err)
	}
	f, _ := decodeAll(p, c.Wire)
	return f
}

func classify(c Case) (bool, []string) {
	cl := append([]string{"dict:" + c.Dict.Name}, c.Tags...)
	nt := false
	for _, t := range c.Tags {
		if strings.HasPrefix(t, "mut:") || t == "deep-nesting" {
			nt = true
		}
	}
	if !nt {
		// random bytes: non-trivial when header and command lookup pass and AVP decoding is reached
		if p, _, err := c.Dict.Load(); err == nil && len(c.Wire) > 20 {
			if h, err := refcodec.DecodeHeader(c.Wire); err == nil {
				if _, err := p.FindCommand(h.App, h.Code); err == nil && h.Length >= 28 {
					nt = true
					cl = append(cl, "reaches-avp-decoding")
				}
			}
		}
	}
	switch n := len(c.Wire); {
	case n <= 20:
		cl = append(cl, "len<=20")
	case n > 4096:
		cl = append(cl, "len>4KiB")
	}
	return nt, cl
}

// ---------------------------------------------------------------------------
// generators

type avpLoc struct{ off, hs, declared, containerEnd int }

// locate finds every AVP header of a VALID reference image, at any nesting.
func locate(cat *gen.Catalog, app uint32, b []byte, base int, out *[]avpLoc) {
	recs, err := refcodec.Frame(b)
	if err != nil {
		return
	}
	off := 0
	for _, r := range recs {
		hs := 8
		v := uint32(0)
		if r.Flags&0x80 != 0 {
			hs, v = 12, r.Vendor
		}
		*out = append(*out, avpLoc{off: base + off, hs: hs, declared: r.Declared, containerEnd: base + len(b)})
		if cat.Resolve(app, r.Code, v) == gen.TGrouped {
			locate(cat, app, r.Payload, base+off+hs, out)
		}
		off += refcodec.Pad4(r.Declared)
	}
}

func put24(b []byte, v int) { b[0], b[1], b[2] = byte(v>>16), byte(v>>8), byte(v) }

// smShaped draws CER/CEA/DWR/DWA-like messages made of the AVPs that the
// library's own struct-unmarshalling consumers (smparser) look at, with
// non-conformant variants: V flag on base AVPs, wrong widths, wrong types.
func smShaped(t *rapid.T) (hdr refcodec.Header, nodes []*refcodec.Node) {
	hdr = refcodec.Header{Version: 1, Flags: rapid.SampledFrom([]uint8{0x80, 0x00, 0xa0, 0x40}).Draw(t, "flags"),
		Code: rapid.SampledFrom([]uint32{257, 280, 257, 282, 272}).Draw(t, "cmd"), App: rapid.SampledFrom([]uint32{0, 0, 4, 3}).Draw(t, "app"),
		HopByHop: 1, EndToEnd: 2}
	codes := []uint32{264, 296, 278, 299, 258, 259, 260, 268, 279, 281, 257, 55, 265, 266, 269, 263}
	n := rapid.IntRange(1, 10).Draw(t, "n")
	var mk func(depth int) *refcodec.Node
	mk = func(depth int) *refcodec.Node {
		nd := &refcodec.Node{Code: rapid.SampledFrom(codes).Draw(t, "code"), Flags: rapid.SampledFrom([]uint8{0x40, 0x40, 0x00, 0xc0, 0x80, 0xff}).Draw(t, "aflags")}
		if nd.Flags&0x80 != 0 {
			nd.Vendor = rapid.SampledFrom([]uint32{0, 10415, 1}).Draw(t, "vendor")
		}
		if (nd.Code == 260 || nd.Code == 279) && depth < 3 && rapid.IntRange(0, 4).Draw(t, "as-group") != 0 {
			nd.Group = true
			k := rapid.IntRange(0, 3).Draw(t, "members")
			for i := 0; i < k; i++ {
				nd.Children = append(nd.Children, mk(depth+1))
			}
			return nd
		}
		switch rapid.IntRange(0, 5).Draw(t, "payload-kind") {
		case 0:
			nd.Payload = refcodec.U32(gen.U32(t, "u32"))
		case 1:
			nd.Payload = []byte("host.example")
		case 2:
			nd.Payload = refcodec.Address(rapid.SampledFrom([]uint16{1, 2, 0, 8}).Draw(t, "fam"), rapid.SliceOfN(rapid.Byte(), 0, 18).Draw(t, "addr"))
		default:
			nd.Payload = rapid.SliceOfN(rapid.Byte(), 0, 20).Draw(t, "payload")
		}
		return nd
	}
	for i := 0; i < n; i++ {
		nodes = append(nodes, mk(1))
	}
	return
}

var boundaryLens = []int{0, 1, 7, 8, 9, 11, 12, 13, 19, 20, 21, 0xFFFFFF}

func genStructured(t *rapid.T) Case {
	c := Case{Dict: gen.DictChoice{Name: rapid.SampledFrom(gen.EmbeddedNames()).Draw(t, "dict")}}
	if rapid.IntRange(0, 2).Draw(t, "default-dict") != 0 {
		c.Dict.Name = "default"
	}
	if rapid.IntRange(0, 7).Draw(t, "generated-dict") == 0 {
		f := gen.CodecDict(t)
		c.Dict = gen.DictChoice{Name: "generated", Gen: &f}
	}
	_, cat, err := c.Dict.Load()
	if err != nil {
		t.Fatalf("harness: %v", err)
	}
	var wire []byte
	var app uint32
	switch rapid.IntRange(0, 2).Draw(t, "base") {
	case 0:
		h, nodes := smShaped(t)
		wire = refcodec.EncodeMessage(h, nodes, false)
		app = h.App
		c.Tags = append(c.Tags, "base:sm-shaped")
	default:
		m := cat.Message(t, gen.TreeOpts{MaxTop: 8, MaxDepth: 4, Val: gen.ValueOpts{MaxBytes: 600, AllowAmbAddr: true}})
		wire = m.RefBytes()
		app = m.App
		c.Tags = append(c.Tags, "base:valid-message")
	}
	k := rapid.IntRange(0, 4).Draw(t, "mutations")
	for i := 0; i < k && len(wire) >= 20; i++ {
		var locs []avpLoc
		locate(cat, app, wire[20:], 20, &locs)
		switch rapid.IntRange(0, 6).Draw(t, "mutation") {
		case 0: // message length field
			v := rapid.SampledFrom(append(boundaryLens, len(wire)-1, len(wire)+1, len(wire)-4, len(wire)+4)).Draw(t, "msg-len")
			if v < 0 {
				v = 0
			}
			put24(wire[1:], v)
			c.Tags = append(c.Tags, "mut:message-length")
		case 1, 2: // an AVP length field at any nesting
			if len(locs) == 0 {
				continue
			}
			l := locs[rapid.IntRange(0, len(locs)-1).Draw(t, "which-avp")]
			remaining := l.containerEnd - l.off
			v := rapid.SampledFrom(append(boundaryLens, l.declared-1, l.declared+1, remaining-1, remaining, remaining+1, l.declared+4)).Draw(t, "avp-len")
			if v < 0 {
				v = 0
			}
			put24(wire[l.off+5:], v)
			c.Tags = append(c.Tags, "mut:avp-length")
		case 3: // truncate
			wire = wire[:rapid.IntRange(0, len(wire)).Draw(t, "truncate-at")]
			c.Tags = append(c.Tags, "mut:truncate")
		case 4: // flip a flag bit (V in particular)
			if len(locs) == 0 || rapid.IntRange(0, 5).Draw(t, "hdr-flag") == 0 {
				wire[4] ^= 1 << uint(rapid.IntRange(0, 7).Draw(t, "bit"))
				c.Tags = append(c.Tags, "mut:header-flag")
				continue
			}
			l := locs[rapid.IntRange(0, len(locs)-1).Draw(t, "which-avp")]
			bit := uint(7)
			if rapid.Bool().Draw(t, "other-bit") {
				bit = uint(rapid.IntRange(0, 7).Draw(t, "bit"))
			}
			wire[l.off+4] ^= 1 << bit
			c.Tags = append(c.Tags, "mut:avp-flag")
		case 5: // splice two messages / append garbage
			if rapid.Bool().Draw(t, "splice") {
				wire = append(wire, wire...)
				c.Tags = append(c.Tags, "mut:splice")
			} else {
				wire = append(wire, rapid.SliceOfN(rapid.Byte(), 1, 24).Draw(t, "garbage")...)
				put24(wire[1:], len(wire))
				c.Tags = append(c.Tags, "mut:append-garbage")
			}
		case 6: // overwrite a few bytes
			if len(wire) > 20 {
				for j := rapid.IntRange(1, 4).Draw(t, "n-bytes"); j > 0; j-- {
					wire[rapid.IntRange(0, len(wire)-1).Draw(t, "pos")] = rapid.Byte().Draw(t, "byte")
				}
				c.Tags = append(c.Tags, "mut:bytes")
			}
		}
	}
	if len(wire) > renderMax && rapid.IntRange(0, 9).Draw(t, "keep-large") != 0 {
		wire = wire[:renderMax]
		if len(wire) >= 4 {
			put24(wire[1:], len(wire))
		}
	}
	c.Wire = wire
	return c
}

func genRandom(t *rapid.T) Case {
	c := Case{Dict: gen.DictChoice{Name: "default"}, Tags: []string{"random"}}
	_, cat, _ := c.Dict.Load()
	n := rapid.IntRange(0, 200).Draw(t, "n")
	body := rapid.SliceOfN(rapid.Byte(), n, n).Draw(t, "body")
	if rapid.IntRange(0, 4).Draw(t, "raw") == 0 {
		c.Wire = body
		return c
	}
	cmd := rapid.SampledFrom(cat.Cmds).Draw(t, "cmd")
	h := refcodec.Header{Version: rapid.SampledFrom([]uint8{1, 1, 1, 0, 2, 255}).Draw(t, "ver"), Flags: rapid.Byte().Draw(t, "flags"),
		Code: cmd.Code, App: cmd.App, HopByHop: gen.U32(t, "hbh"), EndToEnd: gen.U32(t, "e2e"), Length: uint32(20 + len(body))}
	if rapid.IntRange(0, 5).Draw(t, "bad-len") == 0 {
		h.Length = uint32(rapid.SampledFrom(append(boundaryLens, 20+len(body)+1, 20+len(body)-1)).Draw(t, "len"))
	}
	// make the random body start like an AVP more often than chance would
	if len(body) >= 8 && rapid.Bool().Draw(t, "avp-prefix") {
		e := cat.Entries[rapid.IntRange(0, len(cat.Entries)-1).Draw(t, "entry")]
		copy(body, refcodec.U32(e.Code))
		put24(body[5:], rapid.SampledFrom([]int{len(body), 8, 12, len(body) - 1, len(body) / 2, 9}).Draw(t, "first-len"))
	}
	c.Wire = append(refcodec.EncodeHeader(h), body...)
	return c
}

// deepCase nests one grouped code in itself as deep as size allows.
func deepCase(size int, code uint32, tag string) Case {
	depth := (size - 20) / 8
	b := make([]byte, 20+depth*8)
	copy(b, refcodec.EncodeHeader(refcodec.Header{Version: 1, Flags: 0x80, Code: 257, App: 0, HopByHop: 1, EndToEnd: 2, Length: uint32(len(b))}))
	for i := 0; i < depth; i++ {
		o := 20 + i*8
		copy(b[o:], refcodec.U32(code))
		b[o+4] = 0x40
		put24(b[o+5:], (depth-i)*8)
	}
	return Case{Dict: gen.DictChoice{Name: "default"}, Wire: b, Tags: []string{"deep-nesting", tag}}
}

var structured = ev.Register(&ev.Prop[Case]{
	ID: "C03", Name: "structured",
	Rule: "structured corruptions (<=4 of: any length field - message or AVP at any nesting - set to 0,1,7,8,9,11,12,13,19,20,21,true+-1,remaining+-1,0xFFFFFF; truncation at any offset; any flag bit flipped; splice; garbage; byte overwrites) of reference-encoded valid messages and of CER/CEA/DWR-shaped messages with non-conformant AVPs, under every embedded dictionary and generated ones; every decoder entry point and every later inspection (re-serialisation, Unmarshal into scalar/AVP/nested/embedded struct families, smparser CER/CEA/DWR/DWA, Find*, String, PrettyDump) runs under recover with a TotalAlloc bound of 512KiB + 256*len(input); non-trivial = at least one mutation applied (or nesting case); distinct by input hash",
	Gen:  genStructured, Run: runCase, Classify: classify,
	Hash: func(c Case) uint64 { return ev.HashBytes(append(append([]byte{}, c.Wire...), c.Dict.Name...)) },
	Sample: func(c Case) interface{} {
		return map[string]interface{}{"dict": c.Dict.Name, "tags": c.Tags, "wire_hex": hex.EncodeToString(clip(c.Wire)), "len": len(c.Wire)}
	},
})

var random = ev.Register(&ev.Prop[Case]{
	ID: "C03", Name: "random",
	Rule: "random byte strings, raw or behind a plausible header (defined command, any version/flags, length field right or boundary-valued, body optionally starting like an AVP of a defined code); same inspections and allocation bound; non-trivial = header and command lookup pass and AVP decoding is reached",
	Gen:  genRandom, Run: runCase, Classify: classify,
	Hash: func(c Case) uint64 { return ev.HashBytes(c.Wire) },
	Sample: func(c Case) interface{} {
		return map[string]interface{}{"tags": c.Tags, "wire_hex": hex.EncodeToString(clip(c.Wire)), "len": len(c.Wire)}
	},
})

func TestC03Structured(t *testing.T) { structured.Check(t, 8000, 400000) }
func TestC03Random(t *testing.T)     { random.Check(t, 4000, 200000) }

// Hostile constants and nesting, in-process (no rendering above 4 KiB).
func TestC03Constants(t *testing.T) {
	hdr := func(l uint32, code uint32) []byte {
		return refcodec.EncodeHeader(refcodec.Header{Version: 1, Flags: 0x80, Code: code, App: 0, HopByHop: 1, EndToEnd: 2, Length: l})
	}
	var cases []Case
	for l := uint32(0); l <= 21; l++ {
		cases = append(cases, Case{Dict: gen.DictChoice{Name: "default"}, Wire: hdr(l, 257), Tags: []string{"mut:message-length", "declared<=21"}})
		cases = append(cases, Case{Dict: gen.DictChoice{Name: "default"}, Wire: append(hdr(l, 257), make([]byte, 64)...), Tags: []string{"mut:message-length", "declared<=21+trailing"}})
	}
	cases = append(cases, Case{Dict: gen.DictChoice{Name: "default"}, Wire: hdr(0xFFFFFF, 257), Tags: []string{"mut:message-length", "claims-16MiB"}})
	cases = append(cases, Case{Dict: gen.DictChoice{Name: "default"}, Wire: append(hdr(0xFFFFFF, 280), make([]byte, 100)...), Tags: []string{"mut:message-length", "claims-16MiB"}})
	for _, supplied := range []int{1000, 64 << 10, 64<<10 + 1, 200 << 10, 1 << 20} { // 16 MiB claimed, part of it supplied
		cases = append(cases, Case{Dict: gen.DictChoice{Name: "default"}, Wire: append(hdr(0xFFFFFF, 257), denseBytes(supplied + 20)[20:]...), Tags: []string{"mut:message-length", "claims-16MiB-partly-supplied"}})
	}
	for ln := 8; ln <= 12; ln++ { // V flag with every short length
		a := refcodec.EncodeAVP(&refcodec.Node{Code: 264, Flags: 0x80, Vendor: 0x01020304, Payload: []byte("abcd")})
		put24(a[5:], ln)
		cases = append(cases, Case{Dict: gen.DictChoice{Name: "default"}, Wire: append(hdr(uint32(20+len(a)), 257), a...), Tags: []string{"mut:avp-length", "v-flag-short-length"}})
	}
	for _, n := range []int{0, 1, 2, 3, 5, 8} { // Time / fixed-width AVPs of every other width, then rendered
		a := refcodec.EncodeAVP(&refcodec.Node{Code: 55, Flags: 0x40, Payload: make([]byte, n)})
		cases = append(cases, Case{Dict: gen.DictChoice{Name: "default"}, Wire: append(hdr(uint32(20+len(a)), 257), a...), Tags: []string{"mut:width", "time-odd-width"}})
	}
	for _, size := range []int{1 << 10, 4 << 10, 16 << 10, ev.Pick(32<<10, 64<<10)} {
		cases = append(cases, deepCase(size, 279, fmt.Sprintf("nested-%dKiB", size>>10)))
		cases = append(cases, deepCase(size, 260, fmt.Sprintf("nested-%dKiB", size>>10)))
	}
	structured.Enumerate(t, false, func(yield func(Case) bool) {
		for _, c := range cases {
			if !yield(c) {
				return
			}
		}
	})
}

// Every address family number (a 16-bit field that renderers like to look up in tables), with
// address parts that are not those of an IPv4 / IPv6 address: decoded, re-serialised, rendered.
func TestC03EveryAddressFamily(t *testing.T) {
	hdr := func(l uint32) []byte {
		return refcodec.EncodeHeader(refcodec.Header{Version: 1, Flags: 0x80, Code: 257, App: 0, HopByHop: 1, EndToEnd: 2, Length: l})
	}
	limit := ev.Pick(1200, 65536)
	structured.Enumerate(t, false, func(yield func(Case) bool) {
		for f := 0; f < 65536; f++ {
			if f >= limit && f < 65536-64 && f&(f-1) != 0 && (f+1)&f != 0 {
				continue // quick tier: the first 1200, the powers of two and their predecessors, the last 64
			}
			for _, n := range []int{0, 3, 9} {
				a := refcodec.EncodeAVP(&refcodec.Node{Code: 257, Flags: 0x40, Payload: refcodec.Address(uint16(f), make([]byte, n))})
				if !yield(Case{Dict: gen.DictChoice{Name: "default"}, Wire: append(hdr(uint32(20+len(a))), a...), Tags: []string{"address-family-enumeration"}}) {
					return
				}
			}
		}
	})
}

// One AVP of every data type of the base dictionary whose payload is ONE byte value repeated - all
// 256 values, lengths around every width a decoder or renderer could treat specially (4, 8, 16,
// 18, the 128 bytes a log line might abbreviate to, the 1 KiB pooled buffer): a run of
// continuation bytes, of 0xFF, of NULs is what random and mutated-valid payloads never contain.
func TestC03UniformPayloads(t *testing.T) {
	hdr := func(l uint32) []byte {
		return refcodec.EncodeHeader(refcodec.Header{Version: 1, Flags: 0x80, Code: 257, App: 0, HopByHop: 1, EndToEnd: 2, Length: l})
	}
	// Product-Name UTF8String, Origin-Host DiameterIdentity, Host-IP-Address Address, Class OctetString, Event-Timestamp Time,
	// Result-Code Unsigned32, Redirect-Host DiameterURI, Acct-Sub-Session-Id Unsigned64, Accounting-Record-Type Enumerated,
	// Failed-AVP Grouped, Session-Id UTF8String, an undefined code, Error-Message UTF8String
	codes := []uint32{269, 264, 257, 25, 55, 268, 292, 287, 480, 279, 263, 999999, 281}
	lens := []int{0, 1, 4, 127, 128, 129, 130, 1024}
	if ev.Thorough() {
		lens = []int{0, 1, 2, 3, 4, 5, 8, 12, 16, 18, 20, 64, 127, 128, 129, 130, 200, 255, 256, 257, 1003, 1004, 1024, 4097}
	}
	structured.Enumerate(t, false, func(yield func(Case) bool) {
		for _, code := range codes {
			for v := 0; v < 256; v++ {
				for _, n := range lens {
					a := refcodec.EncodeAVP(&refcodec.Node{Code: code, Flags: 0x40, Payload: bytes.Repeat([]byte{byte(v)}, n)})
					if !yield(Case{Dict: gen.DictChoice{Name: "default"}, Wire: append(hdr(uint32(20+len(a))), a...), Tags: []string{"uniform-payload-enumeration"}}) {
						return
					}
				}
			}
		}
	})
}

// ---------------------------------------------------------------------------
// process-level cases: inputs that could kill the process instead of
// panicking are decoded in a child (this test binary re-executing itself)
// under an address-space limit and a time budget.

type childCase struct {
	name     string
	build    func() []byte
	limitMiB int
	timeout  time.Duration
	knownSig string
	thorough bool
	// noSerialize: Len() of a nested chain is recomputed at every level, so
	// re-serialising very deep nesting is quadratic in TIME (not memory) and
	// would only exhaust the time budget; the 16-64 KiB cases cover it.
	noSerialize bool
}

func nestedBytes(size int) []byte { return deepCase(size, 279, "").Wire }

func denseBytes(size int) []byte {
	// a valid message of many small AVPs of an undefined code
	n := (size - 20) / 12
	b := make([]byte, 20+n*12)
	copy(b, refcodec.EncodeHeader(refcodec.Header{Version: 1, Flags: 0x80, Code: 257, HopByHop: 1, EndToEnd: 2, Length: uint32(len(b))}))
	for i := 0; i < n; i++ {
		o := 20 + i*12
		copy(b[o:], refcodec.U32(3000000))
		put24(b[o+5:], 12)
		copy(b[o+8:], refcodec.U32(uint32(i)))
	}
	return b
}

const sigStack = "nested-group-stack-overflow"

var childCases = []childCase{
	{name: "length-0", build: func() []byte {
		return append(refcodec.EncodeHeader(refcodec.Header{Version: 1, Flags: 0x80, Code: 257, Length: 0}), make([]byte, 40)...)
	}, limitMiB: 3072, timeout: 60 * time.Second},
	{name: "length-19", build: func() []byte {
		return append(refcodec.EncodeHeader(refcodec.Header{Version: 1, Flags: 0x80, Code: 257, Length: 19}), make([]byte, 40)...)
	}, limitMiB: 3072, timeout: 60 * time.Second},
	{name: "claims-16MiB-sends-20", build: func() []byte {
		return refcodec.EncodeHeader(refcodec.Header{Version: 1, Flags: 0x80, Code: 257, Length: 0xFFFFFF})
	}, limitMiB: 3072, timeout: 60 * time.Second},
	{name: "nested-64KiB", build: func() []byte { return nestedBytes(64 << 10) }, limitMiB: 3072, timeout: 120 * time.Second},
	{name: "nested-1MiB", build: func() []byte { return nestedBytes(1 << 20) }, limitMiB: 3072, timeout: 120 * time.Second, noSerialize: true},
	{name: "dense-1MiB", build: func() []byte { return denseBytes(1 << 20) }, limitMiB: 3072, timeout: 120 * time.Second},
	{name: "dense-16MiB", build: func() []byte { return denseBytes(1<<24 - 16) }, limitMiB: 6144, timeout: 300 * time.Second, thorough: true},
	{name: "nested-4MiB", build: func() []byte { return nestedBytes(4 << 20) }, limitMiB: 6144, timeout: 300 * time.Second, thorough: true, noSerialize: true},
	{name: "nested-256KiB", build: func() []byte { return nestedBytes(256 << 10) }, limitMiB: 3072, timeout: 300 * time.Second, thorough: true},
	// Known finding: recursion depth equals nesting depth; ~2M nested groups exceed the 1 GB goroutine stack limit.
	{name: "nested-16MiB", build: func() []byte { return nestedBytes(1<<24 - 4) }, limitMiB: 8192, timeout: 300 * time.Second, knownSig: sigStack},
}

// TestC03ChildWorker is the child side: it decodes the file named by
// VERIF_C03_CHILD and prints CHILD-DONE with the allocation it measured.
func TestC03ChildWorker(t *testing.T) {
	path := os.Getenv("VERIF_C03_CHILD")
	if path == "" {
		t.Skip("child side only")
	}
	wire, err := os.ReadFile(path)
	if err != nil {
		fmt.Println("CHILD-HARNESS-ERROR", err)
		os.Exit(4)
	}
	before := totalAlloc()
	var m *diam.Message
	f := guard("ReadMessage", func() { m, err = diam.ReadMessage(bytes.NewReader(wire), dict.Default) })
	if f == nil && err == nil && m != nil {
		if os.Getenv("VERIF_C03_NOSERIALIZE") == "" {
			f = guard("Serialize", func() { m.Serialize() })
		}
		if f == nil {
			f = guard("Unmarshal", func() { m.Unmarshal(new(unmarshalNested)); m.Unmarshal(new(unmarshalAVPs)) })
		}
		if f == nil {
			f = guard("FindAVP", func() {
				m.FindAVP(uint32(264), dict.UndefinedVendorID)
				m.FindAVPs(uint32(999999), dict.UndefinedVendorID)
			})
		}
	}
	used := totalAlloc() - before
	if f != nil {
		fmt.Printf("CHILD-FAIL %s %s\n", f.Sig, strings.ReplaceAll(f.Detail, "\n", " | "))
		os.Exit(3)
	}
	bound := uint64(allocA + allocB*len(wire))
	if used > bound {
		fmt.Printf("CHILD-FAIL over-allocation a %d-byte input made decode+serialise+unmarshal+find allocate %d bytes (bound %d); ReadMessage error: %v\n", len(wire), used, bound, err)
		os.Exit(3)
	}
	fmt.Printf("CHILD-DONE alloc=%d err=%v\n", used, err != nil)
	os.Exit(0)
}

type ChildCase struct {
	Name string `json:"name"`
}

var childProp = ev.Register(&ev.Prop[ChildCase]{
	ID: "C03", Name: "child-process",
	Rule: "inputs that can kill the process instead of panicking (declared length below 20, 16 MiB claims, nesting as deep as 64 KiB / 1 MiB / 4 MiB / 16 MiB allow, dense 1 MiB / 16 MiB messages) decoded + re-serialised + unmarshalled + searched in a child process under RLIMIT_AS and a time budget; verdict = the child's exit status and output (fatal error, out of memory, over-allocation); a time-out is inconclusive",
	Run:  runChild,
})

func runChild(c ChildCase) *ev.Failure {
	var cc *childCase
	for i := range childCases {
		if childCases[i].name == c.Name {
			cc = &childCases[i]
		}
	}
	if cc == nil {
		return ev.Failf("harness-child", "no child case %q", c.Name)
	}
	dir, err := os.MkdirTemp(ev.GetEnv().WorkDir, "child")
	if err != nil {
		return ev.Failf("harness-child", "%v", err)
	}
	defer os.RemoveAll(dir)
	path := dir + "/input.bin"
	if err := os.WriteFile(path, cc.build(), 0o644); err != nil {
		return ev.Failf("harness-child", "%v", err)
	}
	cmd := exec.Command(os.Args[0], "-test.run", "^TestC03ChildWorker$", "-test.timeout", "0")
	// few threads and one malloc arena: with cgo every thread reserves tens of MiB of
	// address space, which would otherwise eat the limit on a 16-core machine
	cmd.Env = append(os.Environ(), "VERIF_C03_CHILD="+path, "VERIF_C03_LIMIT_MIB="+strconv.Itoa(cc.limitMiB), "GOTRACEBACK=single",
		"GOMAXPROCS=2", "MALLOC_ARENA_MAX=1")
	if cc.noSerialize {
		cmd.Env = append(cmd.Env, "VERIF_C03_NOSERIALIZE=1")
	}
	var out bytes.Buffer
	cmd.Stdout, cmd.Stderr = &out, &out
	cmd.SysProcAttr = &syscall.SysProcAttr{Setpgid: true}
	if err := startLimited(cmd, cc.limitMiB); err != nil {
		return ev.Failf("harness-child", "cannot start child: %v", err)
	}
	done := make(chan error, 1)
	go func() { done <- cmd.Wait() }()
	select {
	case err = <-done:
	case <-time.After(cc.timeout):
		syscall.Kill(-cmd.Process.Pid, syscall.SIGKILL)
		<-done
		childNotes = append(childNotes, fmt.Sprintf("child case %s: time budget of %v exhausted, inconclusive", cc.name, cc.timeout))
		return nil
	}
	text := out.String()
	if err == nil && strings.Contains(text, "CHILD-DONE") {
		return nil
	}
	sig := "child-died"
	switch {
	case strings.Contains(text, "CHILD-HARNESS-ERROR"):
		return ev.Failf("harness-child", "%s", text)
	case strings.Contains(text, "pthread_create failed"):
		// thread creation failing under the address-space limit says nothing about the decoder
		childNotes = append(childNotes, fmt.Sprintf("child case %s: pthread_create failed under the %d MiB limit, inconclusive", cc.name, cc.limitMiB))
		return nil
	case strings.Contains(text, "CHILD-FAIL"):
		i := strings.Index(text, "CHILD-FAIL")
		f := strings.Fields(text[i:])
		if len(f) > 1 {
			sig = f[1]
		}
	case strings.Contains(text, "stack overflow") || strings.Contains(text, "goroutine stack exceeds"):
		sig = "stack-overflow"
	case strings.Contains(text, "out of memory") || strings.Contains(text, "cannot allocate memory"):
		sig = "out-of-memory"
	}
	if cc.knownSig != "" && (sig == "stack-overflow" || sig == "out-of-memory" || sig == "child-died") {
		sig = cc.knownSig // identified by the input: nesting depth >= 1.9 M
	}
	if len(text) > 1500 {
		text = text[:700] + "\n...\n" + text[len(text)-700:]
	}
	return ev.Failf(sig, "child decoding %q (%d-byte input) under a %d MiB address-space limit ended with %v:\n%s", cc.name, len(cc.build()), cc.limitMiB, err, text)
}

var childNotes []string

// startLimited starts cmd with RLIMIT_AS applied through a tiny shell prefix.
func startLimited(cmd *exec.Cmd, limitMiB int) error {
	args := append([]string{"-c", fmt.Sprintf("ulimit -v %d; exec \"$0\" \"$@\"", limitMiB*1024), cmd.Path}, cmd.Args[1:]...)
	cmd.Path = "/bin/sh"
	cmd.Args = append([]string{"sh"}, args...)
	return cmd.Start()
}

func TestC03ChildProcess(t *testing.T) {
	if os.Getenv("VERIF_C03_CHILD") != "" {
		t.Skip("parent side only")
	}
	if ev.GetEnv().Shard != 0 {
		t.Skip("one shard runs the child cases")
	}
	rec := childProp.Rec(t)
	for i := range childCases {
		cc := &childCases[i]
		if cc.thorough && !ev.Thorough() {
			continue
		}
		t0 := time.Now()
		if cc.knownSig != "" {
			childProp.Probe(t, cc.knownSig, ChildCase{cc.name},
				"a 16 MiB message of ~2 097 000 nested grouped AVPs ends the process with 'fatal error: stack overflow' (recursion depth = nesting depth); every shallower crash is still a violation")
			rec.Bulk(1, 1, "known-probe:"+cc.name)
			rec.Note("child case %s took %.1fs", cc.name, time.Since(t0).Seconds())
			continue
		}
		childProp.One(t, ChildCase{cc.name})
		rec.Note("child case %s took %.1fs", cc.name, time.Since(t0).Seconds())
	}
	for _, n := range childNotes {
		rec.Note("%s", n)
	}
}

func TestC03Keep(t *testing.T) { ev.RunKeep(t, "C03") }
func TestReplay(t *testing.T)  { ev.Replay(t) }

// ---------------------------------------------------------------------------
// native fuzz targets (thorough tier)

func fuzzSeeds() [][]byte {
	var out [][]byte
	hdr := func(l uint32) []byte {
		return refcodec.EncodeHeader(refcodec.Header{Version: 1, Flags: 0x80, Code: 257, Length: l, HopByHop: 1, EndToEnd: 2})
	}
	cer := refcodec.EncodeMessage(refcodec.Header{Version: 1, Flags: 0x80, Code: 257, HopByHop: 1, EndToEnd: 2}, []*refcodec.Node{
		{Code: 264, Flags: 0x40, Payload: []byte("client")}, {Code: 296, Flags: 0x40, Payload: []byte("realm")},
		{Code: 257, Flags: 0x40, Payload: refcodec.Address(1, []byte{10, 0, 0, 1})}, {Code: 266, Flags: 0x40, Payload: refcodec.U32(13)},
		{Code: 269, Payload: []byte("go-diameter")}, {Code: 299, Flags: 0x40, Payload: refcodec.U32(0)},
		{Code: 278, Flags: 0x40, Payload: refcodec.U32(7)}, {Code: 55, Flags: 0x40, Payload: refcodec.Time(1700000000)},
		{Code: 260, Flags: 0x40, Group: true, Children: []*refcodec.Node{{Code: 266, Flags: 0x40, Payload: refcodec.U32(10415)}, {Code: 258, Flags: 0x40, Payload: refcodec.U32(4)}}},
		{Code: 279, Flags: 0x40, Group: true, Children: []*refcodec.Node{{Code: 279, Flags: 0x40, Group: true}}},
		{Code: 999999, Flags: 0x80, Vendor: 10415, Payload: []byte{1, 2, 3}},
	}, false)
	out = append(out, cer, hdr(0), hdr(19), hdr(20), hdr(21), hdr(0xFFFFFF))
	for ln := 8; ln <= 12; ln++ {
		a := refcodec.EncodeAVP(&refcodec.Node{Code: 264, Flags: 0x80, Vendor: 1, Payload: []byte("abcd")})
		put24(a[5:], ln)
		out = append(out, append(hdr(uint32(20+len(a))), a...))
	}
	out = append(out, deepCase(256, 279, "").Wire)
	return out
}

func fuzzOne(t *testing.T, wire []byte) {
	if len(wire) > 1<<16 {
		return
	}
	if f, _ := decodeAll(dict.Default, wire); f != nil {
		t.Fatalf("[%s] %s\ninput % x", f.Sig, f.Detail, wire)
	}
}

func FuzzReadMessage(f *testing.F) {
	for _, s := range fuzzSeeds() {
		f.Add(s)
	}
	f.Fuzz(fuzzOne)
}

func FuzzDecodeAVP(f *testing.F) {
	for _, s := range fuzzSeeds() {
		if len(s) > 20 {
			f.Add(s[20:], uint32(0))
			f.Add(s[20:], uint32(4))
		}
	}
	f.Fuzz(func(t *testing.T, data []byte, app uint32) {
		if len(data) > 1<<16 {
			return
		}
		wire := append(refcodec.EncodeHeader(refcodec.Header{Version: 1, Flags: 0x80, Code: 257, App: app, Length: uint32(20 + len(data))}), data...)
		fuzzOne(t, wire)
	})
}

func FuzzDecodeGrouped(f *testing.F) {
	for _, s := range fuzzSeeds() {
		if len(s) > 20 {
			f.Add(s[20:])
		}
	}
	f.Fuzz(func(t *testing.T, data []byte) {
		if len(data) > 1<<16 {
			return
		}
		// the bytes become the payload of a Failed-AVP group inside a CEA
		wire := refcodec.EncodeMessage(refcodec.Header{Version: 1, Code: 257, HopByHop: 1, EndToEnd: 2},
			[]*refcodec.Node{{Code: 279, Flags: 0x40, Payload: data}, {Code: 268, Flags: 0x40, Payload: refcodec.U32(5012)}}, false)
		fuzzOne(t, wire)
	})
}
