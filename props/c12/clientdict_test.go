package c12

import (
	"fmt"
	"testing"
	"time"

	"github.com/fiorix/go-diameter/v4/diam"
	"github.com/fiorix/go-diameter/v4/diam/avp"
	"github.com/fiorix/go-diameter/v4/diam/datatype"
	"github.com/fiorix/go-diameter/v4/diam/sm"
	"pgregory.net/rapid"

	"verif/internal/dicts"
	"verif/internal/ev"
	"verif/internal/memnet"
	"verif/internal/refcodec"
)

// The client has a dictionary of its own (Client.Dict: base + a document declaring an application
// that dict.Default does not know). It advertises that application in a
// Vendor-Specific-Application-Id group; the peer's success CEA shares exactly that application:
// the handshake succeeds, the connection works with the client's dictionary, and an answer of
// that application reaches the application's handler.

type CDCase struct {
	ID      uint32 `json:"id"`                // 7101..7103: not in dict.Default
	Typ     string `json:"typ"`               // auth | acct
	Untyped bool   `json:"untyped,omitempty"` // the dictionary declares the application WITHOUT a type attribute (it then serves both)
	CEAForm string `json:"cea_form"`          // plain: Auth-/Acct-Application-Id; vsa: inside a Vendor-Specific-Application-Id group
	Foreign bool   `json:"foreign"`           // the CEA shares another id the client's dictionary does not declare: the dial must fail
}

func runClientDict(c CDCase) *ev.Failure {
	emb, err := dicts.EmbeddedXML()
	if err != nil {
		return ev.Failf("harness-dict", "%v", err)
	}
	var base string
	for _, e := range emb {
		if e.Var == "baseXML" {
			base = e.XML
		}
	}
	typeAttr := fmt.Sprintf(" type=\"%s\"", c.Typ)
	if c.Untyped {
		typeAttr = ""
	}
	doc := fmt.Sprintf("<?xml version=\"1.0\" encoding=\"UTF-8\"?>\n<diameter>\n <application id=\"%d\"%s name=\"Own\">\n  <command code=\"8388001\" short=\"OW\" name=\"Own\"><request><rule avp=\"Session-Id\" required=\"false\"/></request><answer><rule avp=\"Session-Id\" required=\"false\"/></answer></command>\n </application>\n</diameter>\n", c.ID, typeAttr)
	p, err := dicts.Load(base, doc)
	if err != nil {
		return ev.Failf("harness-dict", "%v", err)
	}
	machine := sm.New(&sm.Settings{OriginHost: "client.example", OriginRealm: "example", VendorID: 13, ProductName: "verif",
		HostIPAddresses: []datatype.Address{datatype.Address([]byte{10, 0, 0, 9})}})
	got := make(chan *diam.Message, 2)
	machine.HandleFunc("OWA", func(_ diam.Conn, m *diam.Message) { got <- m })
	stop := make(chan struct{})
	defer close(stop)
	go func() {
		for {
			select {
			case <-machine.ErrorReports():
			case <-stop:
				return
			}
		}
	}()
	appCode := uint32(avp.AuthApplicationID)
	if c.Typ == "acct" {
		appCode = avp.AcctApplicationID
	}
	cli := &sm.Client{Dict: p, Handler: machine, MaxRetransmits: 0, RetransmitInterval: 3 * time.Second,
		VendorSpecificApplicationID: []*diam.AVP{diam.NewAVP(avp.VendorSpecificApplicationID, avp.Mbit, 0, &diam.GroupedAVP{AVP: []*diam.AVP{
			diam.NewAVP(avp.VendorID, avp.Mbit, 0, datatype.Unsigned32(10415)), diam.NewAVP(appCode, avp.Mbit, 0, datatype.Unsigned32(c.ID))}})}}
	mc := memnet.NewConn()
	shared := c.ID
	if c.Foreign {
		shared = c.ID + 10
	}
	mc.WriteHook = func(b []byte, accept func([]byte)) (int, error) {
		accept(b)
		if h, err := refcodec.DecodeHeader(b); err == nil && h.Code == 257 && h.Flags&0x80 != 0 {
			app := &refcodec.Node{Code: appCode, Flags: 0x40, Payload: refcodec.U32(shared)}
			if c.CEAForm == "vsa" {
				app = &refcodec.Node{Code: 260, Flags: 0x40, Group: true, Children: []*refcodec.Node{{Code: 266, Flags: 0x40, Payload: refcodec.U32(10415)}, app}}
			}
			mc.Feed(refcodec.EncodeMessage(refcodec.Header{Version: 1, Code: 257, HopByHop: h.HopByHop, EndToEnd: h.EndToEnd},
				[]*refcodec.Node{{Code: 268, Flags: 0x40, Payload: refcodec.U32(2001)}, {Code: 264, Flags: 0x40, Payload: []byte("srv.example")},
					{Code: 296, Flags: 0x40, Payload: []byte("example")}, {Code: 257, Flags: 0x40, Payload: refcodec.Address(1, []byte{10, 0, 0, 1})},
					{Code: 266, Flags: 0x40, Payload: refcodec.U32(13)}, {Code: 269, Payload: []byte("peer")}, app}, false))
		}
		return len(b), nil
	}
	type res struct {
		c   diam.Conn
		err error
	}
	done := make(chan res, 1)
	go func() { cc, err := cli.NewConn(mc, "peer"); done <- res{cc, err} }()
	var r res
	select {
	case r = <-done:
	case <-time.After(8 * time.Second):
		mc.Close()
		return ev.Failf("clientdict:dial-stuck", "NewConn did not return within 8 s")
	}
	defer func() { mc.FeedEOF(); mc.WaitClosed(2 * time.Second); mc.Close() }()
	what := fmt.Sprintf("Client.Dict declares application %d (%s), dict.Default does not; the client advertises it in a Vendor-Specific-Application-Id group; the success CEA shares application %d (%s form)", c.ID, c.Typ, shared, c.CEAForm)
	if c.Foreign {
		if r.err == nil {
			return ev.Failf("clientdict:handshake-should-fail", "%s: NewConn returned a connection although no application is shared", what)
		}
		if !mc.WaitClosed(3 * time.Second) {
			return ev.Failf("clientdict:failed-dial-left-open", "%s: NewConn failed (%v) and the transport was not closed", what, r.err)
		}
		return nil
	}
	if r.err != nil {
		return ev.Failf("clientdict:handshake-should-succeed", "%s: NewConn returned %v", what, r.err)
	}
	if r.c.Dictionary() != p {
		return ev.Failf("clientdict:connection-dictionary", "%s: the connection does not work with Client.Dict", what)
	}
	// an answer of the client's own application is dispatched to the application's handler
	mc.Feed(refcodec.EncodeMessage(refcodec.Header{Version: 1, Code: 8388001, App: c.ID, HopByHop: 77, EndToEnd: 78},
		[]*refcodec.Node{{Code: 263, Flags: 0x40, Payload: []byte("own;1")}, {Code: 268, Flags: 0x40, Payload: refcodec.U32(2001)}}, false))
	select {
	case m := <-got:
		if m.Header.ApplicationID != c.ID || m.Header.CommandCode != 8388001 {
			return ev.Failf("clientdict:answer-dispatch", "%s: the handler got %s", what, m.Header)
		}
	case <-time.After(5 * time.Second):
		return ev.Failf("clientdict:answer-dispatch", "%s: after the handshake an answer of that application (command OW, which only Client.Dict defines) did not reach the handler registered as \"OWA\" within 5 s", what)
	}
	return nil
}

var clientDictProp = ev.Register(&ev.Prop[CDCase]{
	ID: "C12", Name: "client-dictionary",
	Rule: "sm.Client with a dictionary of its own (base + one application 7101..7103, declared auth, acct or without a type, with a command of its own; none of it in dict.Default) advertising that application in a Vendor-Specific-Application-Id group, connected with Client.NewConn to a scripted peer whose success CEA shares that application (plain or vendor-specific form) or (1 in 4) only another one; shared: the dial succeeds, the connection uses Client.Dict and an answer of that application reaches the handler; not shared: error and transport closed; every case non-trivial",
	Gen: func(t *rapid.T) CDCase {
		return CDCase{ID: rapid.SampledFrom([]uint32{7101, 7102, 7103}).Draw(t, "id"), Typ: rapid.SampledFrom([]string{"auth", "acct"}).Draw(t, "typ"), Untyped: rapid.IntRange(0, 2).Draw(t, "untyped") == 0,
			CEAForm: rapid.SampledFrom([]string{"plain", "vsa"}).Draw(t, "cea-form"), Foreign: rapid.IntRange(0, 3).Draw(t, "foreign") == 0}
	},
	Run: runClientDict,
	Classify: func(c CDCase) (bool, []string) {
		return true, []string{"cea:" + c.CEAForm, fmt.Sprintf("shared:%v", !c.Foreign), fmt.Sprintf("application-declared-without-type:%v", c.Untyped)}
	},
})

func TestC12ClientDictionary(t *testing.T) { clientDictProp.Check(t, 24, 600) }
