package c12

import (
	"crypto/ecdsa"
	"crypto/elliptic"
	"crypto/rand"
	"crypto/tls"
	"crypto/x509"
	"crypto/x509/pkix"
	"io"
	"math/big"
	"net"
	"testing"
	"time"

	"github.com/fiorix/go-diameter/v4/diam"
	"github.com/fiorix/go-diameter/v4/diam/avp"
	"github.com/fiorix/go-diameter/v4/diam/datatype"
	"github.com/fiorix/go-diameter/v4/diam/sm"

	"verif/internal/ev"
	"verif/internal/refcodec"
)

// The same outcome through the TLS dial entry points with a dial timeout
// (sm.Client.DialTLSTimeout): the timeout bounds the dial, not the life of
// the connection. Real TCP + TLS on 127.0.0.1; the only timing assertion is a
// lower bound (the connection is still usable well after the dial timeout).

type TLSCase struct {
	DialTimeoutMs int `json:"dial_timeout_ms"`
	IdleMs        int `json:"idle_ms"`         // idle time after the handshake before the peer sends an answer
	AnswerCER     int `json:"answer_cer"`      // the peer answers the k-th transmission of the CER (1 = at once)
	IntervalMs    int `json:"interval_ms"`     // RetransmitInterval
	MaxRetransmit int `json:"max_retransmits"` // budget
}

func selfSigned() (tls.Certificate, error) {
	key, err := ecdsa.GenerateKey(elliptic.P256(), rand.Reader)
	if err != nil {
		return tls.Certificate{}, err
	}
	tmpl := &x509.Certificate{SerialNumber: big.NewInt(1), Subject: pkix.Name{CommonName: "verif"}, NotBefore: time.Now().Add(-time.Hour),
		NotAfter: time.Now().Add(24 * time.Hour), KeyUsage: x509.KeyUsageDigitalSignature, ExtKeyUsage: []x509.ExtKeyUsage{x509.ExtKeyUsageServerAuth},
		IPAddresses: []net.IP{net.ParseIP("127.0.0.1")}}
	der, err := x509.CreateCertificate(rand.Reader, tmpl, tmpl, &key.PublicKey, key)
	if err != nil {
		return tls.Certificate{}, err
	}
	return tls.Certificate{Certificate: [][]byte{der}, PrivateKey: key}, nil
}

func readOne(c net.Conn) ([]byte, error) {
	h := make([]byte, 20)
	if _, err := io.ReadFull(c, h); err != nil {
		return nil, err
	}
	hd, _ := refcodec.DecodeHeader(h)
	body := make([]byte, int(hd.Length)-20)
	if _, err := io.ReadFull(c, body); err != nil {
		return nil, err
	}
	return append(h, body...), nil
}

func runTLS(c TLSCase) *ev.Failure {
	cert, err := selfSigned()
	if err != nil {
		return ev.Failf("harness-tls", "%v", err)
	}
	ln, err := tls.Listen("tcp", "127.0.0.1:0", &tls.Config{Certificates: []tls.Certificate{cert}})
	if err != nil {
		tlsSkipped = append(tlsSkipped, err.Error()) // no loopback networking here: inconclusive, not a verdict
		return nil
	}
	defer ln.Close()
	base := Case{Host: "client.example", Realm: "example", Auth: []uint32{4}}
	peerErr := make(chan error, 1)
	release := make(chan struct{})
	go func() {
		pc, err := ln.Accept()
		if err != nil {
			peerErr <- err
			return
		}
		defer pc.Close()
		var cer []byte
		for k := 1; k <= c.AnswerCER; k++ {
			if cer, err = readOne(pc); err != nil {
				peerErr <- err
				return
			}
		}
		h, _ := refcodec.DecodeHeader(cer)
		pc.Write(base.cea(success, h.HopByHop, h.EndToEnd))
		time.Sleep(time.Duration(c.IdleMs) * time.Millisecond)
		pc.Write(appAnswerMsg(1))
		<-release
		peerErr <- nil
	}()
	defer close(release)
	machine := sm.New(&sm.Settings{OriginHost: datatype.DiameterIdentity(base.Host), OriginRealm: datatype.DiameterIdentity(base.Realm), VendorID: 13, ProductName: "verif",
		HostIPAddresses: []datatype.Address{datatype.Address(net.ParseIP("127.0.0.1"))}})
	got := make(chan struct{}, 4)
	machine.HandleFunc("RAA", func(diam.Conn, *diam.Message) { got <- struct{}{} })
	stop := make(chan struct{})
	defer close(stop)
	go func() {
		for {
			select {
			case <-machine.ErrorReports():
			case <-stop:
				return
			}
		}
	}()
	cli := &sm.Client{Handler: machine, MaxRetransmits: uint(c.MaxRetransmit), RetransmitInterval: time.Duration(c.IntervalMs) * time.Millisecond,
		AuthApplicationID: []*diam.AVP{diam.NewAVP(avp.AuthApplicationID, avp.Mbit, 0, datatype.Unsigned32(4))}}
	conn, err := cli.DialTLSTimeout(ln.Addr().String(), "", "", time.Duration(c.DialTimeoutMs)*time.Millisecond)
	if err != nil {
		return ev.Failf("tls:handshake-should-succeed", "DialTLSTimeout(%d ms): the peer answered transmission %d of at most %d with an acceptable CEA, the dial returned %v", c.DialTimeoutMs, c.AnswerCER, c.MaxRetransmit+1, err)
	}
	defer conn.Close()
	select {
	case <-got:
	case <-time.After(time.Duration(c.IdleMs)*time.Millisecond + 5*time.Second):
		return ev.Failf("tls:unstable-after-handshake", "TLS connection dialled with a %d ms dial timeout: an application answer sent %d ms after the handshake never reached its handler (the connection did not stay usable)", c.DialTimeoutMs, c.IdleMs)
	}
	return nil
}

var tlsSkipped []string

var tlsProp = ev.Register(&ev.Prop[TLSCase]{
	ID: "C12", Name: "tls-dial-timeout",
	Rule: "sm.Client.DialTLSTimeout over real TCP + TLS on 127.0.0.1 with a dial timeout shorter than (a) the idle period after the handshake, (b) the time until the peer answers a retransmitted CER; the dial must succeed and an application answer sent after the idle period must reach its handler; a handful of fixed cases, all non-trivial",
	Run:  runTLS,
})

func TestC12TLSDialTimeout(t *testing.T) {
	rec := tlsProp.Rec(t)
	t.Cleanup(func() {
		for _, s := range tlsSkipped {
			rec.Note("loopback TLS listener unavailable, case skipped: %s", s)
		}
	})
	tlsProp.Enumerate(t, false, func(yield func(TLSCase) bool) {
		for _, c := range []TLSCase{
			{DialTimeoutMs: 300, IdleMs: 700, AnswerCER: 1, IntervalMs: 2000, MaxRetransmit: 0},
			{DialTimeoutMs: 300, IdleMs: 50, AnswerCER: 3, IntervalMs: 250, MaxRetransmit: 3},
			{DialTimeoutMs: 0, IdleMs: 100, AnswerCER: 1, IntervalMs: 2000, MaxRetransmit: 0},
		} {
			if !yield(c) {
				return
			}
		}
	})
}
