package c12

import (
	"crypto/tls"
	"fmt"
	"net"
	"strings"
	"testing"
	"time"

	"github.com/fiorix/go-diameter/v4/diam"
	"github.com/fiorix/go-diameter/v4/diam/avp"
	"github.com/fiorix/go-diameter/v4/diam/datatype"
	"github.com/fiorix/go-diameter/v4/diam/sm"

	"verif/internal/ev"
	"verif/internal/refcodec"
)

// "A client dial sends a CER carrying the configured identity, HOST ADDRESSES ..." through the dial
// entry points that take a LOCAL address to bind to (sm.Client.DialExt, DialNetworkBind,
// DialTLSExt). Settings.HostIPAddresses: "when not set local host IP address is used" - the address
// the connection really uses, which is not the address it was asked to bind to when that one is a
// wildcard (0.0.0.0:0), or only pins the source port (&net.TCPAddr{Port: p}, ":p"). Real TCP (and
// TLS) on 127.0.0.1 with kernel-chosen ports; a scripted peer reads the CER, notes where the
// connection came from (its RemoteAddr: the client's real local endpoint) and answers a success
// CEA. Demanded: the dial succeeds and the CER's Host-IP-Address AVPs are the configured ones, or,
// with none configured, the ones derived from the endpoint the peer sees. No timing assertion.

type BoundCase struct {
	Entry      string   `json:"entry"` // DialExt | DialNetworkBind | DialTLSExt
	Network    string   `json:"network"`
	Bind       string   `json:"bind"` // none | wildcard | port-only | wildcard-port | loopback | loopback-port
	Configured [][]byte `json:"configured,omitempty"`
	TimeoutMs  int      `json:"timeout_ms,omitempty"` // dial timeout (DialExt / DialTLSExt)
}

var boundSkipped []string

// boundFreePort asks the kernel for a TCP port on the loopback that is free right now.
func boundFreePort() (int, error) {
	l, err := net.Listen("tcp", "127.0.0.1:0")
	if err != nil {
		return 0, err
	}
	p := l.Addr().(*net.TCPAddr).Port
	l.Close()
	return p, nil
}

// boundLocal renders the bind address of one attempt: as net.Addr (nil interface for none) and as
// the string DialNetworkBind takes.
func boundLocal(bind string) (net.Addr, string, error) {
	port := 0
	if strings.HasSuffix(bind, "port") || bind == "port-only" {
		p, err := boundFreePort()
		if err != nil {
			return nil, "", err
		}
		port = p
	}
	switch bind {
	case "none":
		return nil, "", nil
	case "wildcard", "wildcard-port":
		return &net.TCPAddr{IP: net.IPv4zero, Port: port}, fmt.Sprintf("0.0.0.0:%d", port), nil
	case "port-only":
		return &net.TCPAddr{Port: port}, fmt.Sprintf(":%d", port), nil
	case "loopback", "loopback-port":
		return &net.TCPAddr{IP: net.IPv4(127, 0, 0, 1), Port: port}, fmt.Sprintf("127.0.0.1:%d", port), nil
	}
	return nil, "", fmt.Errorf("unknown bind %q", bind)
}

type boundSeen struct {
	cer  []byte
	from string
	err  error
}

func runBound(c BoundCase) *ev.Failure {
	var ln net.Listener
	var err error
	if c.Entry == "DialTLSExt" {
		cert, cerr := selfSigned()
		if cerr != nil {
			return ev.Failf("harness-tls", "%v", cerr)
		}
		ln, err = tls.Listen("tcp", "127.0.0.1:0", &tls.Config{Certificates: []tls.Certificate{cert}})
	} else {
		ln, err = net.Listen("tcp", "127.0.0.1:0")
	}
	if err != nil {
		boundSkipped = append(boundSkipped, err.Error()) // no loopback networking here: inconclusive, not a verdict
		return nil
	}
	defer ln.Close()
	base := Case{Host: "client.example", Realm: "example", Auth: []uint32{4}, ConfiguredIPs: c.Configured}
	seen := make(chan boundSeen, 8)
	release := make(chan struct{})
	defer close(release)
	go func() {
		for {
			pc, err := ln.Accept()
			if err != nil {
				return
			}
			go func() {
				defer pc.Close()
				cer, err := readOne(pc)
				if err != nil {
					seen <- boundSeen{err: err}
					return
				}
				h, _ := refcodec.DecodeHeader(cer)
				seen <- boundSeen{cer: cer, from: pc.RemoteAddr().String()}
				pc.Write(base.cea(success, h.HopByHop, h.EndToEnd))
				<-release
			}()
		}
	}()
	settings := &sm.Settings{OriginHost: datatype.DiameterIdentity(base.Host), OriginRealm: datatype.DiameterIdentity(base.Realm), VendorID: 13, ProductName: "verif"}
	for _, ip := range c.Configured {
		settings.HostIPAddresses = append(settings.HostIPAddresses, datatype.Address(net.IP(ip)))
	}
	machine := sm.New(settings)
	stop := make(chan struct{})
	defer close(stop)
	go func() {
		for {
			select {
			case <-machine.ErrorReports():
			case <-stop:
				return
			}
		}
	}()
	cli := &sm.Client{Handler: machine, MaxRetransmits: 0, RetransmitInterval: 10 * time.Second,
		AuthApplicationID: []*diam.AVP{diam.NewAVP(avp.AuthApplicationID, avp.Mbit, 0, datatype.Unsigned32(4))}}
	timeout := time.Duration(c.TimeoutMs) * time.Millisecond

	var conn diam.Conn
	var how string
	for attempt := 0; ; attempt++ {
		laddr, lstr, err := boundLocal(c.Bind)
		if err != nil {
			boundSkipped = append(boundSkipped, err.Error())
			return nil
		}
		switch c.Entry {
		case "DialExt":
			how = fmt.Sprintf("DialExt(%q, peer, %v, %s)", c.Network, timeout, showLocal(laddr))
			conn, err = cli.DialExt(c.Network, ln.Addr().String(), timeout, laddr)
		case "DialTLSExt":
			how = fmt.Sprintf("DialTLSExt(%q, peer, \"\", \"\", %v, %s)", c.Network, timeout, showLocal(laddr))
			conn, err = cli.DialTLSExt(c.Network, ln.Addr().String(), "", "", timeout, laddr)
		case "DialNetworkBind":
			how = fmt.Sprintf("DialNetworkBind(%q, %q, peer)", c.Network, lstr)
			conn, err = cli.DialNetworkBind(c.Network, lstr, ln.Addr().String())
		default:
			return ev.Failf("harness-case", "unknown entry point %q", c.Entry)
		}
		if err == nil {
			break
		}
		// the source port chosen a moment ago was taken by another process: not the library's doing
		if s := err.Error(); strings.Contains(s, "address already in use") || strings.Contains(s, "cannot assign requested address") {
			if attempt < 4 {
				continue
			}
			boundSkipped = append(boundSkipped, how+": "+s)
			return nil
		}
		// the peer saw a CER and answered it with an acceptable CEA, or saw none at all
		select {
		case s := <-seen:
			if s.err == nil {
				if f := (Case{Host: base.Host, Realm: base.Realm, Auth: base.Auth, ConfiguredIPs: c.Configured, LocalAddr: s.from}).checkCER(s.cer); f != nil {
					return ev.Failf("bound:"+f.Sig, "%s to a peer on 127.0.0.1 (the connection came from %s, %d host addresses configured): %s; and the dial returned %v", how, s.from, len(c.Configured), f.Detail, err)
				}
			}
		default:
		}
		return ev.Failf("bound:handshake-should-succeed", "%s to a peer on 127.0.0.1 that answers the first CER with an acceptable CEA: the dial returned %v", how, err)
	}
	defer conn.Close()
	var s boundSeen
	select {
	case s = <-seen:
	case <-time.After(10 * time.Second):
		return ev.Failf("bound:no-cer", "%s returned a connection, the peer has not read a CER", how)
	}
	if s.err != nil {
		return ev.Failf("bound:no-cer", "%s: the peer could not read a CER: %v", how, s.err)
	}
	want := Case{Host: base.Host, Realm: base.Realm, Auth: base.Auth, ConfiguredIPs: c.Configured, LocalAddr: s.from}
	if f := want.checkCER(s.cer); f != nil {
		return ev.Failf("bound:"+f.Sig, "%s to a peer on 127.0.0.1; the peer sees the connection coming from %s (the client's real local endpoint), %d host addresses configured: %s", how, s.from, len(c.Configured), f.Detail)
	}
	return nil
}

func showLocal(a net.Addr) string {
	if a == nil {
		return "nil"
	}
	if t, ok := a.(*net.TCPAddr); ok && t.IP == nil {
		return fmt.Sprintf("&net.TCPAddr{Port: %d}", t.Port)
	}
	return fmt.Sprintf("%s", a)
}

var boundProp = ev.Register(&ev.Prop[BoundCase]{
	ID: "C12", Name: "bound-dial-host-addresses",
	Rule: "real TCP / TLS on 127.0.0.1 (kernel-chosen ports), a scripted peer that reads the CER, notes the connection's RemoteAddr and answers a success CEA; dials through sm.Client.DialExt (network tcp / tcp4, dial timeout 0 or 5 s), DialNetworkBind and DialTLSExt with the local address none / wildcard 0.0.0.0:0 / port only (&net.TCPAddr{Port: p}, \":p\") / wildcard with a port / 127.0.0.1:0 / 127.0.0.1:p, with no, one or two configured HostIPAddresses; demanded: the dial succeeds and the CER carries the configured identity, the advertised application and as Host-IP-Address the configured addresses or, with none configured, the address derived from the endpoint the peer sees the connection coming from (127.0.0.1), never the bind address. a source port that another process took in the meantime is retried, then skipped. non-trivial = no configured address and a bind address that is not the connection's address (wildcard or port only)",
	Run:  runBound,
	Classify: func(c BoundCase) (bool, []string) {
		cl := []string{"entry:" + c.Entry, "bind:" + c.Bind, fmt.Sprintf("configured:%d", len(c.Configured)), "network:" + c.Network}
		nt := len(c.Configured) == 0 && (c.Bind == "wildcard" || c.Bind == "port-only" || c.Bind == "wildcard-port")
		return nt, cl
	},
})

func TestC12BoundDialHostAddresses(t *testing.T) {
	rec := boundProp.Rec(t)
	t.Cleanup(func() {
		for _, s := range boundSkipped {
			rec.Note("loopback networking unavailable or source port taken, case skipped: %s", s)
		}
	})
	one := [][]byte{{192, 0, 2, 1}}
	two := [][]byte{{192, 0, 2, 1}, {0x20, 0x01, 0x0d, 0xb8, 0, 0, 0, 0, 0, 0, 0, 0, 0, 0, 0, 2}}
	boundProp.Enumerate(t, false, func(yield func(BoundCase) bool) {
		k := 0
		for _, e := range []struct {
			entry string
			binds []string
		}{
			{"DialExt", []string{"none", "wildcard", "port-only", "wildcard-port", "loopback", "loopback-port"}},
			{"DialNetworkBind", []string{"none", "wildcard", "port-only", "wildcard-port", "loopback"}},
			{"DialTLSExt", []string{"none", "wildcard", "port-only", "loopback"}},
		} {
			for bi, b := range e.binds {
				for _, conf := range [][][]byte{nil, one, two} {
					if conf != nil && len(conf) == 2 && e.entry != "DialExt" {
						continue
					}
					k++
					c := BoundCase{Entry: e.entry, Network: "tcp", Bind: b, Configured: conf}
					if bi%2 == 1 {
						c.Network = "tcp4"
					}
					if e.entry != "DialNetworkBind" && k%2 == 0 {
						c.TimeoutMs = 5000
					}
					if !yield(c) {
						return
					}
				}
			}
		}
	})
}
