package c12

import (
	"fmt"
	"sync"
	"testing"
	"time"

	"github.com/fiorix/go-diameter/v4/diam"
	"github.com/fiorix/go-diameter/v4/diam/avp"
	"github.com/fiorix/go-diameter/v4/diam/datatype"
	"github.com/fiorix/go-diameter/v4/diam/sm"

	"verif/internal/ev"
	"verif/internal/memnet"
	"verif/internal/refcodec"
)

// "After a successful handshake the connection stays open and answers are dispatched whatever
// further or duplicate CEAs the peer sends" - with TWO connections dialled through one Client /
// state machine (a primary and a secondary peer) that are both up: the extra CEA arrives on the
// EARLIER of the two.

type TwoDialsCase struct {
	Extra  string `json:"extra"`   // dup-success-cea | late-failing-cea | malformed-cea
	OnConn int    `json:"on_conn"` // which connection (0 = the one dialled first) receives it
	Times  int    `json:"times"`
}

func runTwoDials(c TwoDialsCase) *ev.Failure {
	base := Case{Host: "client.example", Realm: "example", Auth: []uint32{4}}
	machine := sm.New(&sm.Settings{OriginHost: datatype.DiameterIdentity(base.Host), OriginRealm: datatype.DiameterIdentity(base.Realm), VendorID: 13, ProductName: "verif",
		HostIPAddresses: []datatype.Address{datatype.Address([]byte{10, 0, 0, 9})}})
	var mu sync.Mutex
	got := map[string]int{}
	machine.HandleFunc("RAA", func(cn diam.Conn, m *diam.Message) {
		mu.Lock()
		got[cn.RemoteAddr().String()]++
		mu.Unlock()
	})
	stop := make(chan struct{})
	defer close(stop)
	go func() {
		for {
			select {
			case <-machine.ErrorReports():
			case <-stop:
				return
			}
		}
	}()
	cli := &sm.Client{Handler: machine, RetransmitInterval: 2 * time.Second,
		AuthApplicationID: []*diam.AVP{diam.NewAVP(avp.AuthApplicationID, avp.Mbit, 0, datatype.Unsigned32(4))}}
	conns := []*memnet.Conn{memnet.NewConn(), memnet.NewConn()}
	defer func() {
		for _, mc := range conns {
			mc.FeedEOF()
			mc.WaitClosed(2 * time.Second)
			mc.Close()
		}
	}()
	for i, mc := range conns {
		mc := mc
		mc.Remote = memnet.Addr{Net: "tcp", Str: fmt.Sprintf("10.0.%d.1:3868", i+1)}
		mc.WriteHook = func(b []byte, accept func([]byte)) (int, error) {
			accept(b)
			if h, err := refcodec.DecodeHeader(b); err == nil && h.Code == 257 && h.Flags&0x80 != 0 {
				mc.Feed(base.cea(success, h.HopByHop, h.EndToEnd))
				mc.WaitParked(2 * time.Second)
			}
			return len(b), nil
		}
		if _, err := cli.NewConn(mc, "peer"); err != nil {
			return ev.Failf("twodials:handshake-should-succeed", "dial %d on the shared state machine: the peer answered with an acceptable CEA, NewConn returned %v", i, err)
		}
	}
	target := conns[c.OnConn]
	for k := 0; k < c.Times; k++ {
		target.Feed(base.cea(c.Extra, 0x1111, 0x2222))
		target.WaitParked(2 * time.Second)
	}
	for i, mc := range conns {
		if closed, _ := mc.Closed(); closed {
			return ev.Failf("twodials:unstable-after-handshake", "two connections of one client state machine were up; connection %d received %d x %s; connection %d was closed by the client", c.OnConn, c.Times, c.Extra, i)
		}
		mc.Feed(appAnswerFor(50+i, 4))
		mc.WaitParked(2 * time.Second)
	}
	time.Sleep(20 * time.Millisecond)
	mu.Lock()
	defer mu.Unlock()
	for i, mc := range conns {
		if closed, _ := mc.Closed(); closed {
			return ev.Failf("twodials:unstable-after-handshake", "connection %d was closed by the client after connection %d received %d x %s", i, c.OnConn, c.Times, c.Extra)
		}
		if got[mc.Remote.String()] != 1 {
			return ev.Failf("twodials:unstable-after-handshake", "after connection %d received %d x %s, the answer sent on connection %d reached its handler %d times (want 1)", c.OnConn, c.Times, c.Extra, i, got[mc.Remote.String()])
		}
	}
	return nil
}

var twoDialsProp = ev.Register(&ev.Prop[TwoDialsCase]{
	ID: "C12", Name: "two-connections-extra-cea",
	Rule: "one Client / state machine, two in-memory connections dialled one after the other and both up; then the earlier or the later one receives 1..2 extra CEAs (duplicate success, late failure, malformed); demanded: both connections stay open and an application answer sent afterwards on each reaches its handler once. non-trivial = the extra CEA arrives on the connection dialled first",
	Run:  runTwoDials,
	Classify: func(c TwoDialsCase) (bool, []string) {
		return c.OnConn == 0, []string{"extra:" + c.Extra, fmt.Sprintf("on-conn:%d", c.OnConn)}
	},
})

func TestC12TwoConnectionsExtraCEA(t *testing.T) {
	twoDialsProp.Enumerate(t, true, func(yield func(TwoDialsCase) bool) {
		for _, x := range []string{dupSuccess, lateFailure, malformed} {
			for on := 0; on < 2; on++ {
				for times := 1; times <= 2; times++ {
					if !yield(TwoDialsCase{Extra: x, OnConn: on, Times: times}) {
						return
					}
				}
			}
		}
	})
}
