// C12 - Client handshake: bounded retransmission, definite outcome, stable afterwards.
package c12

import (
	"bytes"
	"fmt"
	"io"
	"log"
	"net"
	"strings"
	"sync"
	"testing"
	"time"

	"github.com/fiorix/go-diameter/v4/diam"
	"github.com/fiorix/go-diameter/v4/diam/avp"
	"github.com/fiorix/go-diameter/v4/diam/datatype"
	"github.com/fiorix/go-diameter/v4/diam/sm"
	"pgregory.net/rapid"

	"verif/internal/ev"
	"verif/internal/memnet"
	"verif/internal/refcodec"
)

func init() { log.SetOutput(io.Discard) }

// What the peer does when it has received the k-th transmission of the CER.
const (
	silence        = "silence"
	success        = "success"             // Result-Code 2001, shares an advertised application
	successPlus    = "success-plus"        // same, plus an application the client does not know
	successRelay   = "success-relay"       // 2001, the peer is a relay: it advertises the relay application id (0xffffffff) only
	failCode       = "fail-code"           // a failing Result-Code
	noResultCode   = "no-result-code"      // malformed: Result-Code missing
	noOriginHost   = "no-origin-host"      // malformed: Origin-Host missing
	successNoApp   = "success-no-app"      // 2001 but no application at all
	successUnknApp = "success-unknown-app" // 2001 but only applications the client does not support
	disconnect     = "disconnect"
	// the peer reacts with messages that are not a CEA (a success DWA carrying the CER's identifiers,
	// an application answer): no reply to the CER, the client goes on as after silence
	notCEA = "not-a-cea"
	// 2001, applications only inside Vendor-Specific-Application-Id groups (Vendor-Id first, the
	// RFC layout) that name an application the client does not know / no application at all
	successVSAUnknown = "success-vsa-unknown-app"
	successVSAVendor  = "success-vsa-vendor-only"
	// 2001 and a shared application, delivered DelayPct % of the RetransmitInterval AFTER the
	// transmission it answers (every other reaction is delivered inside the transport's Write)
	successLate = "success-late"
	// 2001 with the application list Case.CEAApps: plain Auth-/Acct-Application-Id AVPs and
	// Vendor-Specific-Application-Id groups in any order, each naming an application the client
	// advertised (in either form), the relay id, or an id that no dictionary declares
	successMix = "success-mix"
)

// CEAApp is one application entry of a success-mix CEA.
type CEAApp struct {
	Typ        string `json:"typ"` // auth | acct
	ID         uint32 `json:"id"`
	VSA        bool   `json:"vsa,omitempty"`         // inside a Vendor-Specific-Application-Id group (vendor 10415)
	VendorLast bool   `json:"vendor_last,omitempty"` // the group lists the application before its Vendor-Id
}

// ids that neither dict.Default nor any embedded dictionary declares
var unknownApps = []CEAApp{{Typ: "auth", ID: 999}, {Typ: "acct", ID: 998}, {Typ: "auth", ID: 999999}, {Typ: "acct", ID: 7777}, {Typ: "auth", ID: 7778}}

// Extras the peer sends after a completed handshake.
const (
	dupSuccess  = "dup-success-cea"
	lateFailure = "late-failing-cea"
	malformed   = "malformed-cea"
	appAnswer   = "app-answer"
)

type Case struct {
	MaxRetransmits int      `json:"max_retransmits"`
	IntervalMs     int      `json:"interval_ms"`
	Host           string   `json:"host"`
	Realm          string   `json:"realm"`
	ConfiguredIPs  [][]byte `json:"configured_ips,omitempty"` // raw IPv4/IPv6 bytes; empty: derive from the local endpoint
	LocalAddr      string   `json:"local_addr"`
	Auth           []uint32 `json:"auth,omitempty"`
	Acct           []uint32 `json:"acct,omitempty"`
	VSAuth         bool     `json:"vs_auth,omitempty"` // advertise S6a (16777251, vendor 10415) as Vendor-Specific-Application-Id
	StateID        uint32   `json:"state_id,omitempty"`
	Firmware       uint32   `json:"firmware,omitempty"`
	// SharedBacking: the three application lists handed to the Client are sub-slices of one array.
	SharedBacking bool `json:"shared_backing,omitempty"`
	Layout        int  `json:"layout,omitempty"` // order of the lists in that array
	// Literal: the application builds the AVPs it hands to the client as struct literals
	// (&diam.AVP{Code, Flags, Data}; no constructor ran, the Length field is zero) - what Marshal does too.
	Literal bool     `json:"literal,omitempty"`
	Script  []string `json:"script"` // reaction to transmission 1, 2, ... (missing entries: silence)
	Extras  []string `json:"extras,omitempty"`
	// Client options that the handshake clauses do not mention: the retransmission budget, the
	// spacing and the outcome are the same whatever they are.
	Watchdog         bool     `json:"watchdog,omitempty"`          // Client.EnableWatchdog (the scripted peer answers every DWR with a success DWA)
	WatchdogMs       int      `json:"watchdog_ms,omitempty"`       // Client.WatchdogInterval, smaller or larger than the RetransmitInterval; 0: left unset
	SupportedVendors []uint32 `json:"supported_vendors,omitempty"` // Client.SupportedVendorID
	DelayPct         int      `json:"delay_pct,omitempty"`         // success-late: delay of the CEA in % of the RetransmitInterval
	CEAApps          []CEAApp `json:"cea_apps,omitempty"`          // success-mix: the application entries of the CEA, in wire order
}

// advertised: the applications the client was told to advertise, as (type, id).
func (c Case) advertised() []CEAApp {
	var out []CEAApp
	for _, id := range c.Auth {
		out = append(out, CEAApp{Typ: "auth", ID: id})
	}
	for _, id := range c.Acct {
		out = append(out, CEAApp{Typ: "acct", ID: id})
	}
	if c.VSAuth {
		out = append(out, CEAApp{Typ: "auth", ID: 16777251})
	}
	return out
}

// shares: the entry names an application the client advertised (same id, same type, whichever
// of the two forms carries it) or the relay application id.
func (c Case) shares(e CEAApp) bool {
	if e.ID == 0xffffffff {
		return true
	}
	for _, a := range c.advertised() {
		if a.Typ == e.Typ && a.ID == e.ID {
			return true
		}
	}
	return false
}

func (c Case) mixShares() bool {
	for _, e := range c.CEAApps {
		if c.shares(e) {
			return true
		}
	}
	return false
}

func (e CEAApp) node() *refcodec.Node {
	code := uint32(258)
	if e.Typ == "acct" {
		code = 259
	}
	app := &refcodec.Node{Code: code, Flags: 0x40, Payload: refcodec.U32(e.ID)}
	if !e.VSA {
		return app
	}
	vendor := &refcodec.Node{Code: 266, Flags: 0x40, Payload: refcodec.U32(10415)}
	g := &refcodec.Node{Code: 260, Flags: 0x40, Group: true, Children: []*refcodec.Node{vendor, app}}
	if e.VendorLast {
		g.Children = []*refcodec.Node{app, vendor}
	}
	return g
}

func (c Case) interval() time.Duration { return time.Duration(c.IntervalMs) * time.Millisecond }

func terminal(a string) bool { return a != silence && a != notCEA }

// reaction: what the peer does at the k-th transmission (1-based).
func (c Case) reaction(k int) string {
	if k >= 1 && k-1 < len(c.Script) {
		return c.Script[k-1]
	}
	return silence
}

// expected outcome from the script: index (1-based) of the deciding transmission, success?
func (c Case) expect() (k int, ok bool) {
	for i := 0; i < c.MaxRetransmits+1; i++ {
		a := silence
		if i < len(c.Script) {
			a = c.Script[i]
		}
		if terminal(a) {
			return i + 1, a == success || a == successPlus || a == successRelay || a == successLate || (a == successMix && c.mixShares())
		}
	}
	return c.MaxRetransmits + 1, false
}

func (c Case) firstApp() uint32 {
	switch {
	case len(c.Auth) > 0:
		return c.Auth[0]
	case len(c.Acct) > 0:
		return c.Acct[0]
	}
	return 16777251
}

// answerApp: the application of the answers that follow the handshake - the first advertised
// one; after a success-mix CEA the first application that the CEA shares with the client.
func (c Case) answerApp() uint32 {
	if k, ok := c.expect(); ok && k-1 < len(c.Script) && c.Script[k-1] == successMix {
		for _, e := range c.CEAApps {
			if c.shares(e) && e.ID != 0xffffffff {
				return e.ID
			}
		}
	}
	return c.firstApp()
}

func (c Case) sharedApp() *refcodec.Node {
	switch {
	case len(c.Auth) > 0:
		return &refcodec.Node{Code: 258, Flags: 0x40, Payload: refcodec.U32(c.Auth[0])}
	case len(c.Acct) > 0:
		return &refcodec.Node{Code: 259, Flags: 0x40, Payload: refcodec.U32(c.Acct[0])}
	default:
		return &refcodec.Node{Code: 260, Flags: 0x40, Group: true, Children: []*refcodec.Node{
			{Code: 266, Flags: 0x40, Payload: refcodec.U32(10415)}, {Code: 258, Flags: 0x40, Payload: refcodec.U32(16777251)}}}
	}
}

func (c Case) cea(kind string, hbh, e2e uint32) []byte {
	rc := &refcodec.Node{Code: 268, Flags: 0x40, Payload: refcodec.U32(2001)}
	oh := &refcodec.Node{Code: 264, Flags: 0x40, Payload: []byte("srv.example")}
	or := &refcodec.Node{Code: 296, Flags: 0x40, Payload: []byte("example")}
	rest := []*refcodec.Node{{Code: 257, Flags: 0x40, Payload: refcodec.Address(1, []byte{10, 9, 8, 7})},
		{Code: 266, Flags: 0x40, Payload: refcodec.U32(99)}, {Code: 269, Payload: []byte("peer")}}
	var nodes []*refcodec.Node
	flags := uint8(0)
	switch kind {
	case success, dupSuccess, successLate:
		nodes = append([]*refcodec.Node{rc, oh, or}, append(rest, c.sharedApp())...)
	case successMix:
		nodes = append([]*refcodec.Node{rc, oh, or}, rest...)
		for _, e := range c.CEAApps {
			nodes = append(nodes, e.node())
		}
	case successRelay:
		nodes = append([]*refcodec.Node{rc, oh, or}, append(rest, &refcodec.Node{Code: 258, Flags: 0x40, Payload: refcodec.U32(0xffffffff)})...)
	case successPlus:
		nodes = append([]*refcodec.Node{rc, oh, or}, append(rest, &refcodec.Node{Code: 258, Flags: 0x40, Payload: refcodec.U32(999)}, c.sharedApp())...)
	case failCode, lateFailure:
		rc.Payload = refcodec.U32(5010)
		flags = 0x20
		nodes = append([]*refcodec.Node{rc, oh, or}, rest...)
	case noResultCode:
		nodes = append([]*refcodec.Node{oh, or}, append(rest, c.sharedApp())...)
	case noOriginHost, malformed:
		nodes = append([]*refcodec.Node{rc, or}, append(rest, c.sharedApp())...)
	case successNoApp:
		nodes = append([]*refcodec.Node{rc, oh, or}, rest...)
	case successVSAUnknown:
		nodes = append([]*refcodec.Node{rc, oh, or}, append(rest, &refcodec.Node{Code: 260, Flags: 0x40, Group: true, Children: []*refcodec.Node{
			{Code: 266, Flags: 0x40, Payload: refcodec.U32(10415)}, {Code: 258, Flags: 0x40, Payload: refcodec.U32(999999)}}})...)
	case successVSAVendor:
		nodes = append([]*refcodec.Node{rc, oh, or}, append(rest, &refcodec.Node{Code: 260, Flags: 0x40, Group: true, Children: []*refcodec.Node{
			{Code: 266, Flags: 0x40, Payload: refcodec.U32(10415)}}})...)
	case successUnknApp:
		nodes = append([]*refcodec.Node{rc, oh, or}, append(rest, &refcodec.Node{Code: 258, Flags: 0x40, Payload: refcodec.U32(999)},
			&refcodec.Node{Code: 259, Flags: 0x40, Payload: refcodec.U32(998)})...)
	}
	return refcodec.EncodeMessage(refcodec.Header{Version: 1, Flags: flags, Code: 257, App: 0, HopByHop: hbh, EndToEnd: e2e}, nodes, false)
}

// an answer of an application command (Re-Auth-Answer, base dictionary)
func appAnswerMsg(seq int) []byte { return appAnswerFor(seq, 0) }

// appAnswerFor: a Re-Auth-Answer in the given application (the command is the base one in every application).
func appAnswerFor(seq int, app uint32) []byte {
	return refcodec.EncodeMessage(refcodec.Header{Version: 1, Flags: 0, Code: 258, App: app, HopByHop: uint32(7000 + seq), EndToEnd: 1},
		[]*refcodec.Node{{Code: 263, Flags: 0x40, Payload: []byte("s")}, {Code: 268, Flags: 0x40, Payload: refcodec.U32(2001)}}, false)
}

type result struct {
	fail   *ev.Failure
	timing bool // the mismatch could be explained by a scheduling delay: confirm by re-running
}

func runOnce(c Case) result {
	mc := memnet.NewConn()
	mc.Local = memnet.Addr{Net: "tcp", Str: c.LocalAddr}
	settings := &sm.Settings{OriginHost: datatype.DiameterIdentity(c.Host), OriginRealm: datatype.DiameterIdentity(c.Realm),
		VendorID: 13, ProductName: "verif", OriginStateID: datatype.Unsigned32(c.StateID), FirmwareRevision: datatype.Unsigned32(c.Firmware)}
	for _, ip := range c.ConfiguredIPs {
		settings.HostIPAddresses = append(settings.HostIPAddresses, datatype.Address(ip))
	}
	machine := sm.New(settings)
	var mu sync.Mutex
	var answers []uint32
	got := make(chan struct{}, 64)
	machine.HandleFunc("RAA", func(_ diam.Conn, m *diam.Message) {
		mu.Lock()
		answers = append(answers, m.Header.HopByHopID)
		mu.Unlock()
		got <- struct{}{}
	})
	stop := make(chan struct{})
	defer close(stop)
	go func() {
		for {
			select {
			case <-machine.ErrorReports():
			case <-stop:
				return
			}
		}
	}()
	cli := &sm.Client{Handler: machine, MaxRetransmits: uint(c.MaxRetransmits), RetransmitInterval: c.interval(),
		EnableWatchdog: c.Watchdog, WatchdogInterval: time.Duration(c.WatchdogMs) * time.Millisecond}
	for _, v := range c.SupportedVendors {
		cli.SupportedVendorID = append(cli.SupportedVendorID, diam.NewAVP(avp.SupportedVendorID, avp.Mbit, 0, datatype.Unsigned32(v)))
	}
	for _, id := range c.Auth {
		cli.AuthApplicationID = append(cli.AuthApplicationID, diam.NewAVP(avp.AuthApplicationID, avp.Mbit, 0, datatype.Unsigned32(id)))
	}
	for _, id := range c.Acct {
		cli.AcctApplicationID = append(cli.AcctApplicationID, diam.NewAVP(avp.AcctApplicationID, avp.Mbit, 0, datatype.Unsigned32(id)))
	}
	if c.VSAuth {
		cli.VendorSpecificApplicationID = append(cli.VendorSpecificApplicationID, diam.NewAVP(avp.VendorSpecificApplicationID, avp.Mbit, 0, &diam.GroupedAVP{AVP: []*diam.AVP{
			diam.NewAVP(avp.VendorID, avp.Mbit, 0, datatype.Unsigned32(10415)), diam.NewAVP(avp.AuthApplicationID, avp.Mbit, 0, datatype.Unsigned32(16777251))}}))
	}
	if c.Literal {
		var lit func(a *diam.AVP) *diam.AVP
		lit = func(a *diam.AVP) *diam.AVP {
			n := &diam.AVP{Code: a.Code, Flags: a.Flags, VendorID: a.VendorID, Data: a.Data}
			if g, ok := a.Data.(*diam.GroupedAVP); ok {
				ng := &diam.GroupedAVP{}
				for _, x := range g.AVP {
					ng.AVP = append(ng.AVP, lit(x))
				}
				n.Data = ng
			}
			return n
		}
		for _, l := range [][]*diam.AVP{cli.AuthApplicationID, cli.AcctApplicationID, cli.VendorSpecificApplicationID} {
			for i := range l {
				l[i] = lit(l[i])
			}
		}
	}
	if c.SharedBacking {
		// the application cut its three lists out of ONE array (in one of the six orders, with room
		// to spare behind them): a client that appends to a list it was given writes into its neighbours
		lists := [3][]*diam.AVP{cli.AcctApplicationID, cli.AuthApplicationID, cli.VendorSpecificApplicationID}
		order := [6][3]int{{0, 1, 2}, {0, 2, 1}, {1, 0, 2}, {1, 2, 0}, {2, 0, 1}, {2, 1, 0}}[c.Layout%6]
		all := make([]*diam.AVP, 0, len(lists[0])+len(lists[1])+len(lists[2])+4)
		var cut [3][]*diam.AVP
		for _, k := range order {
			from := len(all)
			all = append(all, lists[k]...)
			cut[k] = all[from:len(all)]
		}
		cli.AcctApplicationID, cli.AuthApplicationID, cli.VendorSpecificApplicationID = cut[0], cut[1], cut[2]
	}
	// the scripted peer reacts inside the transport's Write, i.e. before the client starts waiting
	var tx int
	mc.WriteHook = func(b []byte, accept func([]byte)) (int, error) {
		accept(b)
		h, err := refcodec.DecodeHeader(b)
		if err == nil && h.Code == 280 && h.Flags&0x80 != 0 {
			// a watchdog request of a client dialled with EnableWatchdog (after the handshake):
			// answered at once with a success DWA, it is no transmission of the CER
			mc.Feed(refcodec.EncodeMessage(refcodec.Header{Version: 1, Code: 280, HopByHop: h.HopByHop, EndToEnd: h.EndToEnd},
				[]*refcodec.Node{{Code: 268, Flags: 0x40, Payload: refcodec.U32(2001)}, {Code: 264, Flags: 0x40, Payload: []byte("srv.example")},
					{Code: 296, Flags: 0x40, Payload: []byte("example")}}, false))
			return len(b), nil
		}
		tx++
		a := silence
		if tx-1 < len(c.Script) {
			a = c.Script[tx-1]
		}
		if err != nil {
			return len(b), nil
		}
		switch a {
		case silence:
		case successLate:
			msg := c.cea(a, h.HopByHop, h.EndToEnd)
			time.AfterFunc(c.interval()*time.Duration(c.DelayPct)/100, func() { mc.Feed(msg) })
		case notCEA:
			mc.Feed(refcodec.EncodeMessage(refcodec.Header{Version: 1, Code: 280, HopByHop: h.HopByHop, EndToEnd: h.EndToEnd},
				[]*refcodec.Node{{Code: 268, Flags: 0x40, Payload: refcodec.U32(2001)}, {Code: 264, Flags: 0x40, Payload: []byte("srv.example")},
					{Code: 296, Flags: 0x40, Payload: []byte("example")}}, false))
			mc.Feed(appAnswerMsg(900 + tx))
		case disconnect:
			mc.FeedEOF()
		default:
			mc.Feed(c.cea(a, h.HopByHop, h.EndToEnd))
		}
		return len(b), nil
	}
	type res struct {
		c   diam.Conn
		err error
	}
	done := make(chan res, 1)
	start := time.Now()
	go func() { cc, err := cli.NewConn(mc, "peer"); done <- res{cc, err} }()
	var r res
	select {
	case r = <-done:
	case <-time.After(10 * time.Second):
		mc.Close()
		return result{fail: ev.Failf("dial-never-returns", "NewConn did not return within 10 s (budget %d transmissions x %v)", c.MaxRetransmits+1, c.interval())}
	}
	returned := time.Now()
	elapsed := returned.Sub(start)
	defer func() { mc.Close() }()

	// the transmissions of the CER (a client with the watchdog enabled may already have sent a DWR)
	var writes []memnet.WriteRec
	for _, w := range mc.Writes() {
		if h, err := refcodec.DecodeHeader(w.Data); err == nil && h.Code == 280 {
			continue
		}
		writes = append(writes, w)
	}
	wantK, wantOK := c.expect()
	// --- transmissions: identical bytes, bounded count, spacing
	if len(writes) == 0 {
		return result{fail: ev.Failf("no-cer", "no CER was sent (NewConn returned %v)", r.err)}
	}
	if len(writes) > c.MaxRetransmits+1 {
		return result{fail: ev.Failf("too-many-transmissions", "%d transmissions of the CER, MaxRetransmits is %d", len(writes), c.MaxRetransmits)}
	}
	for i := 1; i < len(writes); i++ {
		if !bytes.Equal(writes[i].Data, writes[0].Data) {
			return result{fail: ev.Failf("retransmission-differs", "transmission %d of the CER differs from the first one:\n first % x\n this  % x", i+1, writes[0].Data, writes[i].Data)}
		}
		if gap := writes[i].Start.Sub(writes[i-1].End); gap < c.interval() {
			return result{fail: ev.Failf("retransmitted-too-early", "transmission %d started %v after transmission %d had been written, RetransmitInterval is %v", i+1, gap, i, c.interval())}
		}
	}
	if f := c.checkCER(writes[0].Data); f != nil {
		return result{fail: f}
	}
	// --- outcome
	if wantOK {
		if r.err != nil || r.c == nil {
			if c.reaction(wantK) == successLate && len(writes) <= wantK {
				if waited := returned.Sub(writes[len(writes)-1].End); waited < c.interval() {
					// no scheduling delay explains an error that comes before the interval is over
					return result{fail: ev.Failf("gave-up-early", "a success CEA was due %d %% of the RetransmitInterval (%v) after transmission %d of at most %d; NewConn returned %v only %v after that transmission had been written (EnableWatchdog %v, WatchdogInterval %d ms)", c.DelayPct, c.interval(), wantK, c.MaxRetransmits+1, r.err, waited, c.Watchdog, c.WatchdogMs)}
				}
				return result{timing: true, fail: ev.Failf("handshake-should-succeed", "a success CEA was fed %d %% of the RetransmitInterval (%v) after transmission %d of at most %d, NewConn returned error %v after %d transmissions", c.DelayPct, c.interval(), wantK, c.MaxRetransmits+1, r.err, len(writes))}
			}
			timing := len(writes) > wantK || (wantK == c.MaxRetransmits+1 && elapsed >= time.Duration(wantK)*c.interval())
			return result{timing: timing, fail: ev.Failf("handshake-should-succeed", "an acceptable CEA answered transmission %d of at most %d, NewConn returned error %v after %d transmissions", wantK, c.MaxRetransmits+1, r.err, len(writes))}
		}
		if closed, _ := mc.Closed(); closed {
			return result{fail: ev.Failf("closed-after-success", "NewConn returned a connection but the transport is already closed")}
		}
	} else {
		if r.err == nil {
			return result{fail: ev.Failf("handshake-should-fail", "no acceptable CEA was delivered (script %v, budget %d) but NewConn returned a connection", c.Script, c.MaxRetransmits+1)}
		}
		if !mc.WaitClosed(2 * time.Second) {
			return result{fail: ev.Failf("not-closed-after-failure", "NewConn returned %v but the transport was not closed within 2 s", r.err)}
		}
		if len(writes) < wantK {
			return result{fail: ev.Failf("gave-up-early", "the deciding event is at transmission %d but only %d transmissions were made (error %v)", wantK, len(writes), r.err)}
		}
		if a := c.reaction(wantK); !terminal(a) {
			// the peer never replied: the last transmission, too, is given a full RetransmitInterval
			// (lower bound: from the end of its Write, taken inside the transport, to the return of the dial)
			if waited := returned.Sub(writes[len(writes)-1].End); waited < c.interval() {
				return result{fail: ev.Failf("gave-up-early", "the peer sent no CEA; NewConn returned %v only %v after transmission %d of the CER had been written, RetransmitInterval is %v (MaxRetransmits %d, EnableWatchdog %v, WatchdogInterval %d ms)", r.err, waited, len(writes), c.interval(), c.MaxRetransmits, c.Watchdog, c.WatchdogMs)}
			}
		}
		return result{}
	}
	// --- stability after a successful handshake
	sent := 0
	for _, x := range c.Extras {
		switch x {
		case appAnswer:
			if sent%2 == 1 {
				// every other one in the application the client advertised
				sent++
				mc.Feed(appAnswerFor(sent, c.answerApp()))
				continue
			}
			sent++
			mc.Feed(appAnswerMsg(sent))
		default:
			mc.Feed(c.cea(x, 0x1111, 0x2222))
		}
	}
	sent++
	mc.Feed(appAnswerFor(sent, c.answerApp())) // a final answer after all extras, in the application the client advertised
	deadline := time.After(3 * time.Second)
	for n := 0; n < sent; n++ {
		select {
		case <-got:
		case <-deadline:
			closed, _ := mc.Closed()
			mu.Lock()
			defer mu.Unlock()
			// with the watchdog running, a DWA that a busy machine dispatches later than the whole
			// retransmission budget makes the client hang up: such a verdict must reproduce
			return result{timing: c.Watchdog && c.WatchdogMs > 0, fail: ev.Failf("unstable-after-handshake", "after the handshake the peer sent %v and %d application answers; only %d reached the handler within 3 s (transport closed: %v)", c.Extras, sent, len(answers), closed)}
		}
	}
	if closed, _ := mc.Closed(); closed {
		return result{timing: c.Watchdog && c.WatchdogMs > 0, fail: ev.Failf("unstable-after-handshake", "the transport was closed after the extras %v although the handshake had succeeded", c.Extras)}
	}
	mu.Lock()
	defer mu.Unlock()
	for i, id := range answers {
		if id != uint32(7001+i) {
			return result{fail: ev.Failf("answers-misdelivered", "application answers reached the handler as %v, want 7001.. in order", answers)}
		}
	}
	return result{}
}

// localEndpoints: what net.Addr.String() of the transport's local side prints - single-homed
// TCP/TLS endpoints and the multi-homed form of SCTP associations ("a/b:port", IPv6 addresses in
// brackets, link-local ones with their zone). Loopback addresses only occur alone.
var localEndpoints = []string{"10.1.2.3:3868", "10.1.2.3:3868", "127.0.0.1:3868", "[2001:db8::1]:3868", "[::1]:3868",
	"10.0.0.3/10.0.0.4:3868", "[fe80::1%eth0]:3868", "[fe80::1%eth0]/10.0.0.3:3868", "10.0.0.3/[fe80::1%eth0]:3868",
	"10.0.0.3/[2001:db8::2]/192.0.2.77:3868", "[fe80::2%lo0]/[2001:db8::5]/10.0.0.9:5868"}

// wantIPs: the configured addresses, else the addresses of the local endpoint that a peer can
// use, in the order the endpoint lists them: an address that carries a %zone is valid on one
// link only and - like the loopback - is announced only when the endpoint has nothing better
// (the repository's own TestClient_Conn_LocalAddresses_Complex expects just that). Written
// independently of the library: port after the last colon, addresses separated by '/',
// brackets removed. The generated endpoints never make the choice among several last resorts
// matter.
func (c Case) wantIPs() [][]byte {
	if len(c.ConfiguredIPs) > 0 {
		return c.ConfiguredIPs
	}
	hosts := c.LocalAddr[:strings.LastIndexByte(c.LocalAddr, ':')]
	var usable, lastResort [][]byte
	for _, h := range strings.Split(hosts, "/") {
		h = strings.Trim(h, "[]")
		zoned := false
		if i := strings.IndexByte(h, '%'); i >= 0 {
			h, zoned = h[:i], true
		}
		ip := net.ParseIP(h)
		if ip == nil {
			continue
		}
		b := []byte(ip.To16())
		if v4 := ip.To4(); v4 != nil {
			b = []byte(v4)
		}
		if zoned || ip.IsLoopback() {
			lastResort = append(lastResort, b)
		} else {
			usable = append(usable, b)
		}
	}
	if len(usable) == 0 && len(lastResort) > 0 {
		return lastResort[:1]
	}
	return usable
}

// checkCER: the request carries the configured identity, the host addresses and every advertised application.
func (c Case) checkCER(b []byte) *ev.Failure {
	h, err := refcodec.DecodeHeader(b)
	if err != nil || h.Code != 257 || h.Flags&0x80 == 0 || h.App != 0 || int(h.Length) != len(b) {
		return ev.Failf("cer-malformed", "first write is not a CER: % x", b)
	}
	recs, err := refcodec.Frame(b[20:])
	if err != nil {
		return ev.Failf("cer-malformed", "CER body does not frame: %v", err)
	}
	find := func(code uint32) [][]byte {
		var out [][]byte
		for _, r := range recs {
			if r.Code == code {
				out = append(out, r.Payload)
			}
		}
		return out
	}
	if p := find(264); len(p) != 1 || string(p[0]) != c.Host {
		return ev.Failf("cer-identity", "CER Origin-Host %q, configured %q", p, c.Host)
	}
	if p := find(296); len(p) != 1 || string(p[0]) != c.Realm {
		return ev.Failf("cer-identity", "CER Origin-Realm %q, configured %q", p, c.Realm)
	}
	var wantAddr [][]byte
	for _, ip := range c.wantIPs() {
		fam := uint16(1)
		if len(ip) == 16 {
			fam = 2
		}
		wantAddr = append(wantAddr, refcodec.Address(fam, ip))
	}
	gotAddr := find(257)
	if len(gotAddr) != len(wantAddr) {
		sig := "cer-host-ip"
		if len(c.ConfiguredIPs) == 0 && c.LocalAddr[0] == '[' && len(gotAddr) == 0 {
			sig = "cer-no-host-ip-ipv6-endpoint"
		}
		return ev.Failf(sig, "CER carries %d Host-IP-Address AVPs % x, expected %d: % x (configured %d, local endpoint %s)", len(gotAddr), gotAddr, len(wantAddr), wantAddr, len(c.ConfiguredIPs), c.LocalAddr)
	}
	for i := range wantAddr {
		if !bytes.Equal(gotAddr[i], wantAddr[i]) {
			return ev.Failf("cer-host-ip", "CER Host-IP-Address %d is % x, expected % x", i, gotAddr[i], wantAddr[i])
		}
	}
	have := func(code uint32, id uint32) bool {
		for _, p := range find(code) {
			if len(p) == 4 && refcodec.Get32(p) == id {
				return true
			}
		}
		return false
	}
	for _, id := range c.Auth {
		if !have(258, id) {
			return ev.Failf("cer-applications", "CER does not advertise Auth-Application-Id %d", id)
		}
	}
	for _, id := range c.Acct {
		if !have(259, id) {
			return ev.Failf("cer-applications", "CER does not advertise Acct-Application-Id %d", id)
		}
	}
	if c.VSAuth {
		ok := false
		for _, p := range find(260) {
			if inner, err := refcodec.Frame(p); err == nil {
				v, a := false, false
				for _, r := range inner {
					v = v || (r.Code == 266 && len(r.Payload) == 4 && refcodec.Get32(r.Payload) == 10415)
					a = a || (r.Code == 258 && len(r.Payload) == 4 && refcodec.Get32(r.Payload) == 16777251)
				}
				ok = ok || (v && a)
			}
		}
		if !ok {
			return ev.Failf("cer-applications", "CER does not advertise Vendor-Specific-Application-Id {10415, auth 16777251}")
		}
	}
	return nil
}

func runCase(c Case) *ev.Failure {
	r := runOnce(c)
	if r.fail == nil || !r.timing {
		return r.fail
	}
	// A mismatch that a scheduling delay could explain is reported only if it reproduces.
	for i := 0; i < 2; i++ {
		if r2 := runOnce(c); r2.fail == nil {
			timingDiscards++
			return nil
		}
	}
	return r.fail
}

var timingDiscards int64

func genCase(t *rapid.T) Case {
	c := Case{MaxRetransmits: rapid.IntRange(0, 4).Draw(t, "max-retransmits"), IntervalMs: rapid.IntRange(40, 70).Draw(t, "interval-ms"),
		Host: rapid.SampledFrom([]string{"client.example", "c", "a.b.c.d.e"}).Draw(t, "host"), Realm: rapid.SampledFrom([]string{"example", "r"}).Draw(t, "realm"),
		LocalAddr: rapid.SampledFrom(localEndpoints).Draw(t, "local")}
	switch rapid.IntRange(0, 3).Draw(t, "configured-ips") {
	case 0:
		c.ConfiguredIPs = [][]byte{{192, 0, 2, 1}}
	case 1:
		c.ConfiguredIPs = [][]byte{{192, 0, 2, 1}, {0x20, 0x01, 0x0d, 0xb8, 0, 0, 0, 0, 0, 0, 0, 0, 0, 0, 0, 2}}
	}
	switch rapid.IntRange(0, 6).Draw(t, "apps") {
	case 5, 6:
		c.Auth, c.Acct, c.VSAuth = []uint32{4}, []uint32{3}, true
	case 0:
		c.Auth = []uint32{4}
	case 1:
		c.Acct = []uint32{3}
	case 2:
		c.Auth, c.Acct = []uint32{4, 16777251}, []uint32{3}
	case 3:
		c.VSAuth = true
	default:
		c.Auth, c.VSAuth = []uint32{4}, true
	}
	if rapid.Bool().Draw(t, "state-id") {
		c.StateID = rapid.Uint32Range(1, 1<<31).Draw(t, "state")
	}
	if rapid.Bool().Draw(t, "firmware") {
		c.Firmware = 7
	}
	c.SharedBacking = rapid.IntRange(0, 2).Draw(t, "shared-backing") == 0
	c.Layout = rapid.IntRange(0, 5).Draw(t, "layout")
	c.Literal = rapid.IntRange(0, 3).Draw(t, "literal-avps") == 0
	n := rapid.IntRange(0, c.MaxRetransmits+1).Draw(t, "silent-first")
	for i := 0; i < n; i++ {
		c.Script = append(c.Script, rapid.SampledFrom([]string{silence, silence, notCEA}).Draw(t, "no-reply"))
	}
	react := rapid.SampledFrom([]string{success, success, success, successPlus, successRelay, failCode, noResultCode, noOriginHost, successNoApp, successUnknApp, successVSAUnknown, successVSAVendor, disconnect, silence,
		successLate, successLate, successMix, successMix, successMix}).Draw(t, "reaction")
	c.Script = append(c.Script, react)
	if react == successLate {
		c.DelayPct = rapid.SampledFrom([]int{25, 50}).Draw(t, "delay-pct")
	}
	if react == successMix {
		c.CEAApps = genMix(t, c)
	}
	k := rapid.IntRange(0, 5).Draw(t, "extras")
	for i := 0; i < k; i++ {
		c.Extras = append(c.Extras, rapid.SampledFrom([]string{dupSuccess, lateFailure, malformed, appAnswer}).Draw(t, "extra"))
	}
	// options that must not influence the handshake
	if rapid.Bool().Draw(t, "watchdog") {
		c.Watchdog = true
		switch rapid.IntRange(0, 3).Draw(t, "watchdog-interval") {
		case 0, 1: // shorter than the RetransmitInterval
			c.WatchdogMs = rapid.IntRange(5, c.IntervalMs/2).Draw(t, "watchdog-ms")
		case 2: // longer
			c.WatchdogMs = c.IntervalMs * rapid.IntRange(2, 5).Draw(t, "watchdog-factor")
		}
	} else if rapid.IntRange(0, 3).Draw(t, "watchdog-interval-unused") == 0 {
		c.WatchdogMs = rapid.IntRange(5, c.IntervalMs/2).Draw(t, "watchdog-ms") // set but not enabled
	}
	c.SupportedVendors = rapid.SampledFrom([][]uint32{nil, nil, {10415}, {10415, 13, 5535}}).Draw(t, "supported-vendors")
	return c
}

// genMix: the application entries of a success-mix CEA. Shapes: plain ids that no dictionary
// declares next to vendor-specific groups naming an advertised application; the reverse; only
// unknown ones in both forms; any mixture. The order on the wire is drawn as well.
func genMix(t *rapid.T, c Case) []CEAApp {
	adv := c.advertised()
	shared := func(vsa bool) CEAApp {
		e := adv[rapid.IntRange(0, len(adv)-1).Draw(t, "shared-app")]
		e.VSA = vsa
		if vsa {
			e.VendorLast = rapid.IntRange(0, 3).Draw(t, "vendor-last") == 0
		}
		return e
	}
	unknown := func(vsa bool) CEAApp {
		e := rapid.SampledFrom(unknownApps).Draw(t, "unknown-app")
		e.VSA = vsa
		if vsa {
			e.VendorLast = rapid.IntRange(0, 3).Draw(t, "vendor-last") == 0
		}
		return e
	}
	var out []CEAApp
	switch rapid.IntRange(0, 4).Draw(t, "mix-shape") {
	case 0, 1: // unknown plain ids, the shared application only in a group
		for i, n := 0, rapid.IntRange(1, 3).Draw(t, "n-unknown"); i < n; i++ {
			out = append(out, unknown(false))
		}
		out = append(out, shared(true))
		if rapid.Bool().Draw(t, "second-group") {
			out = append(out, unknown(true))
		}
	case 2: // the reverse
		for i, n := 0, rapid.IntRange(1, 2).Draw(t, "n-unknown"); i < n; i++ {
			out = append(out, unknown(true))
		}
		out = append(out, shared(false))
	case 3: // nothing shared, both forms
		out = append(out, unknown(false), unknown(true))
		if rapid.Bool().Draw(t, "third") {
			out = append(out, unknown(rapid.Bool().Draw(t, "third-vsa")))
		}
	default:
		for i, n := 0, rapid.IntRange(1, 4).Draw(t, "n-entries"); i < n; i++ {
			switch rapid.IntRange(0, 5).Draw(t, "entry") {
			case 0, 1:
				out = append(out, shared(rapid.Bool().Draw(t, "vsa")))
			case 2:
				out = append(out, CEAApp{Typ: "auth", ID: 0xffffffff})
			default:
				out = append(out, unknown(rapid.Bool().Draw(t, "vsa")))
			}
		}
	}
	// any order on the wire
	perm := rapid.Permutation(out).Draw(t, "wire-order")
	return perm
}

func classify(c Case) (bool, []string) {
	k, ok := c.expect()
	cl := []string{fmt.Sprintf("budget:%d", c.MaxRetransmits+1), "local:" + c.LocalAddr}
	if len(c.ConfiguredIPs) == 0 {
		cl = append(cl, "derived-host-ip")
	}
	if c.SharedBacking {
		cl = append(cl, "application-lists-share-one-array")
	}
	if c.Literal {
		cl = append(cl, "application-avps-built-as-struct-literals")
	}
	react := silence
	if k-1 < len(c.Script) {
		react = c.Script[k-1]
	}
	cl = append(cl, "deciding:"+react)
	if c.Watchdog {
		switch {
		case c.WatchdogMs == 0:
			cl = append(cl, "watchdog-enabled:interval-unset")
		case c.WatchdogMs < c.IntervalMs:
			cl = append(cl, "watchdog-enabled:interval-shorter-than-retransmit-interval")
		default:
			cl = append(cl, "watchdog-enabled:interval-longer-than-retransmit-interval")
		}
	}
	if len(c.SupportedVendors) > 0 {
		cl = append(cl, "supported-vendor-ids")
	}
	if react == successMix {
		plainUnknown, plainShared, vsaShared, vsaUnknown := false, false, false, false
		for _, e := range c.CEAApps {
			sh := c.shares(e)
			plainUnknown = plainUnknown || (!e.VSA && !sh)
			plainShared = plainShared || (!e.VSA && sh)
			vsaShared = vsaShared || (e.VSA && sh)
			vsaUnknown = vsaUnknown || (e.VSA && !sh)
		}
		switch {
		case plainUnknown && vsaShared && !plainShared:
			cl = append(cl, "mix:unknown-plain-ids-shared-application-only-in-a-group")
		case vsaUnknown && plainShared && !vsaShared:
			cl = append(cl, "mix:unknown-groups-shared-application-only-plain")
		case !plainShared && !vsaShared:
			cl = append(cl, "mix:nothing-shared")
		default:
			cl = append(cl, "mix:other")
		}
	}
	nt := k > 1 || !ok
	if k > 1 {
		cl = append(cl, "retransmitted")
	}
	for i := 0; i < k-1 && i < len(c.Script); i++ {
		if c.Script[i] == notCEA {
			cl = append(cl, "other-messages-instead-of-a-cea")
		}
	}
	if ok {
		cl = append(cl, "outcome:success")
		for _, x := range c.Extras {
			if x != appAnswer {
				nt = true
				cl = append(cl, "extra:"+x)
			}
		}
	} else {
		cl = append(cl, "outcome:failure")
	}
	seen := map[string]bool{}
	var out []string
	for _, x := range cl {
		if !seen[x] {
			seen[x] = true
			out = append(out, x)
		}
	}
	return nt, out
}

var prop = ev.Register(&ev.Prop[Case]{
	ID: "C12", Name: "handshake",
	Rule: "client settings (MaxRetransmits 0..4, RetransmitInterval 40..70 ms, identity, configured or endpoint-derived host addresses incl. IPv6, zoned link-local and multi-homed (SCTP style a/b:port) endpoints, advertised auth / acct / vendor-specific applications that the local dictionary supports) x peer script per received transmission {silence, messages that are not a CEA (a success DWA with the CER's identifiers, an application answer), success CEA sharing an advertised application (or, from a relay, the relay application id only), failing Result-Code, CEA without Result-Code / Origin-Host, success without / with only unknown applications, success whose application list mixes plain Auth-/Acct-Application-Id AVPs and Vendor-Specific-Application-Id groups in any wire order - ids no dictionary declares, applications the client advertised (in either form), the relay id - accepted exactly when one entry is shared, disconnect}, reacting inside the transport's Write, or a success CEA delivered 25 / 50 % of the interval after the transmission; client options the handshake clauses do not mention are drawn as well and must not matter: EnableWatchdog with a WatchdogInterval shorter / longer than the RetransmitInterval or unset (DWRs are answered by the peer and are no CER transmissions), Supported-Vendor-Id lists; a peer that never replies is given up no earlier than a RetransmitInterval after the last transmission was written; after a successful handshake 0..5 extras {duplicate success CEA, late failing CEA, malformed CEA, application answers}; non-trivial = a retransmission, a failure outcome, or an extra CEA after success; a mismatch that a scheduling delay could explain must reproduce 3 times",
	Gen:  genCase, Run: runCase, Classify: classify, Attempts: 2,
})

func TestC12Handshake(t *testing.T) {
	rec := prop.Rec(t)
	t.Cleanup(func() { rec.Count("inconclusive-timing-discarded", timingDiscards) })
	prop.Check(t, 150, 4000)
}

// Canonical cases: every reaction at the first and at the last transmission, every extra.
func TestC12Canonical(t *testing.T) {
	prop.Enumerate(t, false, func(yield func(Case) bool) {
		base := Case{MaxRetransmits: 1, IntervalMs: 40, Host: "client.example", Realm: "example", LocalAddr: "10.1.2.3:3868", Auth: []uint32{4}}
		for _, a := range []string{success, successPlus, successRelay, failCode, noResultCode, noOriginHost, successNoApp, successUnknApp, successVSAUnknown, successVSAVendor, disconnect, silence} {
			c := base
			c.Script = []string{a}
			if !yield(c) {
				return
			}
			c.Script = []string{silence, a}
			if !yield(c) {
				return
			}
		}
		for _, x := range []string{dupSuccess, lateFailure, malformed, appAnswer} {
			c := base
			c.Script = []string{success}
			c.Extras = []string{x, x}
			if !yield(c) {
				return
			}
		}
		for _, l := range localEndpoints[2:] {
			c := base
			c.LocalAddr = l
			c.Script = []string{success}
			if !yield(c) {
				return
			}
		}
		// success CEAs mixing plain ids and vendor-specific groups, for a client that advertises
		// plain applications and for one that advertises S6a in a group only
		unk, unkAcct, s6a := CEAApp{Typ: "auth", ID: 999}, CEAApp{Typ: "acct", ID: 998}, CEAApp{Typ: "auth", ID: 16777251, VSA: true}
		vsaUnk := CEAApp{Typ: "auth", ID: 999999, VSA: true}
		for _, cl := range []Case{{Auth: []uint32{4}, Acct: []uint32{3}, VSAuth: true}, {VSAuth: true}, {Auth: []uint32{4}}} {
			adv := cl.advertised()
			plain, inGroup := adv[0], adv[0]
			inGroup.VSA = true
			mixes := [][]CEAApp{{unk, inGroup}, {inGroup, unk}, {unkAcct, inGroup}, {unk, unkAcct, vsaUnk, inGroup}, {vsaUnk, plain}, {plain, vsaUnk}, {unk, plain}, {unk, vsaUnk}, {vsaUnk, unkAcct},
				{unk, {Typ: inGroup.Typ, ID: inGroup.ID, VSA: true, VendorLast: true}}, {unkAcct, {Typ: "auth", ID: 0xffffffff}}}
			if cl.VSAuth {
				mixes = append(mixes, []CEAApp{unk, s6a}, []CEAApp{unkAcct, vsaUnk, s6a})
			}
			for i, m := range mixes {
				c := base
				c.Auth, c.Acct, c.VSAuth = cl.Auth, cl.Acct, cl.VSAuth
				c.CEAApps = m
				c.Script = []string{successMix}
				if i%2 == 1 {
					c.Script = []string{silence, successMix}
				}
				if !yield(c) {
					return
				}
			}
		}
		// options that must not influence the handshake: the watchdog with an interval shorter /
		// longer than the RetransmitInterval / unset, x budget x silent, late- and last-answering peers
		for _, wd := range []int{10, 0, 200} {
			for _, budget := range []int{0, 2} {
				scripts := [][]string{{}, {successLate}}
				if budget > 0 {
					scripts = append(scripts, []string{silence, silence, success}, []string{silence, successLate})
				}
				for _, sc := range scripts {
					if !ev.Thorough() && wd != 10 && len(sc) < 2 {
						continue
					}
					c := base
					c.IntervalMs, c.MaxRetransmits, c.Watchdog, c.WatchdogMs, c.Script, c.DelayPct = 60, budget, true, wd, sc, 50
					c.SupportedVendors = []uint32{10415}
					if !yield(c) {
						return
					}
				}
			}
		}
	})
}

func TestC12Keep(t *testing.T) { ev.RunKeep(t, "C12") }
func TestReplay(t *testing.T)  { ev.Replay(t) }
