//go:debug asynctimerchan=1

package c12

import (
	"fmt"
	"sync"
	"testing"
	"time"

	"github.com/fiorix/go-diameter/v4/diam"
	"github.com/fiorix/go-diameter/v4/diam/avp"
	"github.com/fiorix/go-diameter/v4/diam/datatype"
	"github.com/fiorix/go-diameter/v4/diam/sm"

	"verif/internal/ev"
	"verif/internal/memnet"
	"verif/internal/refcodec"
)

// The go:debug line above gives this test binary the timer semantics of the library's OWN go.mod
// (go 1.20: a Timer's channel is buffered, Reset and Stop leave a tick that was already sent in
// it) - what every application whose go.mod says less than 1.23 gets; the harness module itself
// says 1.23, under which a stale tick cannot be observed.
//
// "At most MaxRetransmits+1 transmissions of that CER, spaced at least RetransmitInterval
// apart", for the SECOND and third dial of one sm.Client: an earlier handshake of the same client
// was completed by a CEA some time ago (shorter or longer than a RetransmitInterval). Whatever
// the client kept from that handshake, the next dial waits a full interval after each
// transmission before it sends the next one or gives up.

type RedialSpacingCase struct {
	Budget   int    `json:"budget"`    // MaxRetransmits
	GapPct   int    `json:"gap_pct"`   // pause between a completed handshake and the next dial, in % of the RetransmitInterval
	Second   string `json:"second"`    // what the peer of the later dials does: answer-late (CEA after a third of the interval) | answer-last (only the last transmission is answered) | silent
	Dials    int    `json:"dials"`     // 2 or 3
	Quick1   bool   `json:"quick_1st"` // the first dial's CEA arrives at once (else after a third of the interval)
	Interval int    `json:"interval_ms"`
}

func runRedialSpacing(c RedialSpacingCase) *ev.Failure {
	r := time.Duration(c.Interval) * time.Millisecond
	machine := sm.New(&sm.Settings{OriginHost: "cli.example", OriginRealm: "example", VendorID: 13, ProductName: "verif",
		HostIPAddresses: []datatype.Address{datatype.Address([]byte{10, 0, 0, 9})}})
	stop := make(chan struct{})
	defer close(stop)
	go func() {
		for {
			select {
			case <-machine.ErrorReports():
			case <-machine.HandshakeNotify():
			case <-stop:
				return
			}
		}
	}()
	cli := &sm.Client{Handler: machine, MaxRetransmits: uint(c.Budget), RetransmitInterval: r,
		AuthApplicationID: []*diam.AVP{diam.NewAVP(avp.AuthApplicationID, avp.Mbit, 0, datatype.Unsigned32(4))}}
	cea := func(h refcodec.Header) []byte {
		return refcodec.EncodeMessage(refcodec.Header{Version: 1, Code: 257, HopByHop: h.HopByHop, EndToEnd: h.EndToEnd},
			[]*refcodec.Node{{Code: 268, Flags: 0x40, Payload: refcodec.U32(2001)}, {Code: 264, Flags: 0x40, Payload: []byte("srv.example")},
				{Code: 296, Flags: 0x40, Payload: []byte("example")}, {Code: 257, Flags: 0x40, Payload: refcodec.Address(1, []byte{10, 0, 0, 1})},
				{Code: 266, Flags: 0x40, Payload: refcodec.U32(13)}, {Code: 269, Payload: []byte("peer")},
				{Code: 258, Flags: 0x40, Payload: refcodec.U32(4)}}, false)
	}
	for d := 0; d < c.Dials; d++ {
		mode := c.Second
		if d == 0 {
			mode = "answer-late"
			if c.Quick1 {
				mode = "answer-now"
			}
		}
		mc := memnet.NewConn()
		var mu sync.Mutex
		var at []time.Time
		var fedAt time.Time
		mc.WriteHook = func(b []byte, accept func([]byte)) (int, error) {
			accept(b)
			h, err := refcodec.DecodeHeader(b)
			if err != nil || h.Code != 257 || h.Flags&0x80 == 0 {
				return len(b), nil
			}
			mu.Lock()
			at = append(at, time.Now())
			n := len(at)
			mu.Unlock()
			feed := func() { mu.Lock(); fedAt = time.Now(); mu.Unlock(); mc.Feed(cea(h)) }
			switch {
			case mode == "answer-now":
				feed()
			case mode == "answer-late" && n == 1:
				time.AfterFunc(r/3, feed)
			case mode == "answer-last" && n == c.Budget+1:
				feed()
			}
			return len(b), nil
		}
		type res struct {
			cn  diam.Conn
			err error
		}
		done := make(chan res, 1)
		go func() { cn, err := cli.NewConn(mc, "peer"); done <- res{cn, err} }()
		var got res
		select {
		case got = <-done:
		case <-time.After(time.Duration(c.Budget+2)*r + 10*time.Second):
			mc.Close()
			return ev.Failf("dial-never-returns", "dial %d did not return", d)
		}
		returned := time.Now()
		mu.Lock()
		times := append([]time.Time{}, at...)
		fed := fedAt
		mu.Unlock()
		desc := fmt.Sprintf("dial %d of one sm.Client (MaxRetransmits %d, RetransmitInterval %v; the previous handshake of this client was completed by a CEA, the dial started %d%% of an interval later; peer: %s)", d, c.Budget, r, c.GapPct, mode)
		mc.FeedEOF()
		mc.WaitClosed(2 * time.Second)
		mc.Close()
		if len(times) == 0 {
			return ev.Failf("no-cer", "%s: no CER was sent", desc)
		}
		if len(times) > c.Budget+1 {
			return ev.Failf("redial:too-many-transmissions", "%s: %d transmissions of the CER", desc, len(times))
		}
		for i := 1; i < len(times); i++ {
			if gap := times[i].Sub(times[i-1]); gap < r-2*time.Millisecond {
				return ev.Failf("redial:retransmission-spacing", "%s: transmission %d of the CER followed transmission %d after %v", desc, i+1, i, gap)
			}
		}
		switch mode {
		case "silent":
			if got.err == nil {
				return ev.Failf("redial:success-without-cea", "%s: the peer sent no CEA, NewConn returned a connection", desc)
			}
			if len(times) != c.Budget+1 {
				return ev.Failf("redial:gave-up-early", "%s: NewConn returned %v after %d of %d transmissions", desc, got.err, len(times), c.Budget+1)
			}
			if waited := returned.Sub(times[len(times)-1]); waited < r-2*time.Millisecond {
				return ev.Failf("redial:gave-up-early", "%s: NewConn returned %v only %v after the last transmission", desc, got.err, waited)
			}
			return nil // the client gave up: no further dial in this case
		default:
			if got.err != nil {
				// the peer's only reaction is a well-formed success CEA: an error that comes
				// before a full interval has passed since the last transmission is the client
				// giving up early (no scheduling delay can explain that); a later one may be a
				// CEA that a busy machine delivered late
				last := times[len(times)-1]
				if waited := returned.Sub(last); waited < r-2*time.Millisecond {
					return ev.Failf("redial:gave-up-early", "%s: NewConn returned %v only %v after transmission %d of the CER (the CEA was due a third of an interval after it; delivered: %v)", desc, got.err, waited, len(times), !fed.IsZero())
				}
				return nil // inconclusive (late CEA delivery on a busy machine): stop here
			}
		}
		time.Sleep(r * time.Duration(c.GapPct) / 100)
	}
	return nil
}

var redialSpacingProp = ev.Register(&ev.Prop[RedialSpacingCase]{
	ID: "C12", Name: "redial-retransmission-spacing",
	Rule: "one sm.Client (MaxRetransmits 0..2, RetransmitInterval 60 ms) dials 2 or 3 in-memory connections in a row; the first handshake is completed by a CEA (at once or after a third of the interval); 20 / 150 / 300 % of an interval later the next dial starts, whose peer answers after a third of the interval, answers only the last transmission, or stays silent. " +
		"Demanded per dial: at most MaxRetransmits+1 transmissions, consecutive ones >= RetransmitInterval apart, no error before the interval after the answered transmission has passed, a silent peer given up only a full interval after the last transmission. non-trivial = the later dial starts more than an interval after the previous CEA",
	Run: runRedialSpacing,
	Classify: func(c RedialSpacingCase) (bool, []string) {
		return c.GapPct > 100, []string{"later-peer:" + c.Second, fmt.Sprintf("budget:%d", c.Budget), fmt.Sprintf("gap-pct:%d", c.GapPct)}
	},
})

func TestC12RedialSpacing(t *testing.T) {
	redialSpacingProp.Enumerate(t, true, func(yield func(RedialSpacingCase) bool) {
		i := 0
		for _, budget := range []int{0, 1, 2} {
			for _, gap := range []int{20, 150, 300} {
				for _, second := range []string{"answer-late", "answer-last", "silent"} {
					i++
					if !ev.Thorough() && gap == 20 && second != "answer-late" {
						continue
					}
					if !yield(RedialSpacingCase{Budget: budget, GapPct: gap, Second: second, Dials: 2 + i%2, Quick1: i%3 != 0, Interval: 60}) {
						return
					}
				}
			}
		}
	})
}
