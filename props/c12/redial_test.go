package c12

import (
	"testing"
	"time"

	"github.com/fiorix/go-diameter/v4/diam"
	"github.com/fiorix/go-diameter/v4/diam/avp"
	"github.com/fiorix/go-diameter/v4/diam/datatype"
	"github.com/fiorix/go-diameter/v4/diam/sm"
	"pgregory.net/rapid"

	"verif/internal/ev"
	"verif/internal/memnet"
	"verif/internal/refcodec"
)

// One sm.Client dials several times; between dials the application changes
// what the client is told to advertise (identity in the live Settings, the
// exported application lists). Every dial's CER must carry the configuration
// in force at that dial.

type RCase struct {
	Dials []Case `json:"dials"` // per dial: identity, addresses, applications (Script/Extras unused: the peer answers the first CER with success)
}

// configuredBefore: the previous dial of the running case had configured addresses.
var configuredBefore bool

func applyConfig(cli *sm.Client, c Case) {
	s := cli.Handler.Settings()
	s.OriginHost, s.OriginRealm = datatype.DiameterIdentity(c.Host), datatype.DiameterIdentity(c.Realm)
	s.OriginStateID, s.FirmwareRevision = datatype.Unsigned32(c.StateID), datatype.Unsigned32(c.Firmware)
	// the address list is only touched when the application has something to say about it: a
	// client that never configures addresses leaves the field alone from dial to dial
	if len(c.ConfiguredIPs) > 0 || configuredBefore {
		s.HostIPAddresses = nil
		for _, ip := range c.ConfiguredIPs {
			s.HostIPAddresses = append(s.HostIPAddresses, datatype.Address(ip))
		}
	}
	configuredBefore = len(c.ConfiguredIPs) > 0
	cli.AuthApplicationID, cli.AcctApplicationID, cli.VendorSpecificApplicationID = nil, nil, nil
	for _, id := range c.Auth {
		cli.AuthApplicationID = append(cli.AuthApplicationID, diam.NewAVP(avp.AuthApplicationID, avp.Mbit, 0, datatype.Unsigned32(id)))
	}
	for _, id := range c.Acct {
		cli.AcctApplicationID = append(cli.AcctApplicationID, diam.NewAVP(avp.AcctApplicationID, avp.Mbit, 0, datatype.Unsigned32(id)))
	}
	if c.VSAuth {
		cli.VendorSpecificApplicationID = append(cli.VendorSpecificApplicationID, diam.NewAVP(avp.VendorSpecificApplicationID, avp.Mbit, 0, &diam.GroupedAVP{AVP: []*diam.AVP{
			diam.NewAVP(avp.VendorID, avp.Mbit, 0, datatype.Unsigned32(10415)), diam.NewAVP(avp.AuthApplicationID, avp.Mbit, 0, datatype.Unsigned32(16777251))}}))
	}
}

func runRedial(rc RCase) *ev.Failure {
	configuredBefore = false
	machine := sm.New(&sm.Settings{VendorID: 13, ProductName: "verif"})
	stop := make(chan struct{})
	defer close(stop)
	go func() {
		for {
			select {
			case <-machine.ErrorReports():
			case <-stop:
				return
			}
		}
	}()
	cli := &sm.Client{Handler: machine, MaxRetransmits: 0, RetransmitInterval: 5 * time.Second}
	for i, c := range rc.Dials {
		applyConfig(cli, c)
		mc := memnet.NewConn()
		mc.Local = memnet.Addr{Net: "tcp", Str: c.LocalAddr}
		c := c
		mc.WriteHook = func(b []byte, accept func([]byte)) (int, error) {
			accept(b)
			if h, err := refcodec.DecodeHeader(b); err == nil && h.Code == 257 {
				mc.Feed(c.cea(success, h.HopByHop, h.EndToEnd))
			}
			return len(b), nil
		}
		type res struct {
			c   diam.Conn
			err error
		}
		done := make(chan res, 1)
		go func() { cc, err := cli.NewConn(mc, "peer"); done <- res{cc, err} }()
		var r res
		select {
		case r = <-done:
		case <-time.After(10 * time.Second):
			mc.Close()
			return ev.Failf("dial-never-returns", "dial %d did not return within 10 s", i)
		}
		writes := mc.Writes()
		mc.FeedEOF()
		mc.WaitClosed(2 * time.Second)
		mc.Close()
		if r.err != nil {
			return ev.Failf("redial:handshake-should-succeed", "dial %d: the peer answered the CER with an acceptable CEA, NewConn returned %v", i, r.err)
		}
		if len(writes) == 0 {
			return ev.Failf("no-cer", "dial %d: no CER was sent", i)
		}
		if f := c.checkCER(writes[0].Data); f != nil {
			f.Sig = "redial:" + f.Sig
			f.Detail = "dial " + string(rune('0'+i)) + " of one sm.Client (configuration changed between dials): " + f.Detail
			return f
		}
	}
	return nil
}

func genDialConfig(t *rapid.T) Case {
	c := genCase(t)
	c.Script, c.Extras = nil, nil
	return c
}

var redial = ev.Register(&ev.Prop[RCase]{
	ID: "C12", Name: "redial",
	Rule: "one sm.Client dials 2..3 times; before each dial the identity in the live Settings, the configured host addresses (left alone while nothing is configured) and the advertised application lists are set afresh (they differ between dials, and so does the local endpoint of the transport); the peer accepts every handshake; each dial's CER must carry the configuration in force at that dial; non-trivial = consecutive dials differ in identity or applications",
	Gen: func(t *rapid.T) RCase {
		var rc RCase
		n := rapid.IntRange(2, 3).Draw(t, "dials")
		for i := 0; i < n; i++ {
			rc.Dials = append(rc.Dials, genDialConfig(t))
		}
		return rc
	},
	Run: runRedial,
	Classify: func(rc RCase) (bool, []string) {
		nt := false
		for i := 1; i < len(rc.Dials); i++ {
			a, b := rc.Dials[i-1], rc.Dials[i]
			if a.Host != b.Host || a.Realm != b.Realm || len(a.Auth) != len(b.Auth) || len(a.Acct) != len(b.Acct) || a.VSAuth != b.VSAuth {
				nt = true
			}
		}
		var cl []string
		for i := 1; i < len(rc.Dials); i++ {
			if len(rc.Dials[i-1].ConfiguredIPs) == 0 && len(rc.Dials[i].ConfiguredIPs) == 0 && rc.Dials[i-1].LocalAddr != rc.Dials[i].LocalAddr {
				cl = append(cl, "consecutive-unconfigured-dials-from-different-local-endpoints")
				break
			}
		}
		if len(rc.Dials[0].ConfiguredIPs) > 0 {
			cl = append(cl, "first-dial-configured-ips")
		}
		return nt, cl
	},
})

func TestC12Redial(t *testing.T) { redial.Check(t, 300, 10000) }
