package c09

import (
	"bytes"
	"fmt"
	"net"
	"strings"
	"sync"
	"testing"
	"time"

	"github.com/fiorix/go-diameter/v4/diam"
	"github.com/fiorix/go-diameter/v4/diam/avp"
	"github.com/fiorix/go-diameter/v4/diam/datatype"
	"github.com/fiorix/go-diameter/v4/diam/dict"
	"github.com/fiorix/go-diameter/v4/diam/sm"
	"pgregory.net/rapid"

	"verif/internal/ev"
	"verif/internal/gen"
	"verif/internal/memnet"
	"verif/internal/refcodec"
)

// The decision table through every dispatcher an application can hand its registrations to:
//
//	mux        a bare diam.ServeMux, ServeDIAM called in process (what c09_test.go does)
//	mux-conn   a bare diam.ServeMux serving an in-memory connection (diam.NewConn): the message
//	           arrives on the wire
//	sm-direct  a sm.StateMachine ("a specialized type of diam.ServeMux"), ServeDIAM called in
//	           process: first with an acceptable CER (the handshake), then with the message
//	sm-server  a sm.StateMachine serving an in-memory connection; the peer sends an acceptable CER,
//	           reads the success CEA, then sends the message
//	sm-client  a sm.StateMachine behind sm.Client.NewConn on an in-memory connection; the peer
//	           answers the client's CER with a success CEA, then sends the message
//
// Handlers are registered through the dispatcher's own Handle / HandleFunc / HandleIdx, error
// reports are read from the dispatcher's own ErrorReports(). The steps of a case are executed one
// at a time (the harness waits until the connection's reader is parked again), and the report
// channel - capacity 1, non-blocking send - is emptied after every step, so no report is lost and
// every report is attributed to the step that produced it.
//
// CER / CEA / DWR / DWA keys are kept out of messages and registrations on a state machine: the
// state machine owns them (that is C10's subject).

const (
	viaMux      = "mux"
	viaMuxConn  = "mux-conn"
	viaSMDirect = "sm-direct"
	viaSMServer = "sm-server"
	viaSMClient = "sm-client"
)

var viaKinds = []string{viaMuxConn, viaSMDirect, viaSMServer, viaSMClient}

func isSM(via string) bool { return strings.HasPrefix(via, "sm-") }
func isWire(via string) bool {
	return via == viaMuxConn || via == viaSMServer || via == viaSMClient
}

const stepWait = 15 * time.Second // bound of one step; nothing is ever demanded to be faster than this

func reservedCode(code uint32) bool { return code == 257 || code == 280 }

func reservedReg(r Reg) bool {
	if r.Idx != nil {
		return r.Name != "ALL" && reservedCode(r.Idx.Code)
	}
	switch strings.ToUpper(r.Name) {
	case "CER", "CEA", "DWR", "DWA":
		return true
	}
	return false
}

// dirConn is the connection of the in-process kinds: a stub with a TCP-like local address (the
// state machine announces it in its CEA) that keeps what is written to it.
type dirConn struct {
	stubConn
	mu      sync.Mutex
	written []byte
}

func (s *dirConn) Write(b []byte) (int, error) {
	s.mu.Lock()
	s.written = append(s.written, b...)
	s.mu.Unlock()
	return len(b), nil
}
func (s *dirConn) WriteStream(b []byte, stream uint) (int, error) { return s.Write(b) }
func (s *dirConn) LocalAddr() net.Addr                            { return memnet.Addr{Net: "tcp", Str: "10.1.2.3:3868"} }
func (s *dirConn) RemoteAddr() net.Addr                           { return memnet.Addr{Net: "tcp", Str: "10.9.8.7:40000"} }

type hit struct {
	id    int
	hbh   uint32
	code  uint32
	app   uint32
	flags uint8
}

// dispatcher is one dispatcher kind set up over one dictionary.
type dispatcher struct {
	via string
	p   *dict.Parser
	mux *diam.ServeMux
	sm  *sm.StateMachine
	mc  *memnet.Conn
	dc  *dirConn

	mu   sync.Mutex
	hits []hit
}

func newDispatcher(via string, p *dict.Parser) *dispatcher {
	d := &dispatcher{via: via, p: p}
	if isSM(via) {
		d.sm = sm.New(&sm.Settings{OriginHost: "verif.c09.example", OriginRealm: "c09.example", VendorID: 13, ProductName: "verif-c09"})
	} else {
		d.mux = diam.NewServeMux()
	}
	return d
}

func (d *dispatcher) handlerOf() diam.Handler {
	if d.sm != nil {
		return d.sm
	}
	return d.mux
}

func (d *dispatcher) reports() <-chan *diam.ErrorReport {
	if d.sm != nil {
		return d.sm.ErrorReports()
	}
	return d.mux.ErrorReports()
}

// drain empties the report channel without waiting.
func (d *dispatcher) drain() (n int, last *diam.ErrorReport) {
	for {
		select {
		case r := <-d.reports():
			n++
			last = r
		default:
			return
		}
	}
}

func (d *dispatcher) handler(id int) diam.HandlerFunc {
	return func(_ diam.Conn, m *diam.Message) {
		d.mu.Lock()
		d.hits = append(d.hits, hit{id, m.Header.HopByHopID, m.Header.CommandCode, m.Header.ApplicationID, m.Header.CommandFlags})
		d.mu.Unlock()
	}
}

func (d *dispatcher) takeHits() []hit {
	d.mu.Lock()
	defer d.mu.Unlock()
	h := d.hits
	d.hits = nil
	return h
}

// register makes one registration (handler id = id) through the dispatcher's own entry points. It
// runs on its own goroutine so that a dispatcher left locked shows as a verdict.
func (d *dispatcher) register(id int, r Reg) *ev.Failure {
	h := d.handler(id)
	done := make(chan struct{})
	go func() {
		defer close(done)
		var ci diam.CommandIndex
		if r.Idx != nil {
			ci = diam.CommandIndex{AppID: r.Idx.App, Code: r.Idx.Code, Request: r.Idx.Req}
			if r.Name == "ALL" {
				ci = diam.ALL_CMD_INDEX // the catch-all through the index entry point
			}
		}
		switch {
		case d.sm != nil && r.Idx != nil:
			d.sm.HandleIdx(ci, h)
		case d.sm != nil && r.Func:
			d.sm.HandleFunc(r.Name, h)
		case d.sm != nil:
			d.sm.Handle(r.Name, h)
		case r.Idx != nil:
			d.mux.HandleIdx(ci, h)
		case r.Func:
			d.mux.HandleFunc(r.Name, h)
		default:
			d.mux.Handle(r.Name, h)
		}
	}()
	select {
	case <-done:
		return nil
	case <-time.After(10 * time.Second):
		return ev.Failf(d.via+":registration-blocked", "registering %s did not return within 10 s although no handler is running: the dispatcher was left locked by an earlier step", describe(&r))
	}
}

// The peer announces the relay application (0xffffffff): the capabilities exchange then succeeds
// whatever applications the case's dictionary declares.
func viaCER() []byte {
	return refcodec.EncodeMessage(refcodec.Header{Version: 1, Flags: 0x80, Code: 257, HopByHop: 0x5001, EndToEnd: 0x5002},
		[]*refcodec.Node{{Code: 264, Flags: 0x40, Payload: []byte("peer.c09.example")}, {Code: 296, Flags: 0x40, Payload: []byte("c09.example")},
			{Code: 257, Flags: 0x40, Payload: refcodec.Address(1, []byte{10, 9, 8, 7})}, {Code: 266, Flags: 0x40, Payload: refcodec.U32(99)},
			{Code: 269, Payload: []byte("c09-peer")}, {Code: 258, Flags: 0x40, Payload: refcodec.U32(0xffffffff)}}, false)
}

func viaCEA(h refcodec.Header) []byte {
	return refcodec.EncodeMessage(refcodec.Header{Version: 1, Code: 257, HopByHop: h.HopByHop, EndToEnd: h.EndToEnd},
		[]*refcodec.Node{{Code: 268, Flags: 0x40, Payload: refcodec.U32(2001)}, {Code: 264, Flags: 0x40, Payload: []byte("peer.c09.example")},
			{Code: 296, Flags: 0x40, Payload: []byte("c09.example")}, {Code: 257, Flags: 0x40, Payload: refcodec.Address(1, []byte{10, 9, 8, 7})},
			{Code: 266, Flags: 0x40, Payload: refcodec.U32(99)}, {Code: 269, Payload: []byte("c09-peer")},
			{Code: 258, Flags: 0x40, Payload: refcodec.U32(0xffffffff)}}, false)
}

// successCEA reports whether the bytes written by the state machine hold a CEA with Result-Code 2001.
func successCEA(written []byte) bool {
	msgs, _, _ := refcodec.SplitMessages(written)
	for _, b := range msgs {
		h, err := refcodec.DecodeHeader(b)
		if err != nil || h.Code != 257 || h.Flags&0x80 != 0 {
			continue
		}
		recs, _ := refcodec.Frame(b[refcodec.HeaderLen:])
		for _, r := range recs {
			if r.Code == 268 && r.Vendor == 0 && len(r.Payload) == 4 && refcodec.Get32(r.Payload) == 2001 {
				return true
			}
		}
	}
	return false
}

// connect makes the connection and, on a state machine, completes the capabilities exchange.
func (d *dispatcher) connect() *ev.Failure {
	switch d.via {
	case viaMux:
		d.dc = &dirConn{stubConn: stubConn{d: d.p}}
	case viaSMDirect:
		d.dc = &dirConn{stubConn: stubConn{d: d.p}}
		cer, err := diam.ReadMessage(bytes.NewReader(viaCER()), d.p)
		if err != nil {
			return ev.Failf("harness-handshake", "%s: the CER does not parse with the case's dictionary: %v", d.via, err)
		}
		d.sm.ServeDIAM(d.dc, cer)
		d.dc.mu.Lock()
		w := append([]byte{}, d.dc.written...)
		d.dc.mu.Unlock()
		if !successCEA(w) {
			return ev.Failf("harness-handshake", "%s: the state machine did not answer the CER with a success CEA", d.via)
		}
	case viaMuxConn, viaSMServer:
		d.mc = memnet.NewConn()
		if _, err := diam.NewConn(d.mc, "", d.handlerOf(), d.p); err != nil {
			return ev.Failf("harness-conn", "%s: NewConn: %v", d.via, err)
		}
		if d.via == viaSMServer {
			d.mc.Feed(viaCER())
			if !d.mc.WaitParked(stepWait) || !successCEA(d.mc.Written()) {
				return ev.Failf("harness-handshake", "%s: the state machine did not answer the CER with a success CEA within %v", d.via, stepWait)
			}
		}
	case viaSMClient:
		d.mc = memnet.NewConn()
		mc := d.mc
		mc.WriteHook = func(b []byte, accept func([]byte)) (int, error) {
			accept(b)
			if h, err := refcodec.DecodeHeader(b); err == nil && h.Code == 257 && h.Flags&0x80 != 0 {
				mc.Feed(viaCEA(h))
			}
			return len(b), nil
		}
		cli := &sm.Client{Dict: d.p, Handler: d.sm, MaxRetransmits: 0, RetransmitInterval: 2 * stepWait,
			AuthApplicationID: []*diam.AVP{diam.NewAVP(avp.AuthApplicationID, avp.Mbit, 0, datatype.Unsigned32(4))}}
		dialed := make(chan error, 1)
		go func() { _, err := cli.NewConn(mc, "10.9.8.7:3868"); dialed <- err }()
		select {
		case err := <-dialed:
			if err != nil {
				return ev.Failf("harness-handshake", "%s: sm.Client.NewConn: %v", d.via, err)
			}
		case <-time.After(stepWait):
			return ev.Failf("harness-handshake", "%s: sm.Client.NewConn did not return within %v of the success CEA", d.via, stepWait)
		}
		if !mc.WaitParked(stepWait) {
			return ev.Failf("harness-handshake", "%s: the connection's reader did not come back for the next message", d.via)
		}
	default:
		return ev.Failf("harness-generator", "dispatcher kind %q", d.via)
	}
	return nil
}

// dispatch hands one message to the dispatcher and returns when it has been dealt with: in
// process by calling ServeDIAM, on a connection by feeding the wire image (header, and a
// Session-Id when withAVP) and waiting until the reader is parked again. gone: the connection
// was closed over it.
func (d *dispatcher) dispatch(m HMsg, hbh uint32, withAVP bool) (gone bool) {
	if !isWire(d.via) {
		d.handlerOf().ServeDIAM(d.dc, diam.NewMessage(m.Code, m.Flags, m.App, hbh, hbh+1, d.p))
		return false
	}
	var nodes []*refcodec.Node
	if withAVP {
		nodes = append(nodes, &refcodec.Node{Code: 263, Flags: 0x40, Payload: []byte("c09;1")})
	}
	d.mc.Feed(refcodec.EncodeMessage(refcodec.Header{Version: 1, Flags: m.Flags, Code: m.Code, App: m.App, HopByHop: hbh, EndToEnd: hbh + 1}, nodes, false))
	d.mc.WaitParked(stepWait)
	closed, _ := d.mc.Closed()
	return closed || !d.mc.Parked()
}

func (d *dispatcher) close() {
	if d.mc != nil {
		d.mc.FeedEOF()
		d.mc.WaitClosed(2 * time.Second)
		d.mc.Close()
	}
}

// ---------------------------------------------------------------------------
// the decision table through a dispatcher kind

// VCase is a Case of the decision table dispatched through a dispatcher kind.
type VCase struct {
	Via string `json:"via"`
	// Late: the registrations are made after the connection exists and the capabilities exchange
	// is over instead of before.
	Late bool `json:"late,omitempty"`
	Case
}

// resolvedCmd is the definition the oracle's short name comes from.
func resolvedCmd(cat *gen.Catalog, app, code uint32) (gen.Cmd, bool) {
	for _, c := range cat.Cmds {
		if c.App == app && c.Code == code {
			return c, true
		}
	}
	for _, c := range cat.Cmds {
		if c.App == 0 && c.Code == code {
			return c, true
		}
	}
	return gen.Cmd{}, false
}

// wireReadable: a message is read from a connection only if the dictionary lists AVP rules for
// its direction (ReadMessage refuses the others before any dispatch).
func wireReadable(cat *gen.Catalog, app, code uint32, req bool) bool {
	c, ok := resolvedCmd(cat, app, code)
	return ok && (req && c.HasReq || !req && c.HasAns)
}

func hasBaseHandshake(cat *gen.Catalog) bool {
	c, ok := resolvedCmd(cat, 0, 257)
	return ok && c.App == 0 && c.Short == "CE" && c.HasReq && c.HasAns
}

func runVia(c VCase) *ev.Failure {
	p, cat, err := loadDict(c.Dict)
	if err != nil {
		return ev.Failf("harness-dict", "%v", err)
	}
	short, _, ok := shortOf(cat, c.App, c.Code)
	if !ok {
		return nil
	}
	if isSM(c.Via) {
		if reservedCode(c.Code) || !hasBaseHandshake(cat) {
			return ev.Failf("harness-generator", "%s: message code %d / a dictionary without the base CER", c.Via, c.Code)
		}
		for _, r := range c.Regs {
			if reservedReg(r) {
				return ev.Failf("harness-generator", "%s: registration %s belongs to the state machine", c.Via, describe(&r))
			}
		}
	}
	if isWire(c.Via) && !wireReadable(cat, c.App, c.Code, c.req()) {
		return ev.Failf("harness-generator", "%s: the dictionary lists no AVP rules for this direction of command %d, the message cannot be read from a connection", c.Via, c.Code)
	}
	want := expected(c.Case, short)

	d := newDispatcher(c.Via, p)
	defer d.close()
	register := func() *ev.Failure {
		for i, r := range c.Regs {
			if f := d.register(i, r); f != nil {
				return f
			}
		}
		return nil
	}
	if !c.Late {
		if f := register(); f != nil {
			return f
		}
	}
	if f := d.connect(); f != nil {
		return f
	}
	if c.Late {
		if f := register(); f != nil {
			return f
		}
	}
	if isSM(c.Via) {
		d.drain() // whatever the exchange reported is not about the message
		if h := d.takeHits(); len(h) > 0 {
			return ev.Failf(c.Via+":handler-ran-for-handshake", "application handler #%d ran for a message of the capabilities exchange (code %d)", h[0].id, h[0].code)
		}
	}
	const hbh = 0x7101
	gone := d.dispatch(HMsg{App: c.App, Code: c.Code, Flags: c.Flags}, hbh, c.Dict.Gen == nil)
	calls := d.takeHits()
	reports, rep := d.drain()

	desc := func() string {
		return fmt.Sprintf("dispatcher %s (registrations made %s); message app=%d code=%d flags=%#x (short name %q, key %s%s); registrations in order %s",
			c.Via, map[bool]string{false: "first", true: "after the connection was set up"}[c.Late], c.App, c.Code, c.Flags, short, short, letter(c.req()), regsJSON(c.Regs))
	}
	if len(calls) > 1 {
		return ev.Failf(c.Via+":multiple-handlers", "%d handler calls, exactly one thing must happen (want %s #%d); %s", len(calls), outcomeName(c.Case, short, want), want, desc())
	}
	if len(calls) == 1 {
		got := calls[0].id
		if want < 0 {
			return ev.Failf(c.Via+":want:none got:"+outcomeName(c.Case, short, got), "handler #%d fired although no registration applies; %s", got, desc())
		}
		if got != want {
			if sameKey(c.Regs[got], c.Regs[want]) {
				return ev.Failf(c.Via+":replaced-handler-fired", "handler #%d fired, but the same key was registered again later as #%d; %s", got, want, desc())
			}
			return ev.Failf(c.Via+":want:"+outcomeName(c.Case, short, want)+" got:"+outcomeName(c.Case, short, got), "handler #%d (%s) fired instead of #%d (%s); %s",
				got, outcomeName(c.Case, short, got), want, outcomeName(c.Case, short, want), desc())
		}
		if calls[0].hbh != hbh || calls[0].code != c.Code || calls[0].app != c.App || calls[0].flags != c.Flags {
			return ev.Failf(c.Via+":handler-other-message", "handler #%d was called with a message other than the dispatched one (%+v); %s", got, calls[0], desc())
		}
		if reports != 0 {
			return ev.Failf(c.Via+":spurious-error-report", "handler #%d fired and an error report was offered as well (%v); %s", got, rep.Error, desc())
		}
		return nil
	}
	if want >= 0 {
		return ev.Failf(c.Via+":want:"+outcomeName(c.Case, short, want)+" got:none", "no handler fired (error reports offered: %d, connection closed: %v), want #%d (%s); %s", reports, gone, want, outcomeName(c.Case, short, want), desc())
	}
	if reports != 1 || rep == nil {
		return ev.Failf(c.Via+":missing-error-report", "no registration applies and no handler ran, but %d error reports were offered on the dispatcher's ErrorReports() instead of one; %s", reports, desc())
	}
	return nil
}

func regsJSON(r []Reg) string {
	var b strings.Builder
	b.WriteString("[")
	for i := range r {
		if i > 0 {
			b.WriteString(", ")
		}
		b.WriteString(describe(&r[i]))
	}
	b.WriteString("]")
	return b.String()
}

func classifyVia(c VCase) (bool, []string) {
	nt, cl := classify(c.Case)
	cl = append(cl, "via:"+c.Via)
	if c.Late {
		cl = append(cl, "registered-after-handshake")
	}
	return nt, cl
}

func hashVia(c VCase) uint64 {
	h := hashCase(c.Case)
	for _, b := range []byte(c.Via) {
		h = h*1099511628211 ^ uint64(b)
	}
	if c.Late {
		h = h*1099511628211 ^ 0x55
	}
	return h
}

// enumerateVia yields, for every message of the dictionary a dispatcher kind can receive, the
// assignments (bit k = registration kind k registered) listed in subsets, with the first
// neighbour of every kind that does not belong to the state machine.
func enumerateVia(dc gen.DictChoice, via string, subsets []int, late func(i int) bool, yield func(VCase) bool) int {
	_, cat, err := dc.Load()
	if err != nil {
		panic(err)
	}
	n := 0
	for _, ms := range messages(cat) {
		if isSM(via) && reservedCode(ms.code) {
			continue
		}
		for _, req := range []bool{true, false} {
			if isWire(via) && !wireReadable(cat, ms.app, ms.code, req) {
				continue
			}
			cand := candidates(cat, ms.app, ms.code, req)
			var first [8]*Reg
			for k := 0; k < 8; k++ {
				for i := range cand[k] {
					if !isSM(via) || !reservedReg(cand[k][i]) {
						first[k] = &cand[k][i]
						break
					}
				}
			}
			var flags uint8
			if req {
				flags = 0x80
			}
			for _, s := range subsets {
				c := VCase{Via: via, Late: late(n), Case: Case{Dict: dc, App: ms.app, Code: ms.code, Flags: flags}}
				for k := 0; k < 8; k++ {
					if s&(1<<k) != 0 && first[k] != nil {
						c.Regs = append(c.Regs, *first[k])
					}
				}
				n++
				if !yield(c) {
					return n
				}
			}
		}
	}
	return n
}

func allSubsets() []int {
	s := make([]int, 256)
	for i := range s {
		s[i] = i
	}
	return s
}

// coreSubsets: every subset of {own index, own name, ALL}, alone and with every neighbour kind
// registered.
func coreSubsets() []int {
	const own = 1<<kIdxOwn | 1<<kNameOwn | 1<<kALL
	var out []int
	for s := 0; s < 256; s++ {
		if neigh := s &^ own; neigh == 0 || neigh == 0xff&^own {
			out = append(out, s)
		}
	}
	return out
}

func genVia(t *rapid.T) VCase {
	var c VCase
	c.Via = rapid.SampledFrom(viaKinds).Draw(t, "via")
	c.Late = rapid.Bool().Draw(t, "late")
	if isSM(c.Via) {
		// a state machine needs the base dictionary (its CER / CEA) and owns CER, CEA, DWR, DWA
		dc := gen.DictChoice{Name: "default"}
		if rapid.Bool().Draw(t, "embedded-dict") {
			dc.Name = rapid.SampledFrom(gen.EmbeddedNames()).Draw(t, "dict-name")
		}
		c.Case = genCaseIn(t, &dc, func(cm gen.Cmd) bool { return !reservedCode(cm.Code) })
	} else {
		c.Case = genCase(t)
	}
	_, cat, err := loadDict(c.Dict)
	if err != nil {
		t.Fatalf("harness: %v", err)
	}
	if isWire(c.Via) && !wireReadable(cat, c.App, c.Code, c.req()) {
		// the dictionary lists no AVP rules for this direction: such a message cannot be read
		// from a connection, it can only be handed over in process
		if isSM(c.Via) {
			c.Via = viaSMDirect
		} else {
			c.Via = viaMux
		}
	}
	if isSM(c.Via) {
		keep := c.Regs[:0:0]
		for _, r := range c.Regs {
			if !reservedReg(r) {
				keep = append(keep, r)
			}
		}
		c.Regs = keep
	}
	return c
}

const ruleVia = "the decision table (oracle as in 'table': last index registration for the exact application/code/R bit, else last registration of the dictionary short name + R/A, else last catch-all, else no handler and one error report) through a dispatcher kind: mux-conn = a bare ServeMux serving an in-memory connection, sm-direct = a sm.StateMachine whose ServeDIAM is called in process with an acceptable CER and then with the message, sm-server = a sm.StateMachine serving an in-memory connection on which the peer completes CER/CEA first, sm-client = a sm.StateMachine behind sm.Client.NewConn whose CER the peer answers with a success CEA; handlers registered through the dispatcher's own Handle / HandleFunc / HandleIdx before the connection exists or after the exchange, reports read from the dispatcher's own ErrorReports() and emptied after every step (steps run one at a time: the harness waits for the reader to park); CER/CEA/DWR/DWA keys are kept out of messages and registrations on a state machine; "

var (
	propViaTable  = ev.Register(&ev.Prop[VCase]{ID: "C09", Name: "table-dispatchers", Rule: ruleVia + "EXHAUSTIVE over dict.Default for sm-direct: every resolvable (application, command) as in 'table' x R/A x every subset of the 8 registration kinds; for the three connection kinds: the same messages (directions the dictionary lists AVP rules for) x every subset of {own index, own name, ALL} alone and with all five neighbour kinds (quick) / every subset (thorough); non-trivial = at least two of {own index, own name, ALL} registered", Run: runVia, Classify: classifyVia, Hash: hashVia})
	propViaRandom = ev.Register(&ev.Prop[VCase]{ID: "C09", Name: "random-dispatchers", Rule: ruleVia + "random: a case of 'random' (embedded and generated dictionaries, neighbour keys, 1-3 registrations per kind in random order, other flag bits) through a random dispatcher kind; generated dictionaries go through mux-conn only (a state machine needs the base dictionary's CER)", Gen: genVia, Run: runVia, Classify: classifyVia, Hash: hashVia})
)

func TestC09TableDispatchers(t *testing.T) {
	counts := map[string]int{}
	propViaTable.Enumerate(t, true, func(yield func(VCase) bool) {
		stopped := false
		for _, via := range viaKinds {
			subsets := allSubsets()
			if via != viaSMDirect && !ev.Thorough() {
				subsets = coreSubsets()
			}
			counts[via] = enumerateVia(defaultDict, via, subsets, func(i int) bool { return i%3 == 2 }, func(c VCase) bool {
				stopped = stopped || !yield(c)
				return !stopped
			})
			if stopped {
				return
			}
		}
	})
	if t.Failed() {
		return
	}
	for _, via := range viaKinds {
		if counts[via] < 800 {
			t.Fatalf("harness: only %d cases enumerated for dispatcher kind %s", counts[via], via)
		}
	}
}

func TestC09RandomDispatchers(t *testing.T) { propViaRandom.Check(t, 2500, 60000) }
