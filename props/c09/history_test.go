package c09

import (
	"fmt"
	"testing"
	"time"

	"github.com/fiorix/go-diameter/v4/diam"
	"pgregory.net/rapid"

	"verif/internal/ev"
	"verif/internal/gen"
)

// Histories on ONE ServeMux: registrations and dispatches interleaved, so
// that anything the mux remembers between dispatches (a route cache, a
// resolved command) is exercised; and messages whose command the dictionary
// does NOT resolve, for which the statement still says "no other handler is
// ever called".

type HMsg struct {
	App   uint32 `json:"app"`
	Code  uint32 `json:"code"`
	Flags uint8  `json:"flags"`
}

type HOp struct {
	Reg *Reg  `json:"reg,omitempty"`
	Msg *HMsg `json:"msg,omitempty"`
}

type HCase struct {
	Ops []HOp `json:"ops"`
	// Reuse: every dispatch uses the SAME message object, whose header fields are rewritten for
	// each step (a relay rewriting a request, an application recycling its message) and which
	// is printed once before the first dispatch.
	Reuse bool `json:"reuse,omitempty"`
}

type modelMux struct {
	idx  map[Idx]int
	name map[string]int
	all  int
}

func runHistory(c HCase) *ev.Failure {
	p, cat, err := gen.DictChoice{Name: "default"}.Load()
	if err != nil {
		return ev.Failf("harness-dict", "%v", err)
	}
	mux := diam.NewServeMux()
	model := modelMux{idx: map[Idx]int{}, name: map[string]int{}, all: -1}
	var calls []call
	var reused *diam.Message
	for i, op := range c.Ops {
		if op.Reg != nil {
			r := *op.Reg
			h := &recHandler{id: i, calls: &calls}
			// the registration runs on its own goroutine so that a mux left locked by an earlier
			// step shows as a verdict instead of a hung test binary
			regDone := make(chan struct{})
			go func() {
				defer close(regDone)
				switch {
				case r.Idx != nil && r.Name == "ALL":
					// the catch-all through the index entry point: the same key as Handle("ALL")
					mux.HandleIdx(diam.ALL_CMD_INDEX, h)
				case r.Idx != nil:
					mux.HandleIdx(diam.CommandIndex{AppID: r.Idx.App, Code: r.Idx.Code, Request: r.Idx.Req}, h)
				case r.Func:
					mux.HandleFunc(r.Name, h.ServeDIAM)
				default:
					mux.Handle(r.Name, h)
				}
			}()
			select {
			case <-regDone:
			case <-time.After(10 * time.Second):
				return ev.Failf("history:registration-blocked", "step %d: registering %s did not return within 10 s although no handler is running: the mux was left locked by an earlier step", i, describe(op.Reg))
			}
			switch {
			case r.Idx != nil && r.Name == "ALL":
				model.all = i
			case r.Idx != nil:
				model.idx[*r.Idx] = i
			}
			if r.Idx == nil {
				if r.Name == "ALL" {
					model.all = i
				} else {
					model.name[r.Name] = i
				}
			}
			continue
		}
		msg := op.Msg
		req := msg.Flags&0x80 != 0
		for drained := false; !drained; {
			select {
			case <-mux.ErrorReports():
			default:
				drained = true
			}
		}
		calls = calls[:0]
		m := diam.NewMessage(msg.Code, msg.Flags, msg.App, 1, 2, p)
		if c.Reuse {
			if reused == nil {
				reused = m
				_ = reused.String()
			} else {
				reused.Header.CommandCode, reused.Header.CommandFlags, reused.Header.ApplicationID = msg.Code, msg.Flags, msg.App
			}
			m = reused
		}
		mux.ServeDIAM(&stubConn{d: p}, m)
		reports := 0
		for done := false; !done; {
			select {
			case <-mux.ErrorReports():
				reports++
			default:
				done = true
			}
		}
		desc := fmt.Sprintf("step %d: message app=%d code=%d flags=%#x", i, msg.App, msg.Code, msg.Flags)
		if len(calls) > 1 {
			return ev.Failf("history:multiple-handlers", "%s: %d handlers were called", desc, len(calls))
		}
		idxWant, hasIdx := model.idx[Idx{msg.App, msg.Code, req}]
		short, _, resolvable := shortOf(cat, msg.App, msg.Code)
		if !resolvable {
			// no dictionary short name exists: only the exact index handler or the catch-all may run
			if len(calls) == 1 {
				got := calls[0].id
				if !(hasIdx && got == idxWant) && got != model.all {
					return ev.Failf("history:unresolvable-command-wrong-handler", "%s: the dictionary defines command %d neither for application %d nor in the base application, yet the handler registered at step %d (%+v) was called (index handler: %v #%d, catch-all #%d)",
						desc, msg.Code, msg.App, got, describe(c.Ops[got].Reg), hasIdx, idxWant, model.all)
				}
			} else if model.all >= 0 {
				// a catch-all is registered: "failing that, the catch-all" - something must have run
				return ev.Failf("history:catch-all-skipped", "%s: the dictionary cannot name command %d for application %d, a catch-all is registered (step %d), yet no handler ran (%d error reports offered instead)", desc, msg.Code, msg.App, model.all, reports)
			} else if model.all < 0 && !hasIdx && reports != 1 {
				return ev.Failf("history:missing-error-report", "%s: nothing applies and no handler ran, but %d error reports were offered", desc, reports)
			}
			continue
		}
		want := -1
		switch {
		case hasIdx:
			want = idxWant
		default:
			if id, ok := model.name[short+letter(req)]; ok {
				want = id
			} else {
				want = model.all
			}
		}
		got := -1
		if len(calls) == 1 {
			got = calls[0].id
		}
		if got != want {
			sig := "history:wrong-handler"
			if got >= 0 && want >= 0 && sameKey(*c.Ops[got].Reg, *c.Ops[want].Reg) {
				sig = "history:replaced-handler-fired"
			}
			return ev.Failf(sig, "%s (short name %q): the handler registered at step %d (%s) was called, the decision table says step %d (%s)", desc, short, got, describeAt(c, got), want, describeAt(c, want))
		}
		if want < 0 && reports != 1 {
			return ev.Failf("history:missing-error-report", "%s: nothing applies and no handler ran, but %d error reports were offered", desc, reports)
		}
		if want >= 0 && reports != 0 {
			return ev.Failf("history:spurious-error-report", "%s: a handler ran and an error report was offered as well", desc)
		}
	}
	return nil
}

func describe(r *Reg) string {
	if r == nil {
		return "none"
	}
	if r.Idx != nil {
		return fmt.Sprintf("HandleIdx{app %d code %d req %v}", r.Idx.App, r.Idx.Code, r.Idx.Req)
	}
	return fmt.Sprintf("Handle(%q)", r.Name)
}

func describeAt(c HCase, i int) string {
	if i < 0 {
		return "no handler"
	}
	return describe(c.Ops[i].Reg)
}

// the message alphabet: every resolvable (application, command) pair of
// dict.Default and every pair of a listed application with a command that
// only OTHER applications define (unresolvable by "application, then base")
func historyAlphabet(cat *gen.Catalog) (res, unres []HMsg) {
	codes := map[uint32]bool{}
	for _, c := range cat.Cmds {
		codes[c.Code] = true
	}
	for _, app := range cat.Apps {
		for code := range codes {
			if _, _, ok := shortOf(cat, app, code); ok {
				res = append(res, HMsg{App: app, Code: code})
			} else {
				unres = append(unres, HMsg{App: app, Code: code})
			}
		}
	}
	sortMsgs(res)
	sortMsgs(unres)
	return
}

func sortMsgs(m []HMsg) {
	for i := 1; i < len(m); i++ {
		for j := i; j > 0 && (m[j].App < m[j-1].App || m[j].App == m[j-1].App && m[j].Code < m[j-1].Code); j-- {
			m[j], m[j-1] = m[j-1], m[j]
		}
	}
}

func genHistory(t *rapid.T) HCase {
	_, cat, err := gen.DictChoice{Name: "default"}.Load()
	if err != nil {
		t.Fatalf("harness: %v", err)
	}
	res, unres := historyAlphabet(cat)
	// a small working set so that keys collide: 2 messages and their neighbours
	pick := func(label string) HMsg {
		if len(unres) > 0 && rapid.IntRange(0, 3).Draw(t, label+"-unresolvable") == 0 {
			return rapid.SampledFrom(unres).Draw(t, label)
		}
		return rapid.SampledFrom(res).Draw(t, label)
	}
	focus := []HMsg{pick("m0"), pick("m1")}
	var c HCase
	n := rapid.IntRange(2, 14).Draw(t, "ops")
	for i := 0; i < n; i++ {
		f := focus[rapid.IntRange(0, 1).Draw(t, "focus")]
		req := rapid.Bool().Draw(t, "req")
		if rapid.IntRange(0, 2).Draw(t, "dispatch") != 0 {
			fl := uint8(0)
			if req {
				fl = 0x80
			}
			c.Ops = append(c.Ops, HOp{Msg: &HMsg{App: f.App, Code: f.Code, Flags: fl | rapid.SampledFrom([]uint8{0, 0x40, 0x10}).Draw(t, "other-flags")}})
			continue
		}
		var r Reg
		switch rapid.IntRange(0, 6).Draw(t, "reg-kind") {
		case 6:
			// an index at the edge of what a header can carry (the relay application id, the
			// largest 24-bit command code ...): no message of the history has it, so it must
			// not change how any of them is dispatched
			e := rapid.SampledFrom([]Idx{{0xffffffff, 0xffffff, false}, {0xffffffff, 0xffffff, true}, {0xffffffff, 0, false}, {0xfffffffe, 0xffffff, false},
				{0, 0xffffff, false}, {0xffffffff, 257, true}}).Draw(t, "edge-index")
			r.Idx = &e
		case 0, 1:
			r.Idx = &Idx{App: f.App, Code: f.Code, Req: req}
		case 2, 3:
			name := "XX"
			if s, _, ok := shortOf(cat, f.App, f.Code); ok {
				name = s
			} else {
				// the name some OTHER application gives to this code
				for _, cm := range cat.Cmds {
					if cm.Code == f.Code {
						name = cm.Short
					}
				}
			}
			r.Name = name + letter(req)
			r.Func = rapid.Bool().Draw(t, "func")
		default:
			r.Name = "ALL"
			switch rapid.IntRange(0, 2).Draw(t, "all-entry-point") {
			case 0:
				r.Func = true
			case 1:
				r.Idx = &Idx{App: 0xffffffff, Code: 0xffffffff} // marker: HandleIdx(diam.ALL_CMD_INDEX)
			}
		}
		c.Ops = append(c.Ops, HOp{Reg: &r})
	}
	c.Reuse = rapid.IntRange(0, 3).Draw(t, "reuse-message") == 0
	return c
}

var history = ev.Register(&ev.Prop[HCase]{
	ID: "C09", Name: "history",
	Rule: "histories of registrations (index / short name / ALL, through Handle, HandleFunc, HandleIdx, re-registrations included) interleaved with dispatches on ONE ServeMux over dict.Default, for a working set of two (application, command) keys and their R/A variants; a quarter of the keys are commands that only other applications define (unresolvable by 'application, then base'): for those only the exact index handler or the catch-all may run; non-trivial = a dispatch, then a registration, then another dispatch",
	Gen:  genHistory, Run: runHistory,
	Classify: func(c HCase) (bool, []string) {
		_, cat, _ := gen.DictChoice{Name: "default"}.Load()
		state := 0
		var cl []string
		seen := map[string]bool{}
		add := func(s string) {
			if !seen[s] {
				seen[s] = true
				cl = append(cl, s)
			}
		}
		for _, op := range c.Ops {
			switch {
			case op.Msg != nil && state == 0:
				state = 1
			case op.Reg != nil && state == 1:
				state = 2
			case op.Msg != nil && state == 2:
				state = 3
			}
			if op.Msg != nil {
				if _, _, ok := shortOf(cat, op.Msg.App, op.Msg.Code); !ok {
					add("dispatch-unresolvable-command")
				}
			}
			if op.Reg != nil && op.Reg.Name == "ALL" && state >= 1 {
				add("ALL-registered-after-a-dispatch")
			}
		}
		if state == 3 {
			add("dispatch-register-dispatch")
		}
		return state == 3, cl
	},
})

func TestC09History(t *testing.T) { history.Check(t, 4000, 150000) }

// every unresolvable (listed application, foreign command) pair against every single registration kind
func TestC09Unresolvable(t *testing.T) {
	_, cat, err := gen.DictChoice{Name: "default"}.Load()
	if err != nil {
		t.Fatal(err)
	}
	_, unres := historyAlphabet(cat)
	history.Enumerate(t, true, func(yield func(HCase) bool) {
		for _, m := range unres {
			for _, req := range []bool{true, false} {
				fl := uint8(0)
				if req {
					fl = 0x80
				}
				var names []string
				for _, cm := range cat.Cmds {
					if cm.Code == m.Code {
						names = append(names, cm.Short+letter(req))
					}
				}
				regs := [][]Reg{nil, {{Name: "ALL"}}, {{Idx: &Idx{m.App, m.Code, req}}}}
				for _, n := range names {
					regs = append(regs, []Reg{{Name: n}}, []Reg{{Name: n}, {Name: "ALL"}})
				}
				for _, rs := range regs {
					var c HCase
					for i := range rs {
						c.Ops = append(c.Ops, HOp{Reg: &rs[i]})
					}
					c.Ops = append(c.Ops, HOp{Msg: &HMsg{App: m.App, Code: m.Code, Flags: fl}})
					if !yield(c) {
						return
					}
				}
			}
		}
	})
}
