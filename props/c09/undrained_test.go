package c09

import (
	"bytes"
	"fmt"
	"testing"
	"time"

	"github.com/fiorix/go-diameter/v4/diam"
	"github.com/fiorix/go-diameter/v4/diam/dict"

	"verif/internal/ev"
	"verif/internal/memnet"
	"verif/internal/refcodec"
)

// "No handler runs and an error report is OFFERED": an application that does not read the
// ErrorReports channel (most do not) still gets its registered handlers called. Several messages
// without a handler in a row, nobody receiving from ErrorReports, then a message that has one.

type UndrainedCase struct {
	Unhandled int    `json:"unhandled"` // messages without a handler, sent first
	Via       string `json:"via"`       // conn: through a served connection | direct: ServeDIAM called in process
}

func runUndrained(c UndrainedCase) *ev.Failure {
	mux := diam.NewServeMux() // its ErrorReports are never read in this case
	called := make(chan uint32, 8)
	mux.HandleFunc("DWR", func(cn diam.Conn, m *diam.Message) { called <- m.Header.HopByHopID })
	acr := func(i int) []byte {
		return refcodec.EncodeMessage(refcodec.Header{Version: 1, Flags: 0x80, Code: 271, HopByHop: uint32(10 + i), EndToEnd: 1},
			[]*refcodec.Node{{Code: 263, Flags: 0x40, Payload: []byte("s;1")}}, false)
	}
	dwr := refcodec.EncodeMessage(refcodec.Header{Version: 1, Flags: 0x80, Code: 280, HopByHop: 99, EndToEnd: 1},
		[]*refcodec.Node{{Code: 264, Flags: 0x40, Payload: []byte("peer.example")}, {Code: 296, Flags: 0x40, Payload: []byte("example")}}, false)
	desc := fmt.Sprintf("%d messages without a handler in a row, nobody receiving from ErrorReports, then a DWR whose handler is registered by name (%s)", c.Unhandled, c.Via)
	if c.Via == "conn" {
		mc := memnet.NewConn()
		if _, err := diam.NewConn(mc, "", mux, dict.Default); err != nil {
			return ev.Failf("harness-conn", "%v", err)
		}
		defer func() { mc.FeedEOF(); mc.WaitClosed(2 * time.Second); mc.Close() }()
		for i := 0; i < c.Unhandled; i++ {
			mc.Feed(acr(i))
		}
		mc.Feed(dwr)
	} else {
		done := make(chan struct{})
		go func() {
			defer close(done)
			cn := &stubConn{d: dict.Default}
			for i := 0; i < c.Unhandled; i++ {
				m, err := diam.ReadMessage(bytes.NewReader(acr(i)), dict.Default)
				if err != nil {
					return
				}
				mux.ServeDIAM(cn, m)
			}
			if m, err := diam.ReadMessage(bytes.NewReader(dwr), dict.Default); err == nil {
				mux.ServeDIAM(cn, m)
			}
		}()
		defer func() {
			select {
			case <-done:
			case <-time.After(100 * time.Millisecond):
			}
		}()
	}
	select {
	case hbh := <-called:
		if hbh != 99 {
			return ev.Failf("undrained:wrong-message", "%s: the handler was called for hop-by-hop id %d", desc, hbh)
		}
	case <-time.After(3 * time.Second):
		return ev.Failf("undrained:registered-handler-not-called", "%s: the registered handler was not called within 3 s", desc)
	}
	// the report that was offered first is still there for whoever asks later
	select {
	case r := <-mux.ErrorReports():
		if r == nil || r.Message == nil || r.Message.Header.CommandCode != 271 {
			return ev.Failf("undrained:report-differs", "%s: the pending error report does not concern one of the unhandled messages: %+v", desc, r)
		}
	case <-time.After(time.Second):
		return ev.Failf("history:missing-error-report", "%s: no error report was offered for the messages without a handler", desc)
	}
	return nil
}

var undrainedProp = ev.Register(&ev.Prop[UndrainedCase]{
	ID: "C09", Name: "error-reports-nobody-reads",
	Rule: "a ServeMux with one handler (DWR, by name) whose ErrorReports channel nobody reads; 1..4 accounting requests without a handler, then a DWR, through a served in-memory connection or by calling ServeDIAM in process. Demanded: the DWR handler is called within 3 s, and a report about an unhandled message is waiting in ErrorReports afterwards. non-trivial = two or more unhandled messages",
	Run:  runUndrained,
	Classify: func(c UndrainedCase) (bool, []string) {
		return c.Unhandled >= 2, []string{"via:" + c.Via, fmt.Sprintf("unhandled:%d", c.Unhandled)}
	},
})

func TestC09ErrorReportsNobodyReads(t *testing.T) {
	undrainedProp.Enumerate(t, true, func(yield func(UndrainedCase) bool) {
		for _, via := range []string{"conn", "direct"} {
			for n := 1; n <= 4; n++ {
				if !yield(UndrainedCase{Unhandled: n, Via: via}) {
					return
				}
			}
		}
	})
}
