package c09

import (
	"fmt"
	"sync"
	"sync/atomic"
	"testing"

	"github.com/fiorix/go-diameter/v4/diam"
	"pgregory.net/rapid"

	"verif/internal/ev"
	"verif/internal/gen"
)

// One ServeMux serves all the connections of a server, each on its own goroutine: the dispatch
// decision for a message must not depend on what other goroutines dispatch at the same moment.
// Every goroutine sends messages of its own (application, command, direction) and counts where
// they end up.

type CCase struct {
	Goroutines int  `json:"goroutines"`
	PerG       int  `json:"per_goroutine"`
	CatchAll   bool `json:"catch_all"`
	Index      int  `json:"index"` // every Index-th command (0: none) is registered by index instead of by name
	// ConcReg: the handlers are registered by as many goroutines at the same time (every one also
	// registers 20 index keys nobody uses), as several Dial calls sharing one state machine do;
	// the dispatching starts when all registrations have returned.
	ConcReg bool `json:"conc_reg,omitempty"`
}

type target struct {
	app, code uint32
	req       bool
	name      string
}

func concurrentTargets() []target {
	_, cat, _ := gen.DictChoice{Name: "default"}.Load()
	var out []target
	seen := map[string]bool{}
	for _, cm := range cat.Cmds {
		for _, req := range []bool{true, false} {
			if req && !cm.HasReq {
				continue
			}
			short, _, ok := shortOf(cat, cm.App, cm.Code)
			if !ok {
				continue
			}
			name := short + "A"
			if req {
				name = short + "R"
			}
			if seen[name] {
				continue
			}
			seen[name] = true
			out = append(out, target{cm.App, cm.Code, req, name})
		}
	}
	return out
}

type countHandler struct {
	own  string
	hits *sync.Map // message name -> *int64, per handler
}

func runConcurrentDispatch(c CCase) *ev.Failure {
	p, _, err := gen.DictChoice{Name: "default"}.Load()
	if err != nil {
		return ev.Failf("harness-dict", "%v", err)
	}
	ts := concurrentTargets()
	if len(ts) > c.Goroutines {
		ts = ts[:c.Goroutines]
	}
	mux := diam.NewServeMux()
	var wrong, catchAll, reports int64
	var firstWrong atomic.Value
	var regs sync.WaitGroup
	regStart := make(chan struct{})
	for i, tg := range ts {
		i, tg := i, tg
		h := diam.HandlerFunc(func(_ diam.Conn, m *diam.Message) {
			if m.Header.CommandCode != tg.code || (m.Header.CommandFlags&0x80 != 0) != tg.req {
				if atomic.AddInt64(&wrong, 1) == 1 {
					firstWrong.Store(fmt.Sprintf("the handler registered for %s (code %d) was called with a message of command code %d, flags %#x", tg.name, tg.code, m.Header.CommandCode, m.Header.CommandFlags))
				}
			}
		})
		register := func() {
			if c.Index > 0 && i%c.Index == 0 {
				mux.HandleIdx(diam.CommandIndex{AppID: tg.app, Code: tg.code, Request: tg.req}, h)
			} else {
				mux.Handle(tg.name, h)
			}
		}
		if !c.ConcReg {
			register()
			continue
		}
		regs.Add(1)
		go func() {
			defer regs.Done()
			<-regStart
			for k := 0; k < 10; k++ {
				mux.HandleIdx(diam.CommandIndex{AppID: uint32(900000 + i), Code: uint32(k), Request: true}, h)
			}
			register()
			for k := 10; k < 20; k++ {
				mux.HandleIdx(diam.CommandIndex{AppID: uint32(900000 + i), Code: uint32(k), Request: true}, h)
			}
		}()
	}
	close(regStart)
	regs.Wait()
	if c.CatchAll {
		mux.HandleFunc("ALL", func(diam.Conn, *diam.Message) { atomic.AddInt64(&catchAll, 1) })
	}
	stop := make(chan struct{})
	var drain sync.WaitGroup
	drain.Add(1)
	go func() {
		defer drain.Done()
		for {
			select {
			case <-mux.ErrorReports():
				atomic.AddInt64(&reports, 1)
			case <-stop:
				return
			}
		}
	}()
	start := make(chan struct{})
	var wg sync.WaitGroup
	for _, tg := range ts {
		wg.Add(1)
		go func(tg target) {
			defer wg.Done()
			flags := uint8(0)
			if tg.req {
				flags = 0x80
			}
			conn := &stubConn{d: p}
			<-start
			for k := 0; k < c.PerG; k++ {
				mux.ServeDIAM(conn, diam.NewMessage(tg.code, flags, tg.app, uint32(k), 2, p))
			}
		}(tg)
	}
	close(start)
	wg.Wait()
	close(stop)
	drain.Wait()
	if n := atomic.LoadInt64(&wrong); n > 0 {
		return ev.Failf("concurrent:wrong-handler", "%d goroutines dispatching %d messages each through one mux: %d messages reached the handler of another command (%v)", len(ts), c.PerG, n, firstWrong.Load())
	}
	if n := atomic.LoadInt64(&catchAll); n > 0 {
		return ev.Failf("concurrent:catch-all-instead-of-handler", "%d goroutines dispatching through one mux: %d messages went to the catch-all although a handler is registered for every command sent (registered concurrently: %v)", len(ts), n, c.ConcReg)
	}
	if n := atomic.LoadInt64(&reports); n > 0 {
		return ev.Failf("concurrent:error-report-instead-of-handler", "%d goroutines dispatching through one mux: at least %d messages ended in an error report although a handler is registered for every command sent (registered concurrently: %v)", len(ts), n, c.ConcReg)
	}
	return nil
}

var concurrentProp = ev.Register(&ev.Prop[CCase]{
	ID: "C09", Name: "concurrent-dispatch",
	Rule: "2..12 goroutines dispatch 500..4000 messages each, every goroutine its own (application, command, direction) of dict.Default, through ONE ServeMux on which each of those commands has a handler by name (every k-th by index), registered one after the other or by as many goroutines at once (each registering 20 unused index keys as well), with or without a catch-all; every message must reach the handler of its own command, none the catch-all or an error report; non-trivial = >= 4 goroutines",
	Gen: func(t *rapid.T) CCase {
		return CCase{Goroutines: rapid.IntRange(2, 12).Draw(t, "goroutines"), PerG: rapid.SampledFrom([]int{500, 1000, 4000}).Draw(t, "per-goroutine"),
			CatchAll: rapid.Bool().Draw(t, "catch-all"), Index: rapid.SampledFrom([]int{0, 0, 2, 3}).Draw(t, "index"), ConcReg: rapid.Bool().Draw(t, "registered-concurrently")}
	},
	Run: runConcurrentDispatch,
	Classify: func(c CCase) (bool, []string) {
		return c.Goroutines >= 4, []string{fmt.Sprintf("goroutines:%d", c.Goroutines), fmt.Sprintf("registered-concurrently:%v", c.ConcReg)}
	},
})

func TestC09Concurrent(t *testing.T) { concurrentProp.Check(t, 40, 1500) }
