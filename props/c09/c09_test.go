// C09 - Dispatch selects the handler by index, then by name, then the
// catch-all.
//
// No network: a fresh diam.ServeMux per case, a stub diam.Conn, instrumented
// handlers (handler id = position in the registration sequence). Oracle: a
// reference decision table computed from the case alone - the last handler
// registered for the message's exact (application, code, R bit), else the
// last one registered under the command's dictionary short name + R/A (short
// name taken from the dictionary's own application list: the message's
// application if it defines the code, else the base application), else the
// last catch-all, else no handler and one error report.
package c09

import (
	"context"
	"crypto/tls"
	"encoding/binary"
	"encoding/json"
	"fmt"
	"hash/fnv"
	"net"
	"sync"
	"testing"

	"github.com/fiorix/go-diameter/v4/diam"
	"github.com/fiorix/go-diameter/v4/diam/dict"
	"pgregory.net/rapid"

	"verif/internal/ev"
	"verif/internal/gen"
)

// ---------------------------------------------------------------------------
// case

// Idx is an index registration key.
type Idx struct {
	App  uint32 `json:"app"`
	Code uint32 `json:"code"`
	Req  bool   `json:"req"`
}

// Reg is one registration; its handler id is its position in Case.Regs.
type Reg struct {
	Idx  *Idx   `json:"idx,omitempty"`  // HandleIdx(key)
	Name string `json:"name,omitempty"` // Handle(name); "ALL" is the catch-all
	Func bool   `json:"func,omitempty"` // through HandleFunc instead of Handle
}

// Case is one dispatch: a dictionary, a message header and a registration
// sequence executed in order on a fresh ServeMux.
type Case struct {
	Dict  gen.DictChoice `json:"dict"`
	App   uint32         `json:"app"`
	Code  uint32         `json:"code"`
	Flags uint8          `json:"flags"`
	Regs  []Reg          `json:"regs"`
}

func (c Case) req() bool { return c.Flags&0x80 != 0 }

const (
	kIdxOwn = iota
	kIdxOtherApp
	kIdxOtherCode
	kIdxRFlipped
	kNameOwn
	kNameOtherLetter
	kNameOtherCmd
	kALL
	kFar // anything else (random test only)
	nKinds
)

var kindNames = [nKinds]string{"idx-own", "idx-other-app", "idx-other-code", "idx-R-flipped",
	"name-own", "name-other-letter", "name-other-cmd", "ALL", "far"}

func letter(req bool) string {
	if req {
		return "R"
	}
	return "A"
}

// kindOf classifies a registration relative to the message.
func (c Case) kindOf(r Reg, short string) int {
	if r.Idx != nil {
		sa, sc, sr := r.Idx.App == c.App, r.Idx.Code == c.Code, r.Idx.Req == c.req()
		switch {
		case sa && sc && sr:
			return kIdxOwn
		case !sa && sc && sr:
			return kIdxOtherApp
		case sa && !sc && sr:
			return kIdxOtherCode
		case sa && sc && !sr:
			return kIdxRFlipped
		}
		return kFar
	}
	switch r.Name {
	case "ALL":
		return kALL
	case short + letter(c.req()):
		return kNameOwn
	case short + letter(!c.req()):
		return kNameOtherLetter
	}
	return kNameOtherCmd
}

// ---------------------------------------------------------------------------
// dictionary access (independent of FindCommand: reads the application list)

var (
	dictMu    sync.Mutex
	lastXML   string
	lastP     *dict.Parser
	lastCat   *gen.Catalog
	lastError error
)

// loadDict is DictChoice.Load with a one-entry cache for generated
// dictionaries (Classify and Run load the same one back to back). Parsers
// are never mutated after loading.
func loadDict(d gen.DictChoice) (*dict.Parser, *gen.Catalog, error) {
	if d.Gen == nil {
		return d.Load()
	}
	x := d.Gen.XML()
	dictMu.Lock()
	defer dictMu.Unlock()
	if x != lastXML || lastP == nil && lastError == nil {
		lastXML = x
		lastP, lastCat, lastError = d.Load()
	}
	return lastP, lastCat, lastError
}

// shortOf returns the dictionary short name of command code in a message of
// application app: the application's own definition, else the base one.
func shortOf(cat *gen.Catalog, app, code uint32) (short string, defApp uint32, ok bool) {
	for _, c := range cat.Cmds {
		if c.App == app && c.Code == code {
			return c.Short, app, true
		}
	}
	for _, c := range cat.Cmds {
		if c.App == 0 && c.Code == code {
			return c.Short, 0, true
		}
	}
	return "", 0, false
}

func defines(cat *gen.Catalog, app, code uint32) bool {
	for _, c := range cat.Cmds {
		if c.App == app && c.Code == code {
			return true
		}
	}
	return false
}

func listed(cat *gen.Catalog, app uint32) bool {
	for _, a := range cat.Apps {
		if a == app {
			return true
		}
	}
	return false
}

// ---------------------------------------------------------------------------
// oracle

// expected returns the id of the single handler that must fire, or -1.
func expected(c Case, short string) int {
	last := func(kind int) int {
		for i := len(c.Regs) - 1; i >= 0; i-- {
			if c.kindOf(c.Regs[i], short) == kind {
				return i
			}
		}
		return -1
	}
	for _, k := range []int{kIdxOwn, kNameOwn, kALL} {
		if i := last(k); i >= 0 {
			return i
		}
	}
	return -1
}

func sameKey(a, b Reg) bool {
	if (a.Idx != nil) != (b.Idx != nil) {
		return false
	}
	if a.Idx != nil {
		return *a.Idx == *b.Idx
	}
	return a.Name == b.Name
}

type stubConn struct {
	d   *dict.Parser
	ctx context.Context
}

type stubAddr struct{}

func (stubAddr) Network() string { return "stub" }
func (stubAddr) String() string  { return "stub" }

func (s *stubConn) Write(b []byte) (int, error)                    { return len(b), nil }
func (s *stubConn) WriteStream(b []byte, stream uint) (int, error) { return len(b), nil }
func (s *stubConn) Close()                                         {}
func (s *stubConn) LocalAddr() net.Addr                            { return stubAddr{} }
func (s *stubConn) RemoteAddr() net.Addr                           { return stubAddr{} }
func (s *stubConn) TLS() *tls.ConnectionState                      { return nil }
func (s *stubConn) Dictionary() *dict.Parser                       { return s.d }
func (s *stubConn) Context() context.Context {
	if s.ctx == nil {
		return context.Background()
	}
	return s.ctx
}
func (s *stubConn) SetContext(ctx context.Context) { s.ctx = ctx }
func (s *stubConn) Connection() net.Conn           { return nil }

type call struct {
	id      int
	sameMsg bool
}

type recHandler struct {
	id    int
	m     *diam.Message
	calls *[]call
}

func (h *recHandler) ServeDIAM(c diam.Conn, m *diam.Message) {
	*h.calls = append(*h.calls, call{h.id, m == h.m})
}

func outcomeName(c Case, short string, id int) string {
	if id < 0 {
		return "none"
	}
	return kindNames[c.kindOf(c.Regs[id], short)]
}

func runCase(c Case) *ev.Failure {
	p, cat, err := loadDict(c.Dict)
	if err != nil {
		return ev.Failf("harness-dict", "%v", err)
	}
	short, _, ok := shortOf(cat, c.App, c.Code)
	if !ok {
		return nil // the statement orders only messages whose command the dictionary resolves
	}
	want := expected(c, short)

	// a fresh mux, and nobody has asked for its ErrorReports channel yet: a report offered now must
	// still be there when the channel is looked at after the dispatch
	mux := diam.NewServeMux()
	m := diam.NewMessage(c.Code, c.Flags, c.App, 1, 2, p)
	var calls []call
	for i, r := range c.Regs {
		h := &recHandler{id: i, m: m, calls: &calls}
		switch {
		case r.Idx != nil:
			mux.HandleIdx(diam.CommandIndex{AppID: r.Idx.App, Code: r.Idx.Code, Request: r.Idx.Req}, h)
		case r.Func:
			mux.HandleFunc(r.Name, h.ServeDIAM)
		default:
			mux.Handle(r.Name, h)
		}
	}
	mux.ServeDIAM(&stubConn{d: p}, m)
	reports := 0
	var rep *diam.ErrorReport
	for done := false; !done; {
		select {
		case rep = <-mux.ErrorReports():
			reports++
		default:
			done = true
		}
	}

	desc := func() string {
		b, _ := json.Marshal(c.Regs)
		return fmt.Sprintf("message app=%d code=%d flags=%#x (short name %q, key %s%s); registrations in order %s",
			c.App, c.Code, c.Flags, short, short, letter(c.req()), b)
	}
	if len(calls) > 1 {
		return ev.Failf("multiple-handlers", "%d handler calls %v, exactly one thing must happen (want %s #%d); %s", len(calls), calls, outcomeName(c, short, want), want, desc())
	}
	if len(calls) == 1 {
		got := calls[0].id
		if want < 0 {
			return ev.Failf("want:none got:"+outcomeName(c, short, got), "handler #%d fired although no registration applies; %s", got, desc())
		}
		if got != want {
			if sameKey(c.Regs[got], c.Regs[want]) {
				return ev.Failf("replaced-handler-fired", "handler #%d fired, but the same key was registered again later as #%d; %s", got, want, desc())
			}
			return ev.Failf("want:"+outcomeName(c, short, want)+" got:"+outcomeName(c, short, got), "handler #%d (%s) fired instead of #%d (%s); %s",
				got, outcomeName(c, short, got), want, outcomeName(c, short, want), desc())
		}
		if !calls[0].sameMsg {
			return ev.Failf("handler-other-message", "handler #%d was called with a message other than the dispatched one; %s", got, desc())
		}
		if reports != 0 {
			return ev.Failf("spurious-error-report", "handler #%d fired and an error report was offered as well (%v); %s", got, rep.Error, desc())
		}
		return nil
	}
	// no handler ran
	if want >= 0 {
		return ev.Failf("want:"+outcomeName(c, short, want)+" got:none", "no handler fired (error reports offered: %d), want #%d (%s); %s", reports, want, outcomeName(c, short, want), desc())
	}
	if reports != 1 || rep == nil {
		return ev.Failf("missing-error-report", "no registration applies and no handler ran, but %d error reports were offered instead of one; %s", reports, desc())
	}
	return nil
}

// ---------------------------------------------------------------------------
// measuring

func classify(c Case) (bool, []string) {
	_, cat, err := loadDict(c.Dict)
	if err != nil {
		return false, []string{"dict-load-error"}
	}
	short, defApp, ok := shortOf(cat, c.App, c.Code)
	if !ok {
		return false, []string{"unresolved-command"}
	}
	var count [nKinds]int
	for _, r := range c.Regs {
		count[c.kindOf(r, short)]++
	}
	applicable := 0
	for _, k := range []int{kIdxOwn, kNameOwn, kALL} {
		if count[k] > 0 {
			applicable++
		}
	}
	want := expected(c, short)
	cl := make([]string, 0, 10)
	cl = append(cl, "fires:"+outcomeName(c, short, want), "msg:"+letter(c.req()), fmt.Sprintf("applicable=%d", applicable))
	switch {
	case defApp == c.App && c.App == 0:
		cl = append(cl, "app:base-defining")
	case defApp == c.App:
		cl = append(cl, "app:defining")
	case listed(cat, c.App):
		cl = append(cl, "app:fallback-listed")
	default:
		cl = append(cl, "app:fallback-unlisted")
	}
	neigh, repl := 0, false
	for k := 0; k < nKinds; k++ {
		if k != kIdxOwn && k != kNameOwn && k != kALL && count[k] > 0 {
			neigh++
		}
	}
	for i, r := range c.Regs {
		for _, q := range c.Regs[:i] {
			if sameKey(r, q) {
				repl = true
			}
		}
	}
	if neigh > 0 {
		cl = append(cl, "neighbour-registered")
	}
	if neigh > 0 && want < 0 {
		cl = append(cl, "only-neighbours")
	}
	if repl {
		cl = append(cl, "replace:some-key")
	}
	if want >= 0 && count[c.kindOf(c.Regs[want], short)] > 1 {
		cl = append(cl, "replace:winning-key")
	}
	if c.Flags&0x7f != 0 {
		cl = append(cl, "other-flag-bits")
	}
	if c.Dict.Name != "default" {
		cl = append(cl, "dict:"+c.Dict.Name)
	}
	return applicable >= 2, cl
}

func hashCase(c Case) uint64 {
	h := fnv.New64a()
	h.Write([]byte(c.Dict.Name))
	if c.Dict.Gen != nil {
		h.Write([]byte(c.Dict.Gen.XML()))
	}
	var b [10]byte
	binary.BigEndian.PutUint32(b[0:], c.App)
	binary.BigEndian.PutUint32(b[4:], c.Code)
	b[8] = c.Flags
	h.Write(b[:9])
	for _, r := range c.Regs {
		if r.Idx != nil {
			binary.BigEndian.PutUint32(b[0:], r.Idx.App)
			binary.BigEndian.PutUint32(b[4:], r.Idx.Code)
			b[8] = 2
			if r.Idx.Req {
				b[8] = 3
			}
			h.Write(b[:9])
		} else {
			h.Write([]byte{0})
			h.Write([]byte(r.Name))
			if r.Func {
				h.Write([]byte{1})
			}
			h.Write([]byte{0xff})
		}
	}
	return h.Sum64()
}

// ---------------------------------------------------------------------------
// the neighbourhood of a message

// unlistedApps are application ids looked for outside the dictionary.
var unlistedApps = []uint32{999, 0xffffffff, 0xfffffffe, 2, 77777}

// candidates lists, per registration kind, the concrete keys that stand in
// that relation to the message; the first one is the canonical neighbour
// used by the exhaustive enumeration.
func candidates(cat *gen.Catalog, app, code uint32, req bool) (out [nKinds][]Reg) {
	short, defApp, _ := shortOf(cat, app, code)
	idx := func(a, c uint32, r bool) Reg { return Reg{Idx: &Idx{App: a, Code: c, Req: r}} }
	out[kIdxOwn] = []Reg{idx(app, code, req)}
	// other application: first the application whose definition resolved the
	// command (the base one when the message fell back), then applications
	// that define the same code, then any listed one, then unlisted ones
	seenApp := map[uint32]bool{app: true}
	addApp := func(a uint32) {
		if !seenApp[a] {
			seenApp[a] = true
			out[kIdxOtherApp] = append(out[kIdxOtherApp], idx(a, code, req))
		}
	}
	addApp(defApp)
	for _, c := range cat.Cmds {
		if c.Code == code {
			addApp(c.App)
		}
	}
	addApp(0)
	for _, a := range cat.Apps {
		addApp(a)
	}
	for _, a := range unlistedApps {
		addApp(a)
	}
	// other code / other command name: commands of the same application
	// first, then the others, then codes the dictionary does not define
	seenCode := map[uint32]bool{code: true}
	seenShort := map[string]bool{short: true}
	addCmd := func(c gen.Cmd) {
		if !seenCode[c.Code] {
			seenCode[c.Code] = true
			out[kIdxOtherCode] = append(out[kIdxOtherCode], idx(app, c.Code, req))
		}
		if !seenShort[c.Short] {
			seenShort[c.Short] = true
			out[kNameOtherCmd] = append(out[kNameOtherCmd], Reg{Name: c.Short + letter(req)}, Reg{Name: c.Short + letter(!req)})
		}
	}
	for _, c := range cat.Cmds {
		if c.App == defApp {
			addCmd(c)
		}
	}
	for _, c := range cat.Cmds {
		addCmd(c)
	}
	for _, d := range []uint32{code + 1, code - 1, 0, 0xffffff} {
		addCmd(gen.Cmd{Code: d, Short: short}) // codes only
	}
	out[kNameOtherCmd] = append(out[kNameOtherCmd], Reg{Name: short}, Reg{Name: letter(req)}, Reg{Name: "all"}, Reg{Name: short + letter(req) + letter(req)})
	out[kIdxRFlipped] = []Reg{idx(app, code, !req)}
	out[kNameOwn] = []Reg{{Name: short + letter(req)}}
	out[kNameOtherLetter] = []Reg{{Name: short + letter(!req)}}
	out[kALL] = []Reg{{Name: "ALL"}}
	// far keys: differ in two coordinates
	if len(out[kIdxOtherApp]) > 0 {
		oa := out[kIdxOtherApp][0].Idx.App
		out[kFar] = append(out[kFar], idx(oa, code, !req))
		if len(out[kIdxOtherCode]) > 0 {
			out[kFar] = append(out[kFar], idx(oa, out[kIdxOtherCode][0].Idx.Code, req))
		}
	}
	out[kFar] = append(out[kFar], idx(0xffffffff, code, false), idx(app, 0xffffffff, false))
	// never the catch-all's own index key, never a name that is not "other"
	for k := range out {
		keep := out[k][:0]
		for _, r := range out[k] {
			if r.Idx != nil && r.Idx.App == 0xffffffff && r.Idx.Code == 0xffffffff {
				continue
			}
			keep = append(keep, r)
		}
		out[k] = keep
	}
	return out
}

type msgSpec struct {
	app, code uint32
}

// messages lists every (application, code) the exhaustive tests dispatch:
// each command in each application defining it and, for commands the base
// application defines, one listed application that does not define the code
// and two application ids the dictionary does not list at all.
func messages(cat *gen.Catalog) []msgSpec {
	var out []msgSpec
	seen := map[msgSpec]bool{}
	add := func(a, c uint32) {
		if _, _, ok := shortOf(cat, a, c); ok && !seen[msgSpec{a, c}] {
			seen[msgSpec{a, c}] = true
			out = append(out, msgSpec{a, c})
		}
	}
	for _, c := range cat.Cmds {
		add(c.App, c.Code)
	}
	for _, c := range cat.Cmds {
		for _, a := range cat.Apps {
			if a != 0 && !defines(cat, a, c.Code) {
				add(a, c.Code) // resolves only if the base application defines the code
				break
			}
		}
		n := 0
		for _, a := range unlistedApps {
			if !listed(cat, a) && n < 2 {
				add(a, c.Code)
				n++
			}
		}
	}
	return out
}

// enumerate yields, for every message, every assignment of
// {absent, registered once, registered twice} (levels = 3) or
// {absent, registered} (levels = 2) to the eight registration kinds. First
// registrations are made in kind order, second registrations afterwards in
// reverse kind order, so other keys are registered in between.
func enumerate(dc gen.DictChoice, levels int, yield func(Case) bool) {
	_, cat, err := dc.Load()
	if err != nil {
		panic(err)
	}
	total := 1
	for i := 0; i < 8; i++ {
		total *= levels
	}
	for _, ms := range messages(cat) {
		for _, req := range []bool{true, false} {
			cand := candidates(cat, ms.app, ms.code, req)
			var flags uint8
			if req {
				flags = 0x80
			}
			for s := 0; s < total; s++ {
				var lv [8]int
				twice := false
				for k, x := 0, s; k < 8; k++ {
					lv[k] = x % levels
					x /= levels
					twice = twice || lv[k] == 2
				}
				if levels == 3 && !twice {
					continue // covered by the two-level enumeration
				}
				c := Case{Dict: dc, App: ms.app, Code: ms.code, Flags: flags, Regs: make([]Reg, 0, 16)}
				for k := 0; k < 8; k++ {
					if lv[k] >= 1 {
						c.Regs = append(c.Regs, cand[k][0])
					}
				}
				for k := 7; k >= 0; k-- {
					if lv[k] == 2 {
						r := cand[k][0]
						r.Func = r.Idx == nil && k%2 == 1
						c.Regs = append(c.Regs, r)
					}
				}
				if !yield(c) {
					return
				}
			}
		}
	}
}

// ---------------------------------------------------------------------------
// random cases over embedded and generated dictionaries

var shortPool = []string{"XA", "XB", "ZZ", "Q", "AL", "RA", "A", "R", "AA", "CE", "AAA"}

// muxDict draws a dictionary whose commands are defined in the base
// application, in other applications, or in both with equal or different
// short names, so that the application fallback decides the name key.
func muxDict(t *rapid.T) gen.DictFile {
	codes := []uint32{300, 301, 302, 303, 304}
	mk := func(code uint32, short string) gen.DictCmd {
		return gen.DictCmd{Code: code, Short: short, Name: fmt.Sprintf("Cmd-%d-%s", code, short), Req: []string{"B-Id"}, Ans: []string{"B-Id"}}
	}
	base := gen.DictApp{ID: 0, Name: "Base", AVPs: []gen.DictAVP{{Name: "B-Id", Code: 101, Type: gen.TUnsigned32, Must: "M"}}}
	baseShort := map[uint32]string{}
	for _, code := range codes {
		if rapid.IntRange(0, 2).Draw(t, "in-base") > 0 {
			s := rapid.SampledFrom(shortPool).Draw(t, "base-short")
			baseShort[code] = s
			base.Cmds = append(base.Cmds, mk(code, s))
		}
	}
	f := gen.DictFile{Apps: []gen.DictApp{base}}
	ids := rapid.Permutation([]uint32{1, 4, 7, 1000, 16777238, 16777251, 0xfffffffe, 0xffffffff}).Draw(t, "app-ids")
	n := rapid.IntRange(1, 3).Draw(t, "n-apps")
	any := len(base.Cmds) > 0
	for i := 0; i < n; i++ {
		app := gen.DictApp{ID: ids[i], Type: rapid.SampledFrom([]string{"auth", "acct", ""}).Draw(t, "app-type"), Name: fmt.Sprintf("A%d", ids[i])}
		for _, code := range codes {
			if rapid.Bool().Draw(t, "in-app") {
				s, inBase := baseShort[code]
				if !inBase || rapid.Bool().Draw(t, "rename") {
					s = rapid.SampledFrom(shortPool).Draw(t, "app-short")
				}
				app.Cmds = append(app.Cmds, mk(code, s))
				any = true
			}
		}
		f.Apps = append(f.Apps, app)
	}
	if !any {
		f.Apps[0].Cmds = append(f.Apps[0].Cmds, mk(300, "XA"))
	}
	return f
}

func genCase(t *rapid.T) Case { return genCaseIn(t, nil, nil) }

// genCaseIn is genCase over a given dictionary (fixed != nil) and over the commands usable
// accepts (usable != nil).
func genCaseIn(t *rapid.T, fixed *gen.DictChoice, usable func(gen.Cmd) bool) Case {
	var c Case
	if fixed != nil {
		c.Dict = *fixed
	} else if rapid.Bool().Draw(t, "mux-dict") {
		f := muxDict(t)
		c.Dict = gen.DictChoice{Name: "generated-mux", Gen: &f}
	} else {
		c.Dict = gen.PickDict(t)
	}
	_, cat, err := loadDict(c.Dict)
	if err != nil {
		t.Fatalf("harness: %v", err)
	}
	cmds := cat.Cmds
	if usable != nil {
		cmds = nil
		for _, cm := range cat.Cmds {
			if usable(cm) {
				cmds = append(cmds, cm)
			}
		}
	}
	if len(cmds) == 0 {
		t.Fatalf("harness: dictionary %s defines no command", c.Dict.Name)
	}
	cmd := rapid.SampledFrom(cmds).Draw(t, "cmd")
	c.Code, c.App = cmd.Code, cmd.App
	switch rapid.IntRange(0, 3).Draw(t, "app-kind") {
	case 1:
		c.App = rapid.SampledFrom(cat.Apps).Draw(t, "listed-app")
	case 2:
		c.App = rapid.SampledFrom(unlistedApps).Draw(t, "unlisted-app")
	case 3:
		c.App = gen.U32(t, "random-app")
	}
	if _, _, ok := shortOf(cat, c.App, c.Code); !ok {
		c.App = cmd.App // only commands the dictionary resolves can arrive
	}
	if rapid.Bool().Draw(t, "request") {
		c.Flags = 0x80
	}
	if rapid.Bool().Draw(t, "other-bits") {
		c.Flags |= rapid.Byte().Draw(t, "flag-bits") & 0x7f
	}
	cand := candidates(cat, c.App, c.Code, c.req())
	short, _, _ := shortOf(cat, c.App, c.Code)
	var regs []Reg
	for k := 0; k < 8; k++ {
		if !rapid.Bool().Draw(t, "kind-"+kindNames[k]) {
			continue
		}
		times := rapid.SampledFrom([]int{1, 1, 2, 3}).Draw(t, "times")
		for i := 0; i < times; i++ {
			if len(cand[k]) == 0 {
				continue
			}
			r := cand[k][0]
			if rapid.Bool().Draw(t, "alt-neighbour") {
				r = cand[k][rapid.IntRange(0, len(cand[k])-1).Draw(t, "neighbour")]
			}
			if c.kindOf(r, short) != k {
				t.Fatalf("harness: candidate %+v is not of kind %s", r, kindNames[k])
			}
			if r.Idx == nil {
				r.Func = rapid.Bool().Draw(t, "func")
			} else {
				cp := *r.Idx
				r.Idx = &cp
			}
			regs = append(regs, r)
		}
	}
	if rapid.IntRange(0, 3).Draw(t, "far") == 0 && len(cand[kFar]) > 0 {
		regs = append(regs, cand[kFar][rapid.IntRange(0, len(cand[kFar])-1).Draw(t, "far-key")])
	}
	if len(regs) > 1 {
		perm := rapid.Permutation(regs).Draw(t, "order")
		regs = perm
	}
	c.Regs = regs
	return c
}

// ---------------------------------------------------------------------------
// properties and tests

const ruleCommon = "a fresh ServeMux, a stub Conn, handler id = position in the registration sequence; oracle = reference decision table (last index registration for the exact application/code/R bit, else last registration of the dictionary short name + R/A, else last catch-all, else no handler and one error report); non-trivial = at least two of {own index, own name, ALL} are registered; "

func newProp(name, rule string) *ev.Prop[Case] {
	return ev.Register(&ev.Prop[Case]{ID: "C09", Name: name, Rule: ruleCommon + rule, Gen: genCase, Run: runCase, Classify: classify, Hash: hashCase})
}

var (
	propTable   = newProp("table", "EXHAUSTIVE over dict.Default: every (application, command) the dictionary resolves among {every defining application, one listed application falling back to base, two unlisted application ids falling back to base} x R/A x every subset of the 8 registration kinds (index own / other application / other code / R flipped, name own / other letter / other command, ALL)")
	propReplace = newProp("replace", "EXHAUSTIVE over dict.Default: the same messages x every assignment of {absent, once, twice} to the 8 registration kinds with at least one kind registered twice (second registrations come after all first ones, in reverse kind order, with a different handler)")
	propRandom  = newProp("random", "random: dictionary in {generated command dictionaries with per-application short-name overrides, dict.Default, embedded files, gen.CodecDict}; a resolvable command with the defining / a listed / an unlisted / a random application id, R bit and random other flag bits; a random subset of the 8 kinds, each registered 1-3 times with canonical or alternative neighbour keys through Handle / HandleFunc / HandleIdx, in random order")
)

var defaultDict = gen.DictChoice{Name: "default"}

func TestC09Table(t *testing.T) {
	propTable.Enumerate(t, true, func(yield func(Case) bool) { enumerate(defaultDict, 2, yield) })
}

func TestC09Replace(t *testing.T) {
	propReplace.Enumerate(t, true, func(yield func(Case) bool) { enumerate(defaultDict, 3, yield) })
}

func TestC09Random(t *testing.T) { propRandom.Check(t, 5000, 100000) }

// The enumerated space is what the design says it is: 28 commands, every one
// dispatched as request and answer, and base commands also through
// applications that fall back.
func TestC09Space(t *testing.T) {
	_, cat, err := defaultDict.Load()
	if err != nil {
		t.Fatal(err)
	}
	ms := messages(cat)
	if len(cat.Cmds) < 20 || len(ms) <= len(cat.Cmds) {
		t.Fatalf("harness: %d commands, %d messages: the enumeration lost its fallback cases", len(cat.Cmds), len(ms))
	}
	for _, m := range ms {
		for _, req := range []bool{true, false} {
			cand := candidates(cat, m.app, m.code, req)
			for k := 0; k < 8; k++ {
				if len(cand[k]) == 0 {
					t.Fatalf("harness: no neighbour of kind %s for app=%d code=%d", kindNames[k], m.app, m.code)
				}
				short, _, _ := shortOf(cat, m.app, m.code)
				var fl uint8
				if req {
					fl = 0x80
				}
				c := Case{App: m.app, Code: m.code, Flags: fl}
				for _, r := range cand[k] {
					if got := c.kindOf(r, short); got != k {
						t.Fatalf("harness: candidate %+v of kind %s classifies as %s", r, kindNames[k], kindNames[got])
					}
				}
			}
		}
	}
}

func TestC09Keep(t *testing.T) { ev.RunKeep(t, "C09") }

func TestReplay(t *testing.T) { ev.Replay(t) }
