package c09

import (
	"encoding/xml"
	"fmt"
	"sort"
	"strings"
	"sync"
	"testing"

	"github.com/fiorix/go-diameter/v4/diam/dict"
	"pgregory.net/rapid"

	"verif/internal/dicts"
	"verif/internal/ev"
	"verif/internal/gen"
	"verif/internal/refdict"
)

// Dictionary histories: the dictionary a dispatcher names commands with is loaded in several
// steps (Parser.Load "may be used multiple times"), and applications do load extension documents
// after start-up, some of them twice, some of them refused. The case is ONE private parser, ONE
// dispatcher (any kind of dispatcher_test.go) and a history of steps
//
//	load     one more XML document: a generated extension (new commands for a new or a known
//	         application, for the base application, commands the parser already has - with the
//	         same or another short name), a document loaded before once more, a document with an
//	         AVP of an unknown type, a truncated document, an embedded document of the library
//	reg      a registration (index / short name / ALL)
//	msg      a dispatch
//
// The oracle keeps an independent model of what the dictionary contains after each load:
//
//   - a document that is not well-formed adds nothing;
//   - a document that defines a command key (application, code) which an accepted document
//     defined before (or defines one twice), or declares an AVP of a type that does not exist, is
//     refused (the library documents "index exists" / "unsupported data type"); so is every
//     document for which Load returned an error;
//   - every definition of an accepted document is in the dictionary ("sure"); the statement says
//     nothing about the definitions of a refused document, they may or may not be ("maybe"); a
//     document whose only conflicts are with "maybe" definitions is neither: its definitions are
//     "maybe" too;
//   - nothing that was "sure" ever stops being so.
//
// The short name of (application, code) is the one of the application's own definition, else of
// the base application's. When "maybe" definitions are involved, every name a consistent reading
// allows is accepted (and "the dictionary does not name the command" as well when no "sure"
// definition ends the search); with only "sure" definitions involved - the usual case: the same
// extension loaded twice changes nothing - the decision is unique: exact index, else short name +
// R/A, else catch-all, else no handler and one error report.
// A message is sent over a connection only if the dictionary surely names its command and lists
// AVP rules for its direction (other messages are not read from a connection at all).

type LDoc struct {
	Gen   *gen.DictFile `json:"gen,omitempty"`   // a generated document
	Emb   string        `json:"emb,omitempty"`   // an embedded document of dict/default.go, by variable name
	Again int           `json:"again,omitempty"` // n > 0: the text of the n-th load step of the case once more
	Cut   int           `json:"cut,omitempty"`   // > 0: only the first Cut bytes of the text
}

type LOp struct {
	Load *LDoc `json:"load,omitempty"`
	Reg  *Reg  `json:"reg,omitempty"`
	Msg  *HMsg `json:"msg,omitempty"`
}

type LCase struct {
	Via string `json:"via"`
	Ops []LOp  `json:"ops"`
}

func embeddedText(name string) (string, error) {
	emb, err := dicts.EmbeddedXML()
	if err != nil {
		return "", err
	}
	for _, e := range emb {
		if e.Var == name {
			return e.XML, nil
		}
	}
	return "", fmt.Errorf("no embedded document %q", name)
}

func (d *LDoc) text(earlier []string) (string, error) {
	var s string
	switch {
	case d.Again > 0:
		if d.Again > len(earlier) {
			return "", fmt.Errorf("load step %d does not exist yet", d.Again)
		}
		s = earlier[d.Again-1]
	case d.Emb != "":
		x, err := embeddedText(d.Emb)
		if err != nil {
			return "", err
		}
		s = x
	case d.Gen != nil:
		s = d.Gen.XML()
	default:
		return "", fmt.Errorf("empty load step")
	}
	if d.Cut > 0 && d.Cut < len(s) {
		s = s[:d.Cut]
	}
	return s, nil
}

func (d *LDoc) describe() string {
	var s string
	switch {
	case d.Again > 0:
		s = fmt.Sprintf("the document of load step %d again", d.Again)
	case d.Emb != "":
		s = "embedded " + d.Emb
	default:
		var parts []string
		for _, a := range d.Gen.Apps {
			var cs []string
			for _, c := range a.Cmds {
				cs = append(cs, fmt.Sprintf("%d=%s", c.Code, c.Short))
			}
			for _, v := range a.AVPs {
				if !refdict.ValidType(v.Type) {
					cs = append(cs, "avp of type "+v.Type)
				}
			}
			parts = append(parts, fmt.Sprintf("app %d {%s}", a.ID, strings.Join(cs, " ")))
		}
		s = strings.Join(parts, ", ")
	}
	if d.Cut > 0 {
		s += fmt.Sprintf(" (first %d bytes only)", d.Cut)
	}
	return s
}

// ---------------------------------------------------------------------------
// the model

type lxFile struct {
	XMLName xml.Name `xml:"diameter"`
	Apps    []lxApp  `xml:"application"`
}

type lxRules struct {
	Rules []struct{} `xml:"rule"`
}

type lxApp struct {
	ID   uint32 `xml:"id,attr"`
	Cmds []struct {
		Code  uint32  `xml:"code,attr"`
		Short string  `xml:"short,attr"`
		Req   lxRules `xml:"request"`
		Ans   lxRules `xml:"answer"`
	} `xml:"command"`
	AVPs []struct {
		Data struct {
			Type string `xml:"type,attr"`
		} `xml:"data"`
	} `xml:"avp"`
}

var (
	lxMu    sync.Mutex
	lxCache = map[string]*lxFile{} // well-formed documents by text (nil: not well-formed)
)

func parseDoc(text string) *lxFile {
	lxMu.Lock()
	defer lxMu.Unlock()
	if f, ok := lxCache[text]; ok {
		return f
	}
	if len(lxCache) > 256 {
		lxCache = map[string]*lxFile{}
	}
	f := new(lxFile)
	if err := xml.NewDecoder(strings.NewReader(text)).Decode(f); err != nil {
		f = nil
	}
	lxCache[text] = f
	return f
}

type cmdKey struct{ app, code uint32 }

type lCmd struct {
	key            cmdKey
	short          string
	hasReq, hasAns bool
	sure           bool
	load           int // load step (1-based) it came with
}

type dictModel struct {
	defs  map[cmdKey][]*lCmd
	loads []string // verdict per load step
}

func newDictModel() *dictModel { return &dictModel{defs: map[cmdKey][]*lCmd{}} }

// load feeds one document; libErr is what Parser.Load returned for it. The verdict is one of
// malformed | accepted | refused | uncertain.
func (m *dictModel) load(text string, libErr error) string {
	f := parseDoc(text)
	if f == nil {
		m.loads = append(m.loads, "malformed")
		return "malformed"
	}
	refused, uncertain := libErr != nil, false
	seen := map[cmdKey]bool{}
	var add []*lCmd
	for _, a := range f.Apps {
		for _, c := range a.Cmds {
			k := cmdKey{a.ID, c.Code}
			if seen[k] {
				refused = true
			}
			seen[k] = true
			for _, d := range m.defs[k] {
				if d.sure {
					refused = true
				} else {
					uncertain = true
				}
			}
			add = append(add, &lCmd{key: k, short: c.Short, hasReq: len(c.Req.Rules) > 0, hasAns: len(c.Ans.Rules) > 0, load: len(m.loads) + 1})
		}
		for _, v := range a.AVPs {
			if !refdict.ValidType(v.Data.Type) {
				refused = true
			}
		}
	}
	verdict := "accepted"
	switch {
	case refused:
		verdict = "refused"
	case uncertain:
		verdict = "uncertain"
	}
	for _, d := range add {
		d.sure = verdict == "accepted"
		m.defs[d.key] = append(m.defs[d.key], d)
	}
	m.loads = append(m.loads, verdict)
	return verdict
}

// naming is what the dictionary may call a command.
type naming struct {
	names    []string // every short name a consistent reading allows, sorted
	mayUnres bool     // "the dictionary does not name it" is a consistent reading too
	dirOK    bool     // every definition involved lists AVP rules for the direction asked about
	maybe    bool     // a definition of a refused document is involved
}

// readings is the number of consistent readings of the dictionary for the command.
func (n naming) readings() int {
	if n.mayUnres {
		return len(n.names) + 1
	}
	return len(n.names)
}

func (m *dictModel) naming(app, code uint32, req bool) naming {
	n := naming{dirOK: true}
	set := map[string]bool{}
	level := func(a uint32) (sure bool) {
		for _, d := range m.defs[cmdKey{a, code}] {
			set[d.short] = true
			if req && !d.hasReq || !req && !d.hasAns {
				n.dirOK = false
			}
			if d.sure {
				sure = true
			} else {
				n.maybe = true
			}
		}
		return sure
	}
	if !level(app) {
		if app == 0 || !level(0) {
			n.mayUnres = true
		}
	}
	for s := range set {
		n.names = append(n.names, s)
	}
	sort.Strings(n.names)
	return n
}

// ---------------------------------------------------------------------------
// runner

func runDictLoads(c LCase) *ev.Failure {
	if len(c.Ops) == 0 || c.Ops[0].Load == nil {
		return ev.Failf("harness-generator", "a dictionary history starts with a load step")
	}
	if isSM(c.Via) && c.Ops[0].Load.Emb != "baseXML" {
		return ev.Failf("harness-generator", "%s needs the base dictionary as its first document", c.Via)
	}
	p, err := dict.NewParser()
	if err != nil {
		return ev.Failf("harness-dict", "%v", err)
	}
	model := newDictModel()
	mm := modelMux{idx: map[Idx]int{}, name: map[string]int{}, all: -1}
	d := newDispatcher(c.Via, p)
	defer d.close()
	var texts, journal []string
	connected := false
	hbh := uint32(0x7200)

	history := func() string { return strings.Join(journal, "; ") }
	for i, op := range c.Ops {
		switch {
		case op.Load != nil:
			text, err := op.Load.text(texts)
			if err != nil {
				return ev.Failf("harness-generator", "step %d: %v", i, err)
			}
			texts = append(texts, text)
			libErr := p.Load(strings.NewReader(text))
			verdict := model.load(text, libErr)
			if verdict == "malformed" && libErr == nil {
				return ev.Failf("harness-model", "step %d: Load accepted a document the model's XML decoder refuses", i)
			}
			e := "Load returned nil"
			if libErr != nil {
				e = fmt.Sprintf("Load returned %q", libErr)
			}
			journal = append(journal, fmt.Sprintf("step %d load #%d [%s] %s: %s", i, len(texts), op.Load.describe(), verdict, e))
			if !connected {
				if i == 0 && libErr != nil {
					return ev.Failf("harness-dict", "the first document does not load: %v", libErr)
				}
				if f := d.connect(); f != nil {
					return f
				}
				d.drain()
				d.takeHits()
				connected = true
			}
		case op.Reg != nil:
			r := *op.Reg
			if isSM(c.Via) && reservedReg(r) {
				return ev.Failf("harness-generator", "step %d: registration %s belongs to the state machine", i, describe(&r))
			}
			if f := d.register(i, r); f != nil {
				return f
			}
			switch {
			case r.Name == "ALL":
				mm.all = i
			case r.Idx != nil:
				mm.idx[*r.Idx] = i
			default:
				mm.name[r.Name] = i
			}
			journal = append(journal, fmt.Sprintf("step %d %s", i, describe(&r)))
		case op.Msg != nil:
			msg := *op.Msg
			req := msg.Flags&0x80 != 0
			if isSM(c.Via) && reservedCode(msg.Code) {
				return ev.Failf("harness-generator", "step %d: command %d belongs to the state machine", i, msg.Code)
			}
			nm := model.naming(msg.App, msg.Code, req)
			if isWire(c.Via) && (nm.mayUnres || !nm.dirOK) {
				continue // cannot be read from a connection (or the statement does not say whether it can)
			}
			// the decision table, once per consistent reading of the dictionary
			acc := map[int]bool{}
			reportOptional := false
			idxWant, hasIdx := mm.idx[Idx{msg.App, msg.Code, req}]
			for _, s := range nm.names {
				switch id, ok := mm.name[s+letter(req)]; {
				case hasIdx:
					acc[idxWant] = true
				case ok:
					acc[id] = true
				default:
					acc[mm.all] = true
				}
			}
			if nm.mayUnres {
				// no short name: only the exact index handler or the catch-all may run, and a
				// registered catch-all must not be skipped (as in 'history')
				if hasIdx {
					acc[idxWant] = true
				}
				acc[mm.all] = true
				if mm.all < 0 && hasIdx {
					reportOptional = true
				}
			}
			d.drain()
			hbh += 2
			gone := d.dispatch(msg, hbh, false)
			calls := d.takeHits()
			reports, rep := d.drain()

			var accepted []string
			for id := range acc {
				if id < 0 {
					accepted = append(accepted, "no handler + an error report")
				} else {
					accepted = append(accepted, fmt.Sprintf("step %d (%s)", id, describe(c.Ops[id].Reg)))
				}
			}
			sort.Strings(accepted)
			desc := fmt.Sprintf("dispatcher %s, step %d: message app=%d code=%d flags=%#x; the dictionary names the command %v (no name possible: %v); acceptable: %s; history: %s",
				c.Via, i, msg.App, msg.Code, msg.Flags, nm.names, nm.mayUnres, strings.Join(accepted, " | "), history())
			if len(calls) > 1 {
				return ev.Failf("dictload:multiple-handlers", "%d handlers were called; %s", len(calls), desc)
			}
			got := -1
			if len(calls) == 1 {
				got = calls[0].id
				if calls[0].hbh != hbh || calls[0].code != msg.Code || calls[0].app != msg.App || calls[0].flags != msg.Flags {
					return ev.Failf("dictload:handler-other-message", "the handler of step %d was called with a message other than the dispatched one (%+v); %s", got, calls[0], desc)
				}
			}
			if !acc[got] {
				sig := "dictload:wrong-handler"
				if got >= 0 {
					for id := range acc {
						if id >= 0 && sameKey(*c.Ops[got].Reg, *c.Ops[id].Reg) {
							sig = "dictload:replaced-handler-fired"
						}
					}
				}
				if nm.readings() > 1 {
					sig += ":under-every-reading-of-a-refused-document"
				}
				what := "no handler ran"
				if got >= 0 {
					what = fmt.Sprintf("the handler registered at step %d (%s) ran", got, describe(c.Ops[got].Reg))
				}
				return ev.Failf(sig, "%s (error reports offered: %d, connection closed over it: %v); %s", what, reports, gone, desc)
			}
			if got >= 0 && reports != 0 {
				return ev.Failf("dictload:spurious-error-report", "a handler ran and an error report was offered as well (%v); %s", rep.Error, desc)
			}
			if got < 0 && reports != 1 && !reportOptional {
				return ev.Failf("dictload:missing-error-report", "nothing applies and no handler ran, but %d error reports were offered on the dispatcher's ErrorReports(); %s", reports, desc)
			}
			if gone {
				return ev.Failf("dictload:connection-closed", "the connection was closed over a message whose command the dictionary names and lists rules for; %s", desc)
			}
			journal = append(journal, fmt.Sprintf("step %d message app=%d code=%d %s", i, msg.App, msg.Code, letter(req)))
		}
	}
	return nil
}

// ---------------------------------------------------------------------------
// generator

var (
	loadShortsG = shortPool
	// no CE / DW here: on a state machine those name the commands it owns
	loadShortsE = []string{"XA", "XB", "ZZ", "Q", "AL", "RA", "A", "R", "AA", "AAA", "ST", "CC", "AS"}
)

type docDef struct {
	key   cmdKey
	short string
}

func defsOfText(text string) []docDef {
	f := parseDoc(text)
	if f == nil {
		return nil
	}
	var out []docDef
	for _, a := range f.Apps {
		for _, c := range a.Cmds {
			out = append(out, docDef{cmdKey{a.ID, c.Code}, c.Short})
		}
	}
	return out
}

// extensionDoc draws a document with commands for one or two applications; a key that is
// already defined gets its known short name half of the time.
func extensionDoc(t *rapid.T, apps, codes []uint32, shorts []string, rule string, known map[cmdKey]string, baseOnly bool) gen.DictFile {
	var f gen.DictFile
	n := rapid.IntRange(1, 2).Draw(t, "ext-apps")
	ids := rapid.Permutation(apps).Draw(t, "ext-app-ids")
	for i := 0; i < n && i < len(ids); i++ {
		app := gen.DictApp{ID: ids[i], Name: fmt.Sprintf("Ext%d", ids[i])}
		if baseOnly {
			app.ID, app.Name = 0, "Base"
		} else if app.ID != 0 {
			app.Type = rapid.SampledFrom([]string{"auth", "acct", ""}).Draw(t, "ext-app-type")
		}
		nc := rapid.IntRange(1, 3).Draw(t, "ext-cmds")
		for j := 0; j < nc; j++ {
			code := rapid.SampledFrom(codes).Draw(t, "ext-code")
			s, ok := known[cmdKey{app.ID, code}]
			if !ok || rapid.Bool().Draw(t, "ext-rename") {
				s = rapid.SampledFrom(shorts).Draw(t, "ext-short")
			}
			app.Cmds = append(app.Cmds, gen.DictCmd{Code: code, Short: s, Name: fmt.Sprintf("Ext-%d-%s", code, s), Req: []string{rule}, Ans: []string{rule}})
		}
		f.Apps = append(f.Apps, app)
		if baseOnly {
			break
		}
	}
	return f
}

var embeddedSmall = []string{"diametersyXML", "creditcontrolXML", "gxcreditcontrolXML", "tgpprxXML", "tgppswxXML", "networkaccessserverXML", "tgpps6aXML", "baseXML"}

func genDictLoads(t *rapid.T) LCase {
	var c LCase
	embedded := rapid.IntRange(0, 3).Draw(t, "embedded-base") == 0
	var (
		docs   []LDoc
		texts  []string
		apps   []uint32
		codes  []uint32
		shorts []string
		rule   string
	)
	known := map[cmdKey]string{}
	var extKeys []cmdKey // keys named by documents after the first one
	addDoc := func(d LDoc, ext bool) {
		text, err := d.text(texts)
		if err != nil {
			t.Fatalf("harness: %v", err)
		}
		docs = append(docs, d)
		texts = append(texts, text)
		for _, df := range defsOfText(text) {
			if _, ok := known[df.key]; !ok {
				known[df.key] = df.short
			}
			if ext {
				extKeys = append(extKeys, df.key)
			}
		}
	}
	if embedded {
		c.Via = rapid.SampledFrom([]string{viaMux, viaMuxConn, viaSMDirect, viaSMServer, viaSMClient}).Draw(t, "via")
		addDoc(LDoc{Emb: "baseXML"}, false)
		apps = []uint32{4, 1000, 16777251, 1, 16777238}
		codes = []uint32{258, 272, 274, 275, 300, 301}
		shorts, rule = loadShortsE, "Session-Id"
	} else {
		c.Via = rapid.SampledFrom([]string{viaMux, viaMux, viaMuxConn}).Draw(t, "via")
		f := muxDict(t)
		addDoc(LDoc{Gen: &f}, false)
		for _, a := range f.Apps {
			if a.ID != 0 {
				apps = append(apps, a.ID)
			}
		}
		apps = append(apps, 1000, 7)
		codes = []uint32{300, 301, 302, 303, 304}
		shorts, rule = loadShortsG, "B-Id"
	}
	nDocs := rapid.IntRange(1, 3).Draw(t, "further-docs")
	for len(docs) < 1+nDocs {
		switch k := rapid.IntRange(0, 11).Draw(t, "doc-kind"); {
		case k < 4: // a document loaded before, once more
			addDoc(LDoc{Again: rapid.IntRange(1, len(docs)).Draw(t, "again")}, len(docs) > 1)
		case k < 8: // an extension: new and / or known command keys
			f := extensionDoc(t, apps, codes, shorts, rule, known, false)
			addDoc(LDoc{Gen: &f}, true)
		case k == 8: // more commands for the base application
			f := extensionDoc(t, apps, codes, shorts, rule, known, true)
			addDoc(LDoc{Gen: &f}, true)
		case k == 9: // commands, then an AVP of a type that does not exist
			f := extensionDoc(t, apps, codes, shorts, rule, known, false)
			last := &f.Apps[len(f.Apps)-1]
			last.AVPs = append(last.AVPs, gen.DictAVP{Name: "Ext-Bogus", Code: 9999, Type: "Bogus"})
			addDoc(LDoc{Gen: &f}, true)
		case k == 10: // a truncated document
			f := extensionDoc(t, apps, codes, shorts, rule, known, false)
			n := len(f.XML())
			addDoc(LDoc{Gen: &f, Cut: rapid.IntRange(1, n-1).Draw(t, "cut")}, false)
		default:
			if embedded {
				addDoc(LDoc{Emb: rapid.SampledFrom(embeddedSmall).Draw(t, "embedded-doc")}, true)
			} else { // a document without commands that declares a known application again
				f := gen.DictFile{Apps: []gen.DictApp{{ID: rapid.SampledFrom(apps).Draw(t, "redeclared-app"), Name: "Again",
					AVPs: []gen.DictAVP{{Name: "Ext-Id", Code: 9102, Type: gen.TUnsigned32}}}}}
				addDoc(LDoc{Gen: &f}, false)
			}
		}
	}
	// the working set: two keys, named by the later documents if they name any
	usable := func(k cmdKey) bool { return !(isSM(c.Via) && reservedCode(k.code)) }
	var all []cmdKey
	for k := range known {
		if usable(k) {
			all = append(all, k)
		}
	}
	sort.Slice(all, func(i, j int) bool { return all[i].app < all[j].app || all[i].app == all[j].app && all[i].code < all[j].code })
	var ext []cmdKey
	for _, k := range extKeys {
		if usable(k) {
			ext = append(ext, k)
		}
	}
	pick := func(label string) cmdKey {
		var k cmdKey
		if len(ext) > 0 && rapid.IntRange(0, 4).Draw(t, label+"-any") != 0 {
			k = rapid.SampledFrom(ext).Draw(t, label)
		} else {
			k = rapid.SampledFrom(all).Draw(t, label)
		}
		switch rapid.IntRange(0, 7).Draw(t, label+"-app") {
		case 0:
			k.app = 999 // an application no document lists
		case 1:
			k.app = rapid.SampledFrom(apps).Draw(t, label+"-other-app")
		}
		return k
	}
	focus := []cmdKey{pick("m0"), pick("m1")}
	namesOf := func(code uint32) []string {
		set := map[string]bool{}
		for k, s := range known {
			if k.code == code {
				set[s] = true
			}
		}
		for _, text := range texts {
			for _, df := range defsOfText(text) {
				if df.key.code == code {
					set[df.short] = true
				}
			}
		}
		var out []string
		for s := range set {
			out = append(out, s)
		}
		sort.Strings(out)
		if len(out) == 0 {
			out = []string{"XX"}
		}
		return out
	}
	step := func() LOp {
		f := focus[rapid.IntRange(0, 1).Draw(t, "focus")]
		req := rapid.Bool().Draw(t, "req")
		if rapid.IntRange(0, 2).Draw(t, "dispatch") != 0 {
			fl := rapid.SampledFrom([]uint8{0, 0, 0x40, 0x10}).Draw(t, "other-flags")
			if req {
				fl |= 0x80
			}
			return LOp{Msg: &HMsg{App: f.app, Code: f.code, Flags: fl}}
		}
		var r Reg
		switch rapid.IntRange(0, 7).Draw(t, "reg-kind") {
		case 0, 1:
			r.Idx = &Idx{App: f.app, Code: f.code, Req: req}
		case 2:
			r.Idx = &Idx{App: 0, Code: f.code, Req: req}
		case 3, 4, 5:
			r.Name = rapid.SampledFrom(namesOf(f.code)).Draw(t, "name") + letter(req)
			r.Func = rapid.Bool().Draw(t, "func")
		default:
			r.Name = "ALL"
			switch rapid.IntRange(0, 2).Draw(t, "all-entry-point") {
			case 0:
				r.Func = true
			case 1:
				r.Idx = &Idx{App: 0xffffffff, Code: 0xffffffff}
			}
		}
		if isSM(c.Via) && reservedReg(r) {
			r = Reg{Name: "ALL"}
		}
		return LOp{Reg: &r}
	}
	c.Ops = append(c.Ops, LOp{Load: &docs[0]})
	next := 1
	n := rapid.IntRange(2, 12).Draw(t, "steps")
	for i := 0; i < n; i++ {
		if next < len(docs) && rapid.IntRange(0, 3).Draw(t, "load-now") == 0 {
			c.Ops = append(c.Ops, LOp{Load: &docs[next]})
			next++
			continue
		}
		c.Ops = append(c.Ops, step())
	}
	// every document is loaded, and dispatches follow every load
	for ; next < len(docs); next++ {
		c.Ops = append(c.Ops, LOp{Load: &docs[next]})
		for k := rapid.IntRange(1, 3).Draw(t, "after-load"); k > 0; k-- {
			c.Ops = append(c.Ops, step())
		}
	}
	return c
}

func classifyDictLoads(c LCase) (bool, []string) {
	seen := map[string]bool{}
	var cl []string
	add := func(s string) {
		if !seen[s] {
			seen[s] = true
			cl = append(cl, s)
		}
	}
	add("via:" + c.Via)
	model := newDictModel()
	var texts []string
	refusedKeys := map[cmdKey]bool{}
	state := 0 // dispatch, load, dispatch
	for _, op := range c.Ops {
		switch {
		case op.Load != nil:
			text, err := op.Load.text(texts)
			if err != nil {
				return false, []string{"harness-generator"}
			}
			texts = append(texts, text)
			if len(texts) == 1 && op.Load.Emb != "" {
				add("first-document:embedded-base")
			}
			v := model.load(text, nil)
			if len(texts) > 1 {
				add("load:" + v)
				if op.Load.Again > 0 {
					add("load:a-document-again:" + v)
				}
				if v == "refused" || v == "uncertain" {
					for _, df := range defsOfText(text) {
						refusedKeys[df.key] = true
					}
				}
				if state == 1 {
					state = 2
				}
			}
		case op.Msg != nil:
			if state == 0 {
				state = 1
			}
			if state == 2 {
				state = 3
			}
			if refusedKeys[cmdKey{op.Msg.App, op.Msg.Code}] {
				add("dispatch-of-a-key-a-refused-document-names")
			}
			nm := model.naming(op.Msg.App, op.Msg.Code, op.Msg.Flags&0x80 != 0)
			switch {
			case len(nm.names) == 0:
				add("dispatch:unnamed-command")
			case nm.readings() > 1:
				add("dispatch:several-readings-of-a-refused-document")
			case nm.maybe:
				add("dispatch:decided-although-a-refused-document-names-the-key")
			default:
				add("dispatch:decided")
			}
		}
	}
	if state == 3 {
		add("dispatch-load-dispatch")
	}
	return state == 3, cl
}

var dictLoadsProp = ev.Register(&ev.Prop[LCase]{
	ID: "C09", Name: "dictionary-history",
	Rule: "ONE private parser, ONE dispatcher (bare ServeMux in process or serving an in-memory connection; with the library's base document as first document also a sm.StateMachine in process, as server and behind sm.Client, after the capabilities exchange) and a history of steps: Load of a further document (a generated extension with new and / or already defined command keys under the same or another short name, for new, known or the base application; a document loaded before once more; commands followed by an AVP of an unknown type; a truncated document; an embedded document of the library; a command-less document re-declaring an application), registrations (index / short name / ALL for a working set of two keys) and dispatches, the loads anywhere between them. Oracle: an independent model of the dictionary after each load (accepted documents count entirely and for good, refused ones - duplicate command key, unknown AVP type, Load returned an error - may or may not count, malformed ones add nothing) and the decision table per consistent reading: exact index, else short name of (application, code) with the base fallback + R/A, else catch-all, else no handler and one error report on the dispatcher's ErrorReports(). non-trivial = a dispatch, a load, another dispatch",
	Gen:  genDictLoads, Run: runDictLoads, Classify: classifyDictLoads,
})

func TestC09DictionaryHistory(t *testing.T) { dictLoadsProp.Check(t, 1200, 40000) }

// The same extension loaded twice (what two packages of one program that both load "their"
// dictionary do), for every embedded extension document of the library over its base document and
// every dispatcher kind: before, between and after the loads every command of the extension, as
// request and as answer, reaches the handler registered under its short name, and a neighbour
// registered under the base application's name of the code (or the catch-all) does not.
func TestC09ExtensionLoadedTwice(t *testing.T) {
	emb, err := dicts.EmbeddedXML()
	if err != nil {
		t.Fatal(err)
	}
	n := 0
	dictLoadsProp.Enumerate(t, true, func(yield func(LCase) bool) {
		for _, e := range emb {
			if e.Var == "baseXML" {
				continue
			}
			defs := defsOfText(e.XML)
			if len(defs) == 0 {
				continue
			}
			if !ev.Thorough() && len(defs) > 6 {
				defs = defs[:6]
			}
			for vi, via := range []string{viaMux, viaMuxConn, viaSMDirect, viaSMServer, viaSMClient} {
				c := LCase{Via: via, Ops: []LOp{{Load: &LDoc{Emb: "baseXML"}}, {Load: &LDoc{Emb: e.Var}}}}
				if vi%2 == 0 {
					c.Ops = append(c.Ops, LOp{Reg: &Reg{Name: "ALL"}})
				}
				var msgs []LOp
				for _, df := range defs {
					if reservedCode(df.key.code) {
						continue
					}
					for _, req := range []bool{true, false} {
						fl := uint8(0)
						if req {
							fl = 0x80
						}
						c.Ops = append(c.Ops, LOp{Reg: &Reg{Name: df.short + letter(req)}})
						msgs = append(msgs, LOp{Msg: &HMsg{App: df.key.app, Code: df.key.code, Flags: fl}})
					}
				}
				c.Ops = append(c.Ops, msgs...)
				c.Ops = append(c.Ops, LOp{Load: &LDoc{Again: 2}})
				c.Ops = append(c.Ops, msgs...)
				c.Ops = append(c.Ops, LOp{Load: &LDoc{Again: 1}})
				c.Ops = append(c.Ops, msgs...)
				n++
				if !yield(c) {
					return
				}
			}
		}
	})
	if !t.Failed() && n < 20 {
		t.Fatalf("harness: only %d cases", n)
	}
}
