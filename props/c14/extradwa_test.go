package c14

import (
	"errors"
	"fmt"
	"io"
	"sync"
	"sync/atomic"
	"testing"
	"time"

	"github.com/fiorix/go-diameter/v4/diam"
	"github.com/fiorix/go-diameter/v4/diam/avp"
	"github.com/fiorix/go-diameter/v4/diam/datatype"
	"github.com/fiorix/go-diameter/v4/diam/sm"
	"pgregory.net/rapid"

	"verif/internal/ev"
	"verif/internal/memnet"
	"verif/internal/refcodec"
)

// "Once a connection has terminated, every goroutine the library started on its behalf (reader,
// notifier, watchdog) exits" - with a peer that sends MORE Device-Watchdog-Answers than the
// watchdog waits for: a slow peer that answers every retransmission of one request, a peer that
// duplicates its answers, a peer that sends answers nobody asked for. The answers are handled on
// the reading goroutine while the watchdog goroutine is somewhere else (waiting for its next tick,
// or gone because the connection ended): whatever the number of answers and wherever they fall,
// once the connection has terminated all three goroutines have to be gone and every CloseNotify
// channel has to be closed.

type DWARound struct {
	AnswerAt int  `json:"answer_at"`           // the peer answers when it has seen this many transmissions of the round's DWR (1: the first one)
	Answers  int  `json:"answers"`             // success DWAs it sends then (1: the ordinary case)
	Failed   int  `json:"failed,omitempty"`    // DWAs with a failure Result-Code sent in front of them
	OnePiece bool `json:"one_piece,omitempty"` // all of them in one segment (else one segment each)
}

type ExtraDWACase struct {
	MaxRetransmits int        `json:"max_retransmits"`
	Warm           int        `json:"warm,omitempty"`        // application messages handled before anything else (the connection is in its steady state)
	Unsolicited    int        `json:"unsolicited,omitempty"` // success DWAs sent after the handshake, before any DWR
	Rounds         []DWARound `json:"rounds,omitempty"`      // watchdog rounds the peer serves, in order
	End            string     `json:"end"`                   // eof | read-error | garbage | eof-in-answer (right behind the last answers) | local-close | watchdog-gives-up (the next DWR is never answered)
	Req            bool       `json:"req,omitempty"`         // the application holds a CloseNotify channel of its own, requested right after the handshake
	Late           int        `json:"late,omitempty"`        // requests after termination
}

const (
	xdwaInterval   = 25 * time.Millisecond // WatchdogInterval
	xdwaRetransmit = 30 * time.Millisecond // RetransmitInterval
)

// within polls until cond holds or d of OBSERVED time has passed: time is counted in steps of at
// most 20 ms, so that a pause of the whole process (a starved machine, a throttled container) does
// not eat the budget of a bounded wait - the goroutines waited for were paused just the same.
func within(d time.Duration, cond func() bool) bool {
	var spent time.Duration
	for {
		if cond() {
			return true
		}
		if spent >= d {
			return false
		}
		t0 := time.Now()
		time.Sleep(2 * time.Millisecond)
		step := time.Since(t0)
		if step > 20*time.Millisecond {
			step = 20 * time.Millisecond
		}
		spent += step
	}
}

// closedIn is closedWithin on that clock.
func closedIn(ch <-chan struct{}, d time.Duration) bool {
	return within(d, func() bool { return !isOpen(ch) })
}

// libraryGoroutine returns the stack of one goroutine the library started for a connection, or "".
func libraryGoroutine() string { return leaked(0) }

// leakedIn is leaked on that clock.
func leakedIn(d time.Duration) string {
	g := ""
	within(d, func() bool { g = libraryGoroutine(); return g == "" })
	return g
}

// handledIn is harness.waitHandled on that clock.
func (h *harness) handledIn(n int, d time.Duration) bool {
	return within(d, func() bool { h.mu.Lock(); defer h.mu.Unlock(); return len(h.seqs) >= n })
}

func transportClosedIn(mc *memnet.Conn, d time.Duration) bool {
	return within(d, func() bool { cl, _ := mc.Closed(); return cl })
}

func dwaBytes(hbh, e2e, resultCode uint32) []byte {
	return refcodec.EncodeMessage(refcodec.Header{Version: 1, Code: 280, HopByHop: hbh, EndToEnd: e2e},
		[]*refcodec.Node{{Code: 268, Flags: 0x40, Payload: refcodec.U32(resultCode)}, {Code: 264, Flags: 0x40, Payload: []byte("srv.example")},
			{Code: 296, Flags: 0x40, Payload: []byte("example")}}, false)
}

// The scenario runs on the library's real timers (25 / 30 ms): on a starved machine the handshake
// budget or an answer budget can run out although the peer answered in time (seen in a thorough
// run with 16 shards at load 80: "handshake timeout", and a connection the watchdog had already
// given up when the first channel was requested). A verdict must therefore reproduce: a defect
// fails the same case every time, a stall does not. Non-reproducing failures are counted.
var extraDWATimingDiscards int64

func runExtraDWA(c ExtraDWACase) *ev.Failure {
	f := runExtraDWAOnce(c)
	if f == nil {
		return nil
	}
	for i := 0; i < 2; i++ {
		time.Sleep(100 * time.Millisecond)
		f2 := runExtraDWAOnce(c)
		if f2 == nil {
			atomic.AddInt64(&extraDWATimingDiscards, 1)
			return nil
		}
		f = f2
	}
	return f
}

func runExtraDWAOnce(c ExtraDWACase) *ev.Failure {
	if pre := leakedIn(2 * time.Second); pre != "" {
		return ev.Failf("goroutine-leak-after-earlier-case", "a goroutine the library started for a connection of an EARLIER case is still alive (that connection had terminated):\n%s", pre)
	}
	h := &harness{entered: make(chan struct{}), fired: make(chan bool, 1)}
	h.cond = sync.NewCond(&h.mu)
	mc := memnet.NewConn()
	machine := sm.New(&sm.Settings{OriginHost: "cli.test", OriginRealm: "test", VendorID: 13, ProductName: "verif",
		HostIPAddresses: []datatype.Address{datatype.Address([]byte{10, 0, 0, 9})}})
	machine.HandleFunc("ALL", h.handler)
	stop := make(chan struct{})
	defer close(stop)
	go func() {
		for {
			select {
			case <-machine.ErrorReports():
			case <-stop:
				return
			}
		}
	}()
	cli := &sm.Client{Handler: machine, MaxRetransmits: uint(c.MaxRetransmits), RetransmitInterval: xdwaRetransmit,
		EnableWatchdog: true, WatchdogInterval: xdwaInterval,
		AuthApplicationID: []*diam.AVP{diam.NewAVP(avp.AuthApplicationID, avp.Mbit, 0, datatype.Unsigned32(4))}}

	// the scripted peer lives in the transport's Write: it sees every message of the client at the
	// moment it is written and answers from there
	var (
		mu         sync.Mutex
		appCh      <-chan struct{} // the application's own channel (Req)
		earlyClose string          // a channel found closed before the terminating event
		round      = -1            // index of the watchdog round in progress
		curHbh     uint32
		seenInCur  int
		ended      bool // the peer has hung up (or the script is over): nothing is answered any more
	)
	closedEarly := func() bool { cl, _ := mc.Closed(); return cl }
	scriptDone := make(chan struct{})
	var doneOnce sync.Once
	finish := func() { doneOnce.Do(func() { close(scriptDone) }) }
	junk := append(refcodec.EncodeHeader(refcodec.Header{Version: 1, Flags: 0x80, Code: 0xABCDEF, App: 77, Length: 60}), make([]byte, 200)...)
	// end feeds the peer-made end of the connection right behind what was sent last
	end := func(hbh uint32) {
		// (a connection the watchdog closed on its own because this process stalled for longer than
		// the answer budget has terminated: the transport is closed before the channel then)
		if appCh != nil && !isOpen(appCh) && !closedEarly() && earlyClose == "" {
			earlyClose = "the application's CloseNotify channel is closed although the connection has not terminated (the peer has answered every watchdog request so far)"
		}
		switch c.End {
		case "eof":
			mc.FeedEOF()
			ended = true
		case "read-error":
			mc.FeedErr(errors.New("connection reset by peer"))
			ended = true
		case "garbage":
			mc.Feed(junk)
			ended = true
		case "eof-in-answer":
			half := dwaBytes(hbh, 7, 2001)
			mc.FeedWithErr(io.EOF, half[:len(half)/2])
			ended = true
		}
		finish()
	}
	mc.WriteHook = func(b []byte, accept func([]byte)) (int, error) {
		accept(b)
		hd, err := refcodec.DecodeHeader(b)
		if err != nil || hd.Flags&0x80 == 0 {
			return len(b), nil
		}
		switch hd.Code {
		case 257:
			mc.Feed(refcodec.EncodeMessage(refcodec.Header{Version: 1, Code: 257, HopByHop: hd.HopByHop, EndToEnd: hd.EndToEnd},
				[]*refcodec.Node{{Code: 268, Flags: 0x40, Payload: refcodec.U32(2001)}, {Code: 264, Flags: 0x40, Payload: []byte("srv.example")},
					{Code: 296, Flags: 0x40, Payload: []byte("example")}, {Code: 257, Flags: 0x40, Payload: refcodec.Address(1, []byte{10, 0, 0, 1})},
					{Code: 266, Flags: 0x40, Payload: refcodec.U32(13)}, {Code: 269, Payload: []byte("peer")},
					{Code: 258, Flags: 0x40, Payload: refcodec.U32(4)}}, false))
		case 280:
			mu.Lock()
			defer mu.Unlock()
			if ended {
				return len(b), nil
			}
			if round < 0 || hd.HopByHop != curHbh {
				round, curHbh, seenInCur = round+1, hd.HopByHop, 0
			}
			seenInCur++
			if round >= len(c.Rounds) {
				// past the script: the harness is about to end the connection itself (local-close),
				// or this is the request that is never answered (watchdog-gives-up); an ordinary
				// answer keeps the connection alive in the first case
				if c.End != "watchdog-gives-up" && seenInCur == 1 {
					mc.Feed(dwaBytes(hd.HopByHop, hd.EndToEnd, 2001))
				}
				return len(b), nil
			}
			r := c.Rounds[round]
			if seenInCur != r.AnswerAt {
				return len(b), nil
			}
			var segs [][]byte
			for i := 0; i < r.Failed; i++ {
				segs = append(segs, dwaBytes(hd.HopByHop, hd.EndToEnd, 3004))
			}
			for i := 0; i < r.Answers; i++ {
				segs = append(segs, dwaBytes(hd.HopByHop, hd.EndToEnd, 2001))
			}
			if r.OnePiece {
				var all []byte
				for _, s := range segs {
					all = append(all, s...)
				}
				segs = [][]byte{all}
			}
			mc.Feed(segs...)
			if round == len(c.Rounds)-1 {
				end(hd.HopByHop)
			}
		}
		return len(b), nil
	}
	conn, err := cli.NewConn(mc, "peer")
	if err != nil {
		mc.Close()
		return ev.Failf("harness-handshake", "handshake failed: %v", err)
	}
	defer func() { mc.FeedEOF(); mc.Close() }()
	cn := conn.(diam.CloseNotifier)
	desc := fmt.Sprintf("sm.Client with the watchdog (MaxRetransmits %d); the peer sent %d unsolicited success DWAs and served %d watchdog rounds %+v; end of the connection: %s",
		c.MaxRetransmits, c.Unsolicited, len(c.Rounds), c.Rounds, c.End)
	if c.Req {
		ch, bf := requestCh(cn)
		if bf != nil {
			return bf
		}
		if !isOpen(ch) && !closedEarly() {
			return ev.Failf("closed-early", "a CloseNotify channel requested right after the handshake is closed already although the transport is open")
		}
		mu.Lock()
		appCh = ch
		mu.Unlock()
	}
	sent, handledAll := 0, true
	for i := 0; i < c.Warm; i++ {
		mc.Feed(appMessage(sent, false))
		sent++
		if !h.handledIn(sent, promptly) {
			if !closedEarly() {
				return ev.Failf("message-not-dispatched", "%s: application message %d was not handled within %v", desc, sent, promptly)
			}
			handledAll = false
		}
	}
	mu.Lock()
	if c.Unsolicited > 0 && !ended {
		for i := 0; i < c.Unsolicited; i++ {
			mc.Feed(dwaBytes(uint32(0xD0000+i), 9, 2001))
		}
	}
	if len(c.Rounds) == 0 && !ended {
		end(0xD00FF)
	}
	mu.Unlock()
	// wait for the script to run out (or for the connection to be closed under it: a watchdog that
	// gave up because this process was too slow is a termination like any other)
	waitUntil := time.Now().Add(4 * promptly)
	for done := false; !done; {
		select {
		case <-scriptDone:
			done = true
		case <-time.After(5 * time.Millisecond):
			if closedEarly() {
				done = true
			} else if time.Now().After(waitUntil) {
				return ev.Failf("harness-script", "%s: the watchdog did not get through the scripted rounds within %v (round %d)", desc, 4*promptly, round)
			}
		}
	}
	mu.Lock()
	early := earlyClose
	mu.Unlock()
	if early != "" {
		return ev.Failf("closed-early", "%s: %s", desc, early)
	}
	switch c.End {
	case "local-close":
		mu.Lock()
		open := appCh == nil || isOpen(appCh)
		ended = true
		mu.Unlock()
		if !open && !closedEarly() {
			return ev.Failf("closed-early", "%s: the application's CloseNotify channel is closed before the application called Close", desc)
		}
		// let the answers arrive first (a Close of the in-memory transport discards what was not
		// read yet); both waits return at once unless something holds the reader up
		mc.WaitDrained(20 * time.Millisecond)
		mc.WaitParked(20 * time.Millisecond)
		closed := make(chan struct{})
		go func() { conn.Close(); close(closed) }()
		if !closedIn(closed, promptly) {
			return ev.Failf("local-close-blocked", "%s: Close() did not return within %v", desc, promptly)
		}
	case "watchdog-gives-up":
		// (MaxRetransmits+1) x 30 ms after the request that is not answered the watchdog closes the
		// connection itself; nothing to do but wait
	}
	mu.Lock()
	held := appCh
	mu.Unlock()
	if held != nil && !closedIn(held, 2*promptly) {
		return ev.Failf("never-fired", "%s: the CloseNotify channel the application requested after the handshake was not closed within %v", desc, 2*promptly)
	}
	for i := 0; i < c.Late; i++ {
		if c.End == "watchdog-gives-up" && !transportClosedIn(mc, 2*promptly) {
			break // reported below
		}
		late, bf := requestCh(cn)
		if bf != nil {
			return bf
		}
		if !closedIn(late, 2*promptly) {
			return ev.Failf("late-request-never-fired", "%s: a CloseNotify channel requested after the end of the connection was not closed within %v", desc, 2*promptly)
		}
	}
	if c.End == "watchdog-gives-up" && !transportClosedIn(mc, 2*promptly) {
		return ev.Failf("transport-not-closed", "%s: the watchdog request after the script was never answered and the transport was not closed within %v", desc, 2*promptly)
	}
	if g := leakedIn(promptly); g != "" {
		return ev.Failf("goroutine-leak", "%s; %v later a goroutine the library started for the connection is still alive:\n%s", desc, promptly, g)
	}
	if !transportClosedIn(mc, promptly) {
		return ev.Failf("transport-not-closed", "%s: the transport was not closed within %v", desc, promptly)
	}
	h.mu.Lock()
	seqs := append([]int{}, h.seqs...)
	h.mu.Unlock()
	if handledAll && len(seqs) != sent {
		return ev.Failf("messages-lost-or-duplicated", "%s: %d application messages were delivered, the handler saw %v", desc, sent, seqs)
	}
	return nil
}

func classifyExtraDWA(c ExtraDWACase) (bool, []string) {
	cl := []string{"end:" + c.End, fmt.Sprintf("rounds:%d", len(c.Rounds))}
	extra := c.Unsolicited
	if c.Unsolicited > 0 {
		cl = append(cl, "unsolicited-answers")
	}
	for _, r := range c.Rounds {
		if r.Answers > 1 {
			extra += r.Answers - 1
			if r.Answers == r.AnswerAt {
				cl = append(cl, "one-answer-per-transmission")
			} else {
				cl = append(cl, "duplicate-answers")
			}
		}
		if r.AnswerAt > 1 {
			cl = append(cl, "answered-after-retransmission")
		}
		if r.Failed > 0 {
			cl = append(cl, "failure-answers")
		}
		if r.OnePiece && r.Answers+r.Failed > 1 {
			cl = append(cl, "answers-in-one-segment")
		}
	}
	switch {
	case extra >= 3:
		cl = append(cl, "extra-answers:3+")
	case extra > 0:
		cl = append(cl, "extra-answers:1-2")
	}
	if c.Req {
		cl = append(cl, "application-holds-a-channel")
	}
	if c.Late > 0 {
		cl = append(cl, "request-after-termination")
	}
	seen := map[string]bool{}
	var out []string
	for _, x := range cl {
		if !seen[x] {
			seen[x] = true
			out = append(out, x)
		}
	}
	return extra > 0, out
}

var extraDWAEnds = []string{"eof", "read-error", "garbage", "eof-in-answer", "local-close", "watchdog-gives-up"}

func genExtraDWA(t *rapid.T) ExtraDWACase {
	c := ExtraDWACase{MaxRetransmits: rapid.IntRange(0, 3).Draw(t, "max-retransmits"), Warm: rapid.IntRange(0, 2).Draw(t, "warm"),
		End: rapid.SampledFrom(extraDWAEnds).Draw(t, "end"), Req: rapid.Bool().Draw(t, "req"), Late: rapid.IntRange(0, 2).Draw(t, "late")}
	if rapid.IntRange(0, 2).Draw(t, "with-unsolicited") == 0 {
		c.Unsolicited = rapid.IntRange(1, 5).Draw(t, "unsolicited")
	}
	n := rapid.IntRange(0, 2).Draw(t, "rounds")
	if c.Unsolicited == 0 && n == 0 {
		n = 1
	}
	for i := 0; i < n; i++ {
		r := DWARound{AnswerAt: rapid.IntRange(1, c.MaxRetransmits+1).Draw(t, "answer-at"), OnePiece: rapid.Bool().Draw(t, "one-piece")}
		switch rapid.IntRange(0, 3).Draw(t, "how-many") {
		case 0:
			r.Answers = r.AnswerAt // one per transmission seen
		case 1:
			r.Answers = 1
		default:
			r.Answers = rapid.IntRange(1, 6).Draw(t, "answers")
		}
		if rapid.IntRange(0, 4).Draw(t, "with-failed") == 0 {
			r.Failed = rapid.IntRange(1, 2).Draw(t, "failed")
		}
		c.Rounds = append(c.Rounds, r)
	}
	return c
}

var extraDWAProp = ev.Register(&ev.Prop[ExtraDWACase]{
	ID: "C14", Name: "extra-watchdog-answers",
	Rule: "sm.Client with the watchdog (interval 25 ms, RetransmitInterval 30 ms, MaxRetransmits 0..3) over an in-memory connection, 0..2 application messages first, optionally a CloseNotify channel held by the application; the scripted peer sends 0..5 unsolicited success DWAs after the handshake and serves 0..2 watchdog rounds, answering the k-th transmission of the round's DWR (k = 1..MaxRetransmits+1) with 1..6 success DWAs (one per transmission seen, duplicates) and 0..2 failure DWAs, in one segment or one each; " +
		"then the connection ends: EOF / read error / undecodable message / EOF inside one more answer right behind the last answers, a local Close, or the watchdog gives up on a request that is never answered. Demanded: channels open until then and closed afterwards (also 0..2 requested later), application messages dispatched once each, the transport closed, and within 3 s no goroutine the library started for the connection (reader, notifier, watchdog) left. Non-trivial = at least one success DWA more than the watchdog waits for",
	Gen: genExtraDWA, Run: runExtraDWA, Classify: classifyExtraDWA, Attempts: 3,
})

// Every end of the connection x number of surplus answers in one round / unsolicited, a fixed grid.
func extraDWAGrid() []ExtraDWACase {
	var out []ExtraDWACase
	i := 0
	for _, end := range extraDWAEnds {
		full := end == "eof" || end == "read-error" || end == "local-close" || ev.Thorough()
		// one round: one answer per transmission to a slow peer's third, four answers to the first, six to the second
		for k, r := range []DWARound{{AnswerAt: 3, Answers: 3}, {AnswerAt: 1, Answers: 4}, {AnswerAt: 2, Answers: 6}, {AnswerAt: 1, Answers: 3}} {
			for _, one := range []bool{false, true} {
				i++
				if !full && (k == 1 || k == 2 || one != (i%4 < 2)) {
					continue
				}
				r.OnePiece = one
				out = append(out, ExtraDWACase{MaxRetransmits: 2, Warm: 1, Rounds: []DWARound{r}, End: end, Req: i%2 == 0, Late: i % 2})
			}
		}
		// answers nobody asked for, no round at all
		for _, u := range []int{2, 4, 5} {
			i++
			if !full && u != 4 {
				continue
			}
			out = append(out, ExtraDWACase{MaxRetransmits: i % 3, Warm: i % 2, Unsolicited: u, End: end, Req: i%2 == 1, Late: 1})
		}
		if ev.Thorough() {
			for _, u := range []int{1, 3} {
				for _, answers := range []int{2, 5} {
					out = append(out, ExtraDWACase{MaxRetransmits: 1, Warm: 1, Unsolicited: u, Rounds: []DWARound{{AnswerAt: 1, Answers: 1}, {AnswerAt: 2, Answers: answers, Failed: 1}}, End: end, Req: true, Late: 2})
				}
			}
		}
	}
	return out
}

func TestC14ExtraWatchdogAnswers(t *testing.T) {
	extraDWAProp.Enumerate(t, false, func(yield func(ExtraDWACase) bool) {
		for _, c := range extraDWAGrid() {
			if !yield(c) {
				return
			}
		}
	})
}

func TestC14ExtraWatchdogAnswersRandom(t *testing.T) {
	rec := extraDWAProp.Rec(t)
	t.Cleanup(func() { rec.Count("inconclusive-timing-discarded", atomic.LoadInt64(&extraDWATimingDiscards)) })
	extraDWAProp.Check(t, 15, 1500)
}
