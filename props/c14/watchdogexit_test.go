package c14

import (
	"errors"
	"fmt"
	"testing"
	"time"

	"github.com/fiorix/go-diameter/v4/diam"
	"github.com/fiorix/go-diameter/v4/diam/avp"
	"github.com/fiorix/go-diameter/v4/diam/datatype"
	"github.com/fiorix/go-diameter/v4/diam/sm"

	"verif/internal/ev"
	"verif/internal/memnet"
	"verif/internal/refcodec"
)

// "Once a connection has terminated, every goroutine the library started on its behalf (reader,
// notifier, watchdog) exits" - with a watchdog request in flight: the connection ends after the
// client wrote a DWR and before any answer came (the peer hangs up, the read fails, or the
// application closes). The watchdog goroutine is then waiting for that answer; it has to come back
// and exit (within the RetransmitInterval budget, 50 ms per transmission here, plus slack).

type WatchdogExitCase struct {
	MaxRetransmits int    `json:"max_retransmits"`
	End            string `json:"end"` // eof | read-error | local-close
}

func runWatchdogExit(c WatchdogExitCase) *ev.Failure {
	if pre := leaked(2 * time.Second); pre != "" {
		return ev.Failf("goroutine-leak-after-earlier-case", "a goroutine the library started for a connection of an EARLIER case is still alive (that connection had terminated):\n%s", pre)
	}
	mc := memnet.NewConn()
	machine := sm.New(&sm.Settings{OriginHost: "cli.test", OriginRealm: "test", VendorID: 13, ProductName: "verif",
		HostIPAddresses: []datatype.Address{datatype.Address([]byte{10, 0, 0, 9})}})
	stop := make(chan struct{})
	defer close(stop)
	go func() {
		for {
			select {
			case <-machine.ErrorReports():
			case <-stop:
				return
			}
		}
	}()
	cli := &sm.Client{Handler: machine, MaxRetransmits: uint(c.MaxRetransmits), RetransmitInterval: 50 * time.Millisecond,
		EnableWatchdog: true, WatchdogInterval: 20 * time.Millisecond,
		AuthApplicationID: []*diam.AVP{diam.NewAVP(avp.AuthApplicationID, avp.Mbit, 0, datatype.Unsigned32(4))}}
	dwr := make(chan struct{}, 8)
	mc.WriteHook = func(b []byte, accept func([]byte)) (int, error) {
		accept(b)
		h, err := refcodec.DecodeHeader(b)
		if err != nil {
			return len(b), nil
		}
		switch {
		case h.Code == 257 && h.Flags&0x80 != 0:
			mc.Feed(refcodec.EncodeMessage(refcodec.Header{Version: 1, Code: 257, HopByHop: h.HopByHop, EndToEnd: h.EndToEnd},
				[]*refcodec.Node{{Code: 268, Flags: 0x40, Payload: refcodec.U32(2001)}, {Code: 264, Flags: 0x40, Payload: []byte("srv.example")},
					{Code: 296, Flags: 0x40, Payload: []byte("example")}, {Code: 257, Flags: 0x40, Payload: refcodec.Address(1, []byte{10, 0, 0, 1})},
					{Code: 266, Flags: 0x40, Payload: refcodec.U32(13)}, {Code: 269, Payload: []byte("peer")},
					{Code: 258, Flags: 0x40, Payload: refcodec.U32(4)}}, false))
			mc.WaitParked(2 * time.Second)
		case h.Code == 280 && h.Flags&0x80 != 0:
			select {
			case dwr <- struct{}{}:
			default:
			}
		}
		return len(b), nil
	}
	conn, err := cli.NewConn(mc, "peer")
	if err != nil {
		mc.Close()
		return ev.Failf("harness-handshake", "handshake failed: %v", err)
	}
	defer func() { mc.FeedEOF(); mc.Close() }()
	select {
	case <-dwr: // written, and never answered
	case <-time.After(promptly):
		return ev.Failf("harness-no-dwr", "the client sent no watchdog request within %v", promptly)
	}
	switch c.End {
	case "eof":
		mc.FeedEOF()
	case "read-error":
		mc.FeedErr(errors.New("connection reset by peer"))
	case "local-close":
		conn.Close()
	}
	if !mc.WaitClosed(promptly) {
		return ev.Failf("transport-not-closed", "the transport was not closed within %v of the terminating event %q", promptly, c.End)
	}
	// the answer budget of the request in flight: (MaxRetransmits+1) x 50 ms; promptly (3 s) is far beyond it
	if g := leaked(promptly); g != "" {
		return ev.Failf("goroutine-leak", "the connection ended (%s) while a watchdog request was unanswered (MaxRetransmits %d, RetransmitInterval 50 ms); %v later a goroutine the library started for it is still alive:\n%s", c.End, c.MaxRetransmits, promptly, g)
	}
	return nil
}

var watchdogExitProp = ev.Register(&ev.Prop[WatchdogExitCase]{
	ID: "C14", Name: "watchdog-exits-with-a-request-in-flight",
	Rule: "sm.Client with the watchdog (interval 20 ms, RetransmitInterval 50 ms, MaxRetransmits 0..2) over an in-memory connection; the first DWR is written and never answered; then the peer hangs up / the read fails / the application closes; demanded: the transport is closed and within 3 s no goroutine the library started for the connection (reader, notifier, watchdog) is left. Every case is non-trivial",
	Run:  runWatchdogExit,
	Classify: func(c WatchdogExitCase) (bool, []string) {
		return true, []string{"end:" + c.End, fmt.Sprintf("budget:%d", c.MaxRetransmits+1)}
	},
})

func TestC14WatchdogExitsWithRequestInFlight(t *testing.T) {
	watchdogExitProp.Enumerate(t, true, func(yield func(WatchdogExitCase) bool) {
		for m := 0; m <= 2; m++ {
			for _, end := range []string{"eof", "read-error", "local-close"} {
				if !yield(WatchdogExitCase{MaxRetransmits: m, End: end}) {
					return
				}
			}
		}
	})
}
