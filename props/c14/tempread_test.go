package c14

import (
	"fmt"
	"sync"
	"testing"
	"time"

	"github.com/fiorix/go-diameter/v4/diam"
	"github.com/fiorix/go-diameter/v4/diam/dict"

	"verif/internal/ev"
	"verif/internal/memnet"
)

// "Requesting it never loses inbound messages", and "closed only after termination", at a
// transient receive error (a Read that fails once with a temporary, non-timeout error, after
// which the peer goes on sending). Whether such an error ends the connection is not what this
// checks: the same history is played twice, without and with a CloseNotify request, and the
// request must not change which messages reach the handler; and a closed channel means the
// connection is gone.

type TempReadCase struct {
	Before int `json:"before"` // messages handled before the error (the first one requests the channel in the second run)
	After  int `json:"after"`  // messages the peer sends after the error
}

func playTempRead(c TempReadCase, request bool) (delivered []int, f *ev.Failure) {
	if pre := leaked(2 * time.Second); pre != "" {
		return nil, ev.Failf("goroutine-leak-after-earlier-case", "a goroutine the library started for a connection of an EARLIER case is still alive (that connection had terminated):\n%s", pre)
	}
	mc := memnet.NewConn()
	var mu sync.Mutex
	var ch <-chan struct{}
	handled := make(chan int, 64)
	mux := diam.NewServeMux()
	stop := make(chan struct{})
	defer close(stop)
	go func() {
		for {
			select {
			case <-mux.ErrorReports():
			case <-stop:
				return
			}
		}
	}()
	mux.HandleFunc("ALL", func(cn diam.Conn, m *diam.Message) {
		if request && m.Header.HopByHopID == 1 {
			mu.Lock()
			ch = cn.(diam.CloseNotifier).CloseNotify()
			mu.Unlock()
		}
		mu.Lock()
		delivered = append(delivered, int(m.Header.HopByHopID))
		mu.Unlock()
		handled <- int(m.Header.HopByHopID)
	})
	if _, err := diam.NewConn(mc, "", mux, dict.Default); err != nil {
		return nil, ev.Failf("harness-conn", "%v", err)
	}
	defer func() { mc.FeedEOF(); mc.WaitClosed(promptly); mc.Close() }()
	seq := 1
	for i := 0; i < c.Before; i++ {
		mc.Feed(appMessage(seq, false))
		seq++
		select {
		case <-handled:
		case <-time.After(promptly):
			return nil, ev.Failf("message-not-dispatched", "message %d was not handled within %v", seq-1, promptly)
		}
	}
	if !mc.WaitParked(promptly) {
		return nil, ev.Failf("harness-park", "nothing reads the transport")
	}
	mc.FeedErrOnce(&memnet.TempError{Msg: "scripted transient receive error"})
	time.Sleep(10 * time.Millisecond)
	for i := 0; i < c.After; i++ {
		mc.Feed(appMessage(seq, false))
		seq++
	}
	// let whatever is going to be handled be handled
	idle := time.NewTimer(150 * time.Millisecond)
wait:
	for {
		select {
		case <-handled:
			if !idle.Stop() {
				<-idle.C
			}
			idle.Reset(150 * time.Millisecond)
		case <-idle.C:
			break wait
		}
	}
	mu.Lock()
	notify := ch
	mu.Unlock()
	if request && notify != nil && !isOpen(notify) {
		// the channel says the connection is gone: then it is
		if !mc.WaitClosed(promptly) {
			return nil, ev.Failf("closed-but-connection-alive", "after a transient receive error the CloseNotify channel was closed, but the transport was not closed within %v: the channel announced a termination that did not happen", promptly)
		}
	}
	mc.FeedEOF()
	if !mc.WaitClosed(promptly) {
		return nil, ev.Failf("transport-not-closed", "the transport was not closed within %v of the peer's EOF (CloseNotify requested: %v)", promptly, request)
	}
	if request && notify != nil && !closedWithin(notify, promptly) {
		return nil, ev.Failf("never-fired", "the CloseNotify channel was not closed within %v of the end of the connection", promptly)
	}
	if g := leaked(promptly); g != "" {
		return nil, ev.Failf("goroutine-leak", "after a transient receive error and the peer's EOF (CloseNotify requested: %v) a goroutine the library started for the connection is still alive:\n%s", request, g)
	}
	mu.Lock()
	defer mu.Unlock()
	return append([]int{}, delivered...), nil
}

func runTempRead(c TempReadCase) *ev.Failure {
	without, f := playTempRead(c, false)
	if f != nil {
		return f
	}
	with, f := playTempRead(c, true)
	if f != nil {
		return f
	}
	if fmt.Sprint(without) != fmt.Sprint(with) {
		return ev.Failf("request-changes-delivery", "%d messages, a transient receive error, %d more messages, EOF: without a CloseNotify request the handler received %v, with the request (made by the first handler) it received %v", c.Before, c.After, without, with)
	}
	return nil
}

var tempReadProp = ev.Register(&ev.Prop[TempReadCase]{
	ID: "C14", Name: "transient-read-error",
	Rule: "1..3 messages, then ONE transport Read fails with a temporary (non-timeout) error, then 0..3 more messages and EOF; played twice, without and with a CloseNotify request by the first handler. " +
		"Demanded: the handler receives the same messages in both runs; a closed channel is followed by a closed transport without further input; after EOF the transport is closed, the channel closed and no library goroutine is left. Every case is non-trivial",
	Run:      runTempRead,
	Classify: func(c TempReadCase) (bool, []string) { return true, []string{fmt.Sprintf("after:%d", c.After)} },
})

func TestC14TransientReadError(t *testing.T) {
	tempReadProp.Enumerate(t, true, func(yield func(TempReadCase) bool) {
		for before := 1; before <= 3; before++ {
			for after := 0; after <= 3; after++ {
				if !yield(TempReadCase{Before: before, After: after}) {
					return
				}
			}
		}
	})
}
