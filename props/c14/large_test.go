package c14

import (
	"testing"

	"verif/internal/ev"
)

// "Requesting it never loses, duplicates or reorders inbound messages" for messages that do not fit
// the connection's read buffer (the reader then hands the caller's own, larger buffer down to the
// byte source, which after a CloseNotify request is the pipe fed by the notifier routine): a large
// message before and after the request, the request made from a handler (of a small message, of the
// large message itself), from another goroutine while the reader is parked or at an arbitrary
// moment; the large message fed in one piece together with its neighbours, in a few large fragments
// and in many small ones. The oracle is the one of every C14 history.
func TestC14LargeMessages(t *testing.T) {
	sizes := []int{5000, 8000, 9000, 20000, 70000}
	shapes := [][]int{
		nil,                               // everything in one piece
		{30, 4096, 21, 4097, 100, 10000},  // fragments around the buffer size
		{1, 19, 1, 44, 4000, 2, 60, 8192}, // header split, then large pieces
	}
	ts := []string{"eof", "burst-with-eof"}
	if ev.Thorough() {
		ts = terms
	}
	prop.Enumerate(t, false, func(yield func(Case) bool) {
		for _, size := range sizes {
			for _, cuts := range shapes {
				// small, LARGE, small in one delivery
				trio := Event{Kind: "deliver", N: 3, Big: []int{0, size, 0}, Cuts: cuts, Wait: true}
				alone := Event{Kind: "deliver", N: 1, Big: []int{size}, Cuts: cuts, Wait: true}
				histories := [][]Event{
					{{Kind: "req-now"}, trio},
					{{Kind: "deliver", N: 1, Wait: true}, {Kind: "req-parked"}, trio},
					{{Kind: "deliver", N: 2, Mark: 1, Wait: true}, trio, alone},
					// the handler of the large message itself asks, another large one follows
					{{Kind: "deliver", N: 3, Big: []int{0, size, 0}, Mark: 2, Cuts: cuts}, alone},
					// large before the request, large after it, nothing in between waits
					{alone, {Kind: "req-parked"}, {Kind: "deliver", N: 2, Big: []int{size, 9000}, Cuts: cuts}},
					// no request until the connection is gone
					{trio},
				}
				for hi, evs := range histories {
					for _, term := range ts {
						modes := []string{"conn"}
						if hi == 0 || hi == 5 || ev.Thorough() {
							modes = append(modes, "client") // the watchdog has requested the channel
						}
						for _, mode := range modes {
							if !yield(Case{Mode: mode, Events: evs, Term: term, Late: 1}) {
								return
							}
						}
					}
				}
			}
		}
	})
}
