package c14

import (
	"errors"
	"fmt"
	"sync"
	"testing"
	"time"

	"github.com/fiorix/go-diameter/v4/diam"
	"github.com/fiorix/go-diameter/v4/diam/dict"

	"verif/internal/ev"
	"verif/internal/memnet"
)

// The canonical use of the channel: `<-c.CloseNotify(); c.Close()`. The peer leaves while a
// handler of the connection is still running (held by the application, or stuck in a write the
// peer no longer reads); the channel fires; the application calls Close. That local Close must
// terminate the connection - close the transport, which is also what releases a stuck write -
// and the reader and notifier goroutines must exit.

type CloseAfterCase struct {
	Leave string `json:"leave"` // eof | read-error: how the peer goes away
	Stuck bool   `json:"stuck"` // the running handler is stuck in a Write (else: held by the application until after Close)
	Twice bool   `json:"twice"` // Close is called a second time afterwards
}

func runCloseAfter(c CloseAfterCase) *ev.Failure {
	if pre := leaked(2 * time.Second); pre != "" {
		return ev.Failf("goroutine-leak-after-earlier-case", "a goroutine the library started for a connection of an EARLIER case is still alive (that connection had terminated):\n%s", pre)
	}
	mc := memnet.NewConn()
	var mu sync.Mutex
	var ch <-chan struct{}
	requested := make(chan struct{})
	entered := make(chan struct{})
	hold := make(chan struct{})
	var holdOnce sync.Once
	releaseHold := func() { holdOnce.Do(func() { close(hold) }) }
	defer releaseHold()
	inWrite := make(chan struct{}, 1)
	mc.WriteHook = func(b []byte, accept func([]byte)) (int, error) {
		select {
		case inWrite <- struct{}{}:
		default:
		}
		// the peer does not read: the write ends when the transport is closed under it
		for {
			if closed, _ := mc.Closed(); closed {
				return 0, errors.New("use of closed connection")
			}
			select {
			case <-hold:
				accept(b)
				return len(b), nil
			case <-time.After(time.Millisecond):
			}
		}
	}
	mux := diam.NewServeMux()
	stop := make(chan struct{})
	defer close(stop)
	go func() {
		for {
			select {
			case <-mux.ErrorReports():
			case <-stop:
				return
			}
		}
	}()
	mux.HandleFunc("ALL", func(cn diam.Conn, m *diam.Message) {
		switch m.Header.HopByHopID {
		case 1:
			mu.Lock()
			ch = cn.(diam.CloseNotifier).CloseNotify()
			mu.Unlock()
			close(requested)
		case 2:
			close(entered)
			if c.Stuck {
				m.Answer(2001).WriteTo(cn)
			} else {
				<-hold
			}
		}
	})
	conn, err := diam.NewConn(mc, "", mux, dict.Default)
	if err != nil {
		return ev.Failf("harness-conn", "%v", err)
	}
	cleanup := func() { releaseHold(); mc.FeedEOF(); mc.Close() }
	desc := fmt.Sprintf("peer leaves by %s while a handler is %s", c.Leave, map[bool]string{true: "stuck in a write the peer does not read", false: "held by the application"}[c.Stuck])
	mc.Feed(appMessage(1, false))
	select {
	case <-requested:
	case <-time.After(promptly):
		cleanup()
		return ev.Failf("message-not-dispatched", "the first message was not handled within %v", promptly)
	}
	if !mc.WaitParked(promptly) {
		cleanup()
		return ev.Failf("harness-park", "nothing reads the transport after the CloseNotify request")
	}
	mc.Feed(appMessage(2, false))
	select {
	case <-entered:
	case <-time.After(promptly):
		cleanup()
		return ev.Failf("message-not-dispatched", "the second message was not dispatched within %v", promptly)
	}
	if c.Stuck {
		select {
		case <-inWrite:
		case <-time.After(promptly):
			cleanup()
			return ev.Failf("harness-write", "the handler's write did not reach the transport within %v", promptly)
		}
	}
	if c.Leave == "eof" {
		mc.FeedEOF()
	} else {
		mc.FeedErr(errors.New("connection reset by peer"))
	}
	mu.Lock()
	notify := ch
	mu.Unlock()
	if !closedWithin(notify, promptly) {
		cleanup()
		return ev.Failf("never-fired-while-handler-runs", "%s: the CloseNotify channel requested earlier was not closed within %v", desc, promptly)
	}
	// the application reacts to the channel
	closed := make(chan struct{})
	go func() {
		conn.Close()
		if c.Twice {
			conn.Close()
		}
		close(closed)
	}()
	select {
	case <-closed:
	case <-time.After(promptly):
		cleanup()
		return ev.Failf("local-close-blocked", "%s, the channel fired, and Close() did not return within %v", desc, promptly)
	}
	if !mc.WaitClosed(promptly) {
		cleanup()
		return ev.Failf("close-after-peer-gone-ignored", "%s; the CloseNotify channel fired and the application called Close(): the transport was not closed within %v (a local Close terminates the connection)", desc, promptly)
	}
	releaseHold()
	if g := leaked(promptly); g != "" {
		return ev.Failf("goroutine-leak", "%s, Close() after the channel fired: a goroutine the library started for the connection is still alive:\n%s", desc, g)
	}
	return nil
}

var closeAfterProp = ev.Register(&ev.Prop[CloseAfterCase]{
	ID: "C14", Name: "close-after-channel-fired",
	Rule: "CloseNotify requested by the first handler; while the second message's handler is still running (held by the application, or stuck in a write the peer does not read) the peer leaves (EOF / read error); " +
		"demanded: the channel is closed; the application's Close() (once or twice) returns, closes the transport and no library goroutine of the connection stays behind. Every case is non-trivial",
	Run: runCloseAfter,
	Classify: func(c CloseAfterCase) (bool, []string) {
		return true, []string{"leave:" + c.Leave, fmt.Sprintf("handler-stuck-in-write:%v", c.Stuck)}
	},
})

func TestC14CloseAfterChannelFired(t *testing.T) {
	closeAfterProp.Enumerate(t, true, func(yield func(CloseAfterCase) bool) {
		for _, leave := range []string{"eof", "read-error"} {
			for _, stuck := range []bool{false, true} {
				for _, twice := range []bool{false, true} {
					if !yield(CloseAfterCase{Leave: leave, Stuck: stuck, Twice: twice}) {
						return
					}
				}
			}
		}
	})
}
