package c14

import (
	"crypto/ecdsa"
	"crypto/elliptic"
	"crypto/rand"
	"crypto/tls"
	"crypto/x509"
	"crypto/x509/pkix"
	"fmt"
	"io"
	"math/big"
	"net"
	"sync"
	"sync/atomic"
	"testing"
	"time"

	"github.com/fiorix/go-diameter/v4/diam"
	"github.com/fiorix/go-diameter/v4/diam/avp"
	"github.com/fiorix/go-diameter/v4/diam/datatype"
	"github.com/fiorix/go-diameter/v4/diam/dict"
	"github.com/fiorix/go-diameter/v4/diam/sm"
	"pgregory.net/rapid"

	"verif/internal/ev"
	"verif/internal/refcodec"
)

// The same demands over the transports the library is used with: TCP and TLS on 127.0.0.1
// (*net.TCPConn and *tls.Conn have facilities an in-memory connection lacks - half-close, linger,
// alerts - and the library's code may take other paths for them). The peer is a plain goroutine on
// the other end of the socket. What it does with ITS end after the connection terminated is not the
// library's business: it may close in response, shut down only its sending side, or keep its end
// open and stay silent (a hung peer - the very situation in which an application, or the watchdog
// of sm.Client, calls Close). A connection that has terminated - local Close, the peer's close /
// half-close / reset, undecodable input - has its CloseNotify channels closed and its goroutines
// gone whatever the peer does afterwards.

type SockCase struct {
	Transport string `json:"transport"` // tcp | tls
	Side      string `json:"side"`      // dial (diam.Dial / diam.DialTLS) | newconn (diam.NewConn over a connected *net.TCPConn / tls.Client) | server (diam.Server serving a real listener; TLS: tls.NewListener) | smclient (sm.Client.Dial / DialTLS with the watchdog enabled; the peer answers the CER)
	Msgs      int    `json:"msgs"`      // messages the peer sends, and the handler sees, before the termination (server side: at least 1, the handler is where the application gets hold of the connection)
	Req       string `json:"req"`       // none | handler (requested by the handler of the first message) | idle (by another goroutine while the connection is idle)
	Term      string `json:"term"`      // local-close | peer-close | peer-half-close | peer-reset | garbage | watchdog-gives-up (smclient: the peer answers no watchdog request, the watchdog closes the connection)
	Peer      string `json:"peer"`      // what the peer does with its end once it sees the end of the library's stream: closes | half-closes | holds
	Late      int    `json:"late"`      // requests after the termination
}

var (
	sockCertOnce sync.Once
	sockCert     tls.Certificate
	sockCertErr  error
)

func sockServerCert() (tls.Certificate, error) {
	sockCertOnce.Do(func() {
		key, err := ecdsa.GenerateKey(elliptic.P256(), rand.Reader)
		if err != nil {
			sockCertErr = err
			return
		}
		tmpl := &x509.Certificate{SerialNumber: big.NewInt(14), Subject: pkix.Name{CommonName: "127.0.0.1"}, NotBefore: time.Now().Add(-time.Hour),
			NotAfter: time.Now().Add(24 * time.Hour), KeyUsage: x509.KeyUsageDigitalSignature, ExtKeyUsage: []x509.ExtKeyUsage{x509.ExtKeyUsageServerAuth},
			IPAddresses: []net.IP{net.ParseIP("127.0.0.1")}}
		der, err := x509.CreateCertificate(rand.Reader, tmpl, tmpl, &key.PublicKey, key)
		if err != nil {
			sockCertErr = err
			return
		}
		sockCert = tls.Certificate{Certificate: [][]byte{der}, PrivateKey: key}
	})
	return sockCert, sockCertErr
}

// sockPeer is the other end of the socket.
type sockPeer struct {
	raw     *net.TCPConn
	rw      net.Conn // raw, or the TLS connection over it
	policy  string
	wmu     sync.Mutex    // one message at a time on the way out
	silent  atomic.Bool   // watchdog requests are not answered
	sawEnd  chan struct{} // closed when the peer's read loop saw the end of the library's stream (or an error)
	done    chan struct{} // closed when the read loop has returned
	release chan struct{} // closed at the end of the case: whatever is still open is closed now
}

func newSockPeer(raw net.Conn, useTLS, tlsServer bool, cfg *tls.Config, policy string, silent bool) (*sockPeer, error) {
	tcp, ok := raw.(*net.TCPConn)
	if !ok {
		raw.Close()
		return nil, fmt.Errorf("not a TCP connection: %T", raw)
	}
	p := &sockPeer{raw: tcp, rw: tcp, policy: policy, sawEnd: make(chan struct{}), done: make(chan struct{}), release: make(chan struct{})}
	if useTLS {
		var tc *tls.Conn
		if tlsServer {
			tc = tls.Server(tcp, cfg)
		} else {
			tc = tls.Client(tcp, &tls.Config{InsecureSkipVerify: true})
		}
		tcp.SetDeadline(time.Now().Add(20 * time.Second))
		if err := tc.Handshake(); err != nil {
			tcp.Close()
			return nil, fmt.Errorf("TLS handshake of the peer: %v", err)
		}
		tcp.SetDeadline(time.Time{})
		p.rw = tc
	}
	p.silent.Store(silent)
	go p.loop()
	return p, nil
}

func (p *sockPeer) loop() {
	defer close(p.done)
	p.serve() // until the end of the library's stream, an error, or the peer's own close
	close(p.sawEnd)
	switch p.policy {
	case "closes":
		p.rw.Close()
	case "half-closes":
		p.halfClose()
	}
	<-p.release
	p.rw.Close()
	p.raw.Close()
}

// serve reads what the library sends; a CER is answered, and so are watchdog requests unless the
// peer has gone silent.
func (p *sockPeer) serve() {
	hdr := make([]byte, 20)
	for {
		if _, err := io.ReadFull(p.rw, hdr); err != nil {
			return
		}
		h, err := refcodec.DecodeHeader(hdr)
		if err != nil || h.Length < 20 {
			io.Copy(io.Discard, p.rw)
			return
		}
		if _, err := io.CopyN(io.Discard, p.rw, int64(h.Length)-20); err != nil {
			return
		}
		if h.Flags&0x80 == 0 {
			continue
		}
		switch h.Code {
		case 257:
			p.send(refcodec.EncodeMessage(refcodec.Header{Version: 1, Code: 257, HopByHop: h.HopByHop, EndToEnd: h.EndToEnd},
				[]*refcodec.Node{{Code: 268, Flags: 0x40, Payload: refcodec.U32(2001)}, {Code: 264, Flags: 0x40, Payload: []byte("srv.example")},
					{Code: 296, Flags: 0x40, Payload: []byte("example")}, {Code: 257, Flags: 0x40, Payload: refcodec.Address(1, []byte{127, 0, 0, 1})},
					{Code: 266, Flags: 0x40, Payload: refcodec.U32(13)}, {Code: 269, Payload: []byte("peer")},
					{Code: 258, Flags: 0x40, Payload: refcodec.U32(4)}}, false))
		case 280:
			if !p.silent.Load() {
				p.send(dwaBytes(h.HopByHop, h.EndToEnd, 2001))
			}
		}
	}
}

func (p *sockPeer) send(b []byte) error {
	p.wmu.Lock()
	defer p.wmu.Unlock()
	p.rw.SetWriteDeadline(time.Now().Add(10 * time.Second))
	_, err := p.rw.Write(b)
	return err
}

func (p *sockPeer) halfClose() {
	if tc, ok := p.rw.(*tls.Conn); ok {
		tc.CloseWrite()
		return
	}
	p.raw.CloseWrite()
}

func (p *sockPeer) reset() {
	p.raw.SetLinger(0)
	p.raw.Close()
}

func (p *sockPeer) finish() {
	close(p.release)
	select {
	case <-p.done:
	case <-time.After(promptly):
		p.raw.Close()
	}
}

func runSock(c SockCase) *ev.Failure {
	if pre := leakedIn(2 * time.Second); pre != "" {
		return ev.Failf("goroutine-leak-after-earlier-case", "a goroutine the library started for a connection of an EARLIER case is still alive (that connection had terminated):\n%s", pre)
	}
	useTLS := c.Transport == "tls"
	var cfg *tls.Config
	if useTLS {
		cert, err := sockServerCert()
		if err != nil {
			return ev.Failf("harness-tls", "%v", err)
		}
		cfg = &tls.Config{Certificates: []tls.Certificate{cert}}
	}
	h := &harness{entered: make(chan struct{}), fired: make(chan bool, 1)}
	h.cond = sync.NewCond(&h.mu)
	var connMu sync.Mutex
	var conn diam.Conn
	handle := func(dc diam.Conn, m *diam.Message) {
		connMu.Lock()
		if conn == nil {
			conn = dc
		}
		connMu.Unlock()
		h.handler(dc, m)
	}
	var mux interface {
		diam.Handler
		ErrorReports() <-chan *diam.ErrorReport
	}
	var cli *sm.Client
	if c.Side == "smclient" {
		machine := sm.New(&sm.Settings{OriginHost: "cli.test", OriginRealm: "test", VendorID: 13, ProductName: "verif",
			HostIPAddresses: []datatype.Address{datatype.Address([]byte{127, 0, 0, 1})}})
		machine.HandleFunc("ALL", handle)
		mux = machine
		// the watchdog only acts in the case made for it: one request after 20 ms, one
		// retransmission 20 ms later, Close after 20 ms more
		cli = &sm.Client{Handler: machine, Dict: dict.Default, MaxRetransmits: 1, RetransmitInterval: 5 * time.Second, EnableWatchdog: true, WatchdogInterval: time.Hour,
			AuthApplicationID: []*diam.AVP{diam.NewAVP(avp.AuthApplicationID, avp.Mbit, 0, datatype.Unsigned32(4))}}
		if c.Term == "watchdog-gives-up" {
			cli.WatchdogInterval, cli.RetransmitInterval = 20*time.Millisecond, 20*time.Millisecond
		}
	} else {
		m := diam.NewServeMux()
		m.HandleFunc("ALL", handle)
		mux = m
	}
	stop := make(chan struct{})
	defer close(stop)
	go func() {
		for {
			select {
			case <-mux.ErrorReports():
			case <-stop:
				return
			}
		}
	}()
	tcpLn, err := net.Listen("tcp", "127.0.0.1:0")
	if err != nil {
		return ev.Failf("harness-listen", "%v", err)
	}
	addr := tcpLn.Addr().String()
	var peer *sockPeer
	var cleanups []func()
	cleanup := func() {
		for i := len(cleanups) - 1; i >= 0; i-- {
			cleanups[i]()
		}
	}
	defer cleanup()
	cleanups = append(cleanups, func() { tcpLn.Close() })

	type peerRes struct {
		p   *sockPeer
		err error
	}
	peerc := make(chan peerRes, 1)
	switch c.Side {
	case "server":
		var ln net.Listener = tcpLn
		if useTLS {
			ln = tls.NewListener(tcpLn, cfg)
		}
		srv := &diam.Server{Handler: mux, Dict: dict.Default}
		served := make(chan struct{})
		go func() { srv.Serve(ln); close(served) }()
		cleanups = append(cleanups, func() {
			ln.Close()
			select {
			case <-served:
			case <-time.After(promptly):
			}
		})
		raw, err := net.DialTimeout("tcp", addr, 10*time.Second)
		if err != nil {
			return ev.Failf("harness-dial", "%v", err)
		}
		p, err := newSockPeer(raw, useTLS, false, nil, c.Peer, false)
		peerc <- peerRes{p, err}
	default:
		go func() {
			raw, err := tcpLn.Accept()
			if err != nil {
				peerc <- peerRes{nil, err}
				return
			}
			p, err := newSockPeer(raw, useTLS, true, cfg, c.Peer, c.Term == "watchdog-gives-up")
			peerc <- peerRes{p, err}
		}()
		var dc diam.Conn
		if c.Side == "smclient" {
			if useTLS {
				dc, err = cli.DialTLS(addr, "", "")
			} else {
				dc, err = cli.Dial(addr)
			}
		} else if c.Side == "dial" {
			if useTLS {
				dc, err = diam.DialTLS(addr, "", "", mux, dict.Default)
			} else {
				dc, err = diam.Dial(addr, mux, dict.Default)
			}
		} else {
			var raw net.Conn
			if raw, err = net.DialTimeout("tcp", addr, 10*time.Second); err == nil {
				var rw net.Conn = raw
				if useTLS {
					rw = tls.Client(raw, &tls.Config{InsecureSkipVerify: true})
				}
				if dc, err = diam.NewConn(rw, addr, mux, dict.Default); err != nil {
					raw.Close()
				}
			}
		}
		if err != nil {
			return ev.Failf("harness-dial", "%v", err)
		}
		connMu.Lock()
		conn = dc
		connMu.Unlock()
		cleanups = append(cleanups, func() { dc.Close() })
	}
	select {
	case r := <-peerc:
		if r.err != nil {
			return ev.Failf("harness-peer", "%v", r.err)
		}
		peer = r.p
	case <-time.After(30 * time.Second):
		return ev.Failf("harness-peer", "the peer's side of the connection was not established within 30 s")
	}
	cleanups = append(cleanups, peer.finish)

	desc := fmt.Sprintf("%s connection on 127.0.0.1, library side: %s; CloseNotify requested: %s; termination: %s; the peer %s its end afterwards", c.Transport, c.Side, c.Req, c.Term, map[string]string{"closes": "closes", "half-closes": "shuts down the sending side of", "holds": "keeps open and silent"}[c.Peer])
	sent := 0
	for i := 0; i < c.Msgs; i++ {
		if err := peer.send(appMessage(sent, c.Req == "handler" && i == 0)); err != nil {
			return ev.Failf("harness-peer", "the peer could not send message %d: %v", sent, err)
		}
		sent++
		if !h.handledIn(sent, 2*promptly) {
			return ev.Failf("message-not-dispatched", "%s: message %d of the peer did not reach the handler within %v", desc, sent-1, 2*promptly)
		}
	}
	connMu.Lock()
	dc := conn
	connMu.Unlock()
	if dc == nil {
		return ev.Failf("harness-conn", "no connection (server side needs at least one message)")
	}
	cn := dc.(diam.CloseNotifier)
	if c.Req == "idle" {
		ch, bf := requestCh(cn)
		if bf != nil {
			return bf
		}
		h.mu.Lock()
		h.chans = append(h.chans, ch)
		h.mu.Unlock()
	}
	h.mu.Lock()
	chans := append([]<-chan struct{}{}, h.chans...)
	h.mu.Unlock()
	for i, ch := range chans {
		if c.Term == "watchdog-gives-up" {
			break // the watchdog is on its way already
		}
		if !isOpen(ch) {
			return ev.Failf("closed-early", "%s: CloseNotify channel %d is closed although the connection has not terminated", desc, i)
		}
	}
	switch c.Term {
	case "local-close":
		closed := make(chan struct{})
		go func() { dc.Close(); close(closed) }()
		if !closedIn(closed, 2*promptly) {
			return ev.Failf("local-close-blocked", "%s: Close() did not return within %v", desc, 2*promptly)
		}
	case "peer-close":
		peer.rw.Close()
	case "peer-half-close":
		peer.halfClose()
	case "peer-reset":
		peer.reset()
	case "garbage":
		junk := append(refcodec.EncodeHeader(refcodec.Header{Version: 1, Flags: 0x80, Code: 0xABCDEF, App: 77, Length: 60}), make([]byte, 200)...)
		if err := peer.send(junk); err != nil {
			return ev.Failf("harness-peer", "the peer could not send the undecodable message: %v", err)
		}
	}
	// the connection has terminated (or does so as soon as the library reads what the peer did)
	for i, ch := range chans {
		if !closedIn(ch, 2*promptly) {
			return ev.Failf("never-fired", "%s: CloseNotify channel %d (of %d, requested before the termination) was not closed within %v", desc, i, len(chans), 2*promptly)
		}
	}
	if c.Term == "peer-half-close" || c.Term == "garbage" || c.Term == "watchdog-gives-up" {
		// the peer still reads: it sees the library close its side of the terminated connection
		// (and the requests below are made after the library noticed the termination)
		if !closedIn(peer.sawEnd, 2*promptly) {
			return ev.Failf("transport-not-closed", "%s: %v later the library has not closed its side of the connection", desc, 2*promptly)
		}
	}
	for i := 0; i < c.Late; i++ {
		late, bf := requestCh(cn)
		if bf != nil {
			return bf
		}
		if !closedIn(late, 2*promptly) {
			return ev.Failf("late-request-never-fired", "%s: a CloseNotify channel requested after the termination was not closed within %v", desc, 2*promptly)
		}
	}
	h.mu.Lock()
	seqs := append([]int{}, h.seqs...)
	h.mu.Unlock()
	if len(seqs) != sent {
		return ev.Failf("messages-lost-or-duplicated", "%s: the peer sent %d messages before the termination, the handler saw %v", desc, sent, seqs)
	}
	for i, s := range seqs {
		if s != i {
			return ev.Failf("messages-lost-or-duplicated", "%s: messages must be dispatched once each in order 0..%d, the handler saw %v", desc, sent-1, seqs)
		}
	}
	if g := leakedIn(promptly); g != "" {
		return ev.Failf("goroutine-leak", "%s: %v after the termination a goroutine the library started for the connection is still alive:\n%s", desc, promptly, g)
	}
	return nil
}

func validSock(c SockCase) bool {
	if c.Term == "watchdog-gives-up" {
		return c.Side == "smclient" && c.Msgs == 0 && c.Req != "handler"
	}
	if c.Side == "server" && c.Msgs == 0 {
		return false
	}
	if c.Req == "handler" && c.Msgs == 0 {
		return false
	}
	switch c.Term {
	case "peer-close", "peer-reset":
		return c.Peer == "closes"
	case "peer-half-close":
		return c.Peer != "closes" // it keeps the socket; closing it is the case above
	case "garbage":
		return c.Peer != "half-closes"
	}
	return true
}

func classifySock(c SockCase) (bool, []string) {
	cl := []string{"transport:" + c.Transport, "side:" + c.Side, "term:" + c.Term, "peer-afterwards:" + c.Peer, "request:" + c.Req}
	if c.Late > 0 {
		cl = append(cl, "request-after-termination")
	}
	return c.Req != "none" || c.Late > 0, cl
}

var (
	sockTerms = []string{"local-close", "peer-close", "peer-half-close", "peer-reset", "garbage", "watchdog-gives-up"}
	sockSides = []string{"dial", "newconn", "server", "smclient"}
	sockPeers = []string{"closes", "half-closes", "holds"}
)

func genSock(t *rapid.T) SockCase {
	for {
		c := SockCase{Transport: rapid.SampledFrom([]string{"tcp", "tls"}).Draw(t, "transport"), Side: rapid.SampledFrom(sockSides).Draw(t, "side"),
			Msgs: rapid.IntRange(0, 3).Draw(t, "msgs"), Req: rapid.SampledFrom([]string{"none", "handler", "idle", "idle"}).Draw(t, "req"),
			Term: rapid.SampledFrom(sockTerms).Draw(t, "term"), Peer: rapid.SampledFrom(sockPeers).Draw(t, "peer"), Late: rapid.IntRange(0, 2).Draw(t, "late")}
		if c.Term == "watchdog-gives-up" {
			c.Side, c.Msgs = "smclient", 0
			if c.Req == "handler" {
				c.Req = "idle"
			}
		}
		if c.Side == "server" && c.Msgs == 0 {
			c.Msgs = 1
		}
		if c.Req == "handler" && c.Msgs == 0 {
			c.Msgs = 1
		}
		if c.Req == "none" && c.Late == 0 {
			c.Late = 1
		}
		switch c.Term {
		case "peer-close", "peer-reset":
			c.Peer = "closes"
		case "peer-half-close":
			if c.Peer == "closes" {
				c.Peer = "holds"
			}
		case "garbage":
			if c.Peer == "half-closes" {
				c.Peer = "holds"
			}
		}
		if validSock(c) {
			return c
		}
	}
}

var sockProp = ev.Register(&ev.Prop[SockCase]{
	ID: "C14", Name: "real-sockets",
	Rule: "TCP and TLS (throw-away certificate) connections on 127.0.0.1, the library side made with diam.Dial / diam.DialTLS, with diam.NewConn over a connected *net.TCPConn / tls.Client, accepted by a diam.Server from a real listener, or made with sm.Client.Dial / DialTLS with the watchdog enabled; the peer is a goroutine on the other end of the socket that sends 0..3 messages; CloseNotify requested by the first message's handler, by another goroutine on the idle connection, or only afterwards; termination by a local Close, the peer's close / half-close / reset (SO_LINGER 0), an undecodable message, or (sm.Client) the watchdog giving up on a peer that answers no watchdog request; " +
		"once it sees the end of the library's stream the peer closes its end, shuts down only its sending side, or keeps its end open and stays silent. Demanded: channels open before the termination and closed within 6 s after it (also 0..2 requested afterwards), messages dispatched once each in order, and within 3 s no goroutine the library started for the connection left - whatever the peer does with its end. Whether a local Close closes the channel before or after the transport is not looked at. Non-trivial = at least one CloseNotify request",
	Gen: genSock, Run: runSock, Classify: classifySock, Attempts: 2,
})

// Every termination x what the peer does afterwards, on both transports and all three ways to get a connection.
func sockGrid() []SockCase {
	var out []SockCase
	i, j := 0, 0
	for _, tr := range []string{"tcp", "tls"} {
		for _, side := range sockSides {
			for _, term := range sockTerms {
				for _, p := range sockPeers {
					i++
					c := SockCase{Transport: tr, Side: side, Term: term, Peer: p, Msgs: j % 3, Req: []string{"idle", "handler", "none", "idle"}[j%4], Late: 1 + j%2}
					if term == "watchdog-gives-up" {
						c.Msgs = 0
						if c.Req == "handler" {
							c.Req = "idle"
						}
					}
					if c.Side == "server" && c.Msgs == 0 {
						c.Msgs = 1
					}
					if c.Req == "handler" && c.Msgs == 0 {
						c.Msgs = 1
					}
					if !validSock(c) {
						continue
					}
					j++
					out = append(out, c)
				}
			}
		}
	}
	return out
}

func TestC14RealSockets(t *testing.T) {
	sockProp.Enumerate(t, false, func(yield func(SockCase) bool) {
		for _, c := range sockGrid() {
			if !yield(c) {
				return
			}
		}
	})
}

func TestC14RealSocketsRandom(t *testing.T) { sockProp.Check(t, 60, 2400) }
