// C14 - CloseNotify fires exactly once when, and only when, the connection is gone.
package c14

import (
	"crypto/tls"
	"errors"
	"fmt"
	"io"
	"log"
	"net"
	"runtime"
	"strings"
	"sync"
	"testing"
	"time"

	"github.com/fiorix/go-diameter/v4/diam"
	"github.com/fiorix/go-diameter/v4/diam/avp"
	"github.com/fiorix/go-diameter/v4/diam/datatype"
	"github.com/fiorix/go-diameter/v4/diam/dict"
	"github.com/fiorix/go-diameter/v4/diam/sm"
	"pgregory.net/rapid"

	"verif/internal/ev"
	"verif/internal/memnet"
	"verif/internal/refcodec"
)

func init() { log.SetOutput(io.Discard) }

// Event is one step before the terminating event.
type Event struct {
	Kind string `json:"kind"`           // deliver | req-parked | req-now | write-fault (a Write of the application fails with a temporary error; the connection lives on)
	N    int    `json:"n,omitempty"`    // deliver: number of messages
	Cuts []int  `json:"cuts,omitempty"` // deliver: fragment sizes (remainder = last fragment)
	Mark int    `json:"mark,omitempty"` // deliver: 1-based index of the message whose handler requests CloseNotify (0: none)
	Wait bool   `json:"wait,omitempty"` // deliver: wait until every message was handled before the next event
	Big  []int  `json:"big,omitempty"`  // deliver: Big[k] > 0: message k (0-based) of the event carries an opaque AVP of that many bytes (messages larger than the connection's read buffer)
}

type Case struct {
	Mode   string  `json:"mode"` // conn | client (sm.Client with the watchdog enabled)
	Events []Event `json:"events"`
	Term   string  `json:"term"` // eof | read-error | garbage-small | garbage-large | local-close | last-with-eof | last-with-error | handler-panic | tls-handshake-failure
	Late   int     `json:"late"` // CloseNotify requests made after termination
	// StuckWrite: when the terminating event happens, a Write of the application (another
	// goroutine: an asynchronous answer, a server-initiated request) is stuck in the transport
	// because the peer does not read. Termination must not wait for it.
	StuckWrite bool `json:"stuck_write,omitempty"`
}

const (
	promptly = 10 * time.Second // bounded waits for events that must happen: only a failing run ever waits this long (3 s was once exceeded by a whole-process stall at load 100)
	markBit  = 0x40000000
	panicBit = 0x20000000 // the handler of this message panics
	waitBit  = 0x10000000 // the handler of this message waits for the first CloseNotify channel to be closed
)

func appMessage(seq int, marked bool) []byte {
	hbh := uint32(seq)
	if marked {
		hbh |= markBit
	}
	// an accounting request (ACR, base application) with a little content
	return refcodec.EncodeMessage(refcodec.Header{Version: 1, Flags: 0x80, Code: 271, App: 0, HopByHop: hbh, EndToEnd: 5},
		[]*refcodec.Node{{Code: 263, Flags: 0x40, Payload: []byte(fmt.Sprintf("sess;%d", seq))}, {Code: 3000001, Payload: make([]byte, seq%7)}}, false)
}

const bigAVP = 3000002 // an opaque AVP (unknown to the dictionary, no M bit) that makes a message large

// bigBody is the recognisable content of the large AVP of message seq.
func bigBody(seq, size int) []byte {
	b := make([]byte, size)
	for i := range b {
		b[i] = byte(seq*31 + i*7 + i>>8)
	}
	return b
}

// bigMessage is appMessage with one more AVP of size bytes: the whole message is size+~70 bytes.
func bigMessage(seq int, marked bool, size int) []byte {
	hbh := uint32(seq)
	if marked {
		hbh |= markBit
	}
	return refcodec.EncodeMessage(refcodec.Header{Version: 1, Flags: 0x80, Code: 271, App: 0, HopByHop: hbh, EndToEnd: 5},
		[]*refcodec.Node{{Code: 263, Flags: 0x40, Payload: []byte(fmt.Sprintf("sess;%d", seq))}, {Code: bigAVP, Payload: bigBody(seq, size)},
			{Code: 3000001, Payload: make([]byte, seq%7)}}, false)
}

func fragments(all []byte, cuts []int) [][]byte {
	var out [][]byte
	off := 0
	for _, n := range cuts {
		if n <= 0 || off >= len(all) {
			continue
		}
		if off+n > len(all) {
			n = len(all) - off
		}
		out = append(out, all[off:off+n])
		off += n
	}
	if off < len(all) {
		out = append(out, all[off:])
	}
	return out
}

type harness struct {
	mu    sync.Mutex
	seqs  []int
	sizes []int // per handled message: length of its large AVP (0: none, -1: content damaged)
	chans []<-chan struct{}
	cond  *sync.Cond

	entered chan struct{} // closed when the waiting handler (waitBit) has started
	fired   chan bool     // what the waiting handler saw: the channel closed (true) or patience ran out
}

func (h *harness) handler(c diam.Conn, m *diam.Message) {
	if m.Header.HopByHopID&panicBit != 0 {
		panic("scripted handler panic")
	}
	if m.Header.HopByHopID&waitBit != 0 {
		// net/http style: long work in a handler that is abandoned when the peer goes away
		h.mu.Lock()
		ch := h.chans[0]
		h.mu.Unlock()
		close(h.entered)
		select {
		case <-ch:
			h.fired <- true
		case <-time.After(promptly):
			h.fired <- false
		}
	}
	seq := int(m.Header.HopByHopID &^ (markBit | waitBit))
	var ch <-chan struct{}
	if m.Header.HopByHopID&markBit != 0 {
		ch = c.(diam.CloseNotifier).CloseNotify()
	}
	size := 0
	for _, a := range m.AVP {
		if a.Code == bigAVP && a.Data != nil {
			body := a.Data.Serialize()
			size = len(body)
			if string(body) != string(bigBody(seq, size)) {
				size = -1
			}
		}
	}
	h.mu.Lock()
	h.seqs = append(h.seqs, seq)
	h.sizes = append(h.sizes, size)
	if ch != nil {
		h.chans = append(h.chans, ch)
	}
	h.cond.Broadcast()
	h.mu.Unlock()
}

func (h *harness) waitHandled(n int, d time.Duration) bool {
	deadline := time.Now().Add(d)
	tm := time.AfterFunc(d, func() { h.mu.Lock(); h.cond.Broadcast(); h.mu.Unlock() })
	defer tm.Stop()
	h.mu.Lock()
	defer h.mu.Unlock()
	for len(h.seqs) < n {
		if time.Now().After(deadline) {
			return false
		}
		h.cond.Wait()
	}
	return true
}

func closedWithin(ch <-chan struct{}, d time.Duration) bool {
	select {
	case <-ch:
		return true
	case <-time.After(d):
		return false
	}
}

func isOpen(ch <-chan struct{}) bool {
	select {
	case <-ch:
		return false
	default:
		return true
	}
}

// leakMarkers: the goroutines the statement names, and any goroutine started by the library's
// connection code (all goroutines of the harness are started from this package).
var leakMarkers = []string{"diam.(*conn).serve", "closeNotify.func", "sm.(*Client).watchdog", "created by github.com/fiorix/go-diameter/v4/diam."}

// leaked polls until no goroutine of the library is left (or the deadline passes).
func leaked(d time.Duration) string {
	deadline := time.Now().Add(d)
	buf := make([]byte, 1<<20)
	for {
		n := runtime.Stack(buf, true)
		found := ""
		for _, g := range strings.Split(string(buf[:n]), "\n\n") {
			for _, mk := range leakMarkers {
				if strings.Contains(g, mk) {
					found = g
				}
			}
		}
		if found == "" {
			return ""
		}
		if time.Now().After(deadline) {
			if len(found) > 900 {
				found = found[:900]
			}
			return found
		}
		time.Sleep(2 * time.Millisecond)
	}
}

// requestCh calls CloseNotify on a goroutine of its own and waits a bounded time for it: a call
// that does not return ("no matter when it was requested") is a violation, not a hung check.
func requestCh(cn diam.CloseNotifier) (<-chan struct{}, *ev.Failure) {
	got := make(chan (<-chan struct{}), 1)
	go func() { got <- cn.CloseNotify() }()
	select {
	case ch := <-got:
		return ch, nil
	case <-time.After(2 * promptly):
		return nil, ev.Failf("closenotify-call-blocked", "a CloseNotify() call did not return within %v", 2*promptly)
	}
}

func runCase(c Case) *ev.Failure {
	if pre := leaked(2 * time.Second); pre != "" {
		return ev.Failf("goroutine-leak-after-earlier-case", "a goroutine the library started for a connection of an EARLIER case is still alive (that connection had terminated):\n%s", pre)
	}
	h := &harness{entered: make(chan struct{}), fired: make(chan bool, 1)}
	h.cond = sync.NewCond(&h.mu)
	mc := memnet.NewConn()
	var conn diam.Conn
	stop := make(chan struct{})
	defer close(stop)
	drain := func(ch <-chan *diam.ErrorReport) {
		go func() {
			for {
				select {
				case <-ch:
				case <-stop:
					return
				}
			}
		}()
	}
	switch c.Mode {
	case "client":
		machine := sm.New(&sm.Settings{OriginHost: "cli.test", OriginRealm: "test", VendorID: 13, ProductName: "verif",
			HostIPAddresses: []datatype.Address{datatype.Address([]byte{10, 0, 0, 9})}})
		machine.HandleFunc("ALL", h.handler)
		drain(machine.ErrorReports())
		cli := &sm.Client{Handler: machine, MaxRetransmits: 0, RetransmitInterval: 5 * time.Second,
			EnableWatchdog: true, WatchdogInterval: 30 * time.Second,
			AuthApplicationID: []*diam.AVP{diam.NewAVP(avp.AuthApplicationID, avp.Mbit, 0, datatype.Unsigned32(4))}}
		type res struct {
			c   diam.Conn
			err error
		}
		done := make(chan res, 1)
		go func() { cc, err := cli.NewConn(mc, "peer"); done <- res{cc, err} }()
		if !mc.WaitWritten(20, promptly) {
			mc.Close()
			return ev.Failf("harness-client", "no CER was written within %v", promptly)
		}
		cer, _ := refcodec.DecodeHeader(mc.Written())
		cea := refcodec.EncodeMessage(refcodec.Header{Version: 1, Flags: 0, Code: 257, App: 0, HopByHop: cer.HopByHop, EndToEnd: cer.EndToEnd},
			[]*refcodec.Node{{Code: 268, Flags: 0x40, Payload: refcodec.U32(2001)}, {Code: 264, Flags: 0x40, Payload: []byte("srv.test")},
				{Code: 296, Flags: 0x40, Payload: []byte("test")}, {Code: 257, Flags: 0x40, Payload: refcodec.Address(1, []byte{10, 0, 0, 1})},
				{Code: 266, Flags: 0x40, Payload: refcodec.U32(13)}, {Code: 269, Payload: []byte("peer")},
				{Code: 258, Flags: 0x40, Payload: refcodec.U32(4)}}, false)
		mc.Feed(cea)
		select {
		case r := <-done:
			if r.err != nil {
				mc.Close()
				return ev.Failf("harness-client", "handshake failed: %v", r.err)
			}
			conn = r.c
		case <-time.After(promptly):
			mc.Close()
			return ev.Failf("harness-client", "NewConn did not return within %v of the CEA", promptly)
		}
	default:
		mux := diam.NewServeMux()
		mux.HandleFunc("ALL", h.handler)
		drain(mux.ErrorReports())
		var err error
		var rw net.Conn = mc
		if c.Term == "tls-handshake-failure" {
			// a TLS connection whose peer does not speak TLS: the handshake fails in the serve loop
			rw = tls.Client(mc, &tls.Config{InsecureSkipVerify: true})
		}
		if conn, err = diam.NewConn(rw, "", mux, dict.Default); err != nil {
			return ev.Failf("harness-conn", "%v", err)
		}
	}
	cn := conn.(diam.CloseNotifier)
	cleanup := func() { mc.Close(); mc.WaitClosed(time.Second) }

	sent := 0
	bigSent := map[int]int{} // message number -> size of its large AVP
	for i, e := range c.Events {
		switch e.Kind {
		case "deliver":
			var all []byte
			for k := 0; k < e.N; k++ {
				if k < len(e.Big) && e.Big[k] > 0 {
					all = append(all, bigMessage(sent, e.Mark == k+1, e.Big[k])...)
					bigSent[sent] = e.Big[k]
				} else {
					all = append(all, appMessage(sent, e.Mark == k+1)...)
				}
				sent++
			}
			mc.Feed(fragments(all, e.Cuts)...)
			if e.Wait && !h.waitHandled(sent, promptly) {
				cleanup()
				return ev.Failf("message-not-dispatched", "event %d: %d messages were delivered in total, only %d reached the handler within %v", i, sent, len(h.seqs), promptly)
			}
		case "req-parked":
			if !h.waitHandled(sent, promptly) {
				cleanup()
				return ev.Failf("message-not-dispatched", "event %d: %d messages were delivered, only %d reached the handler within %v", i, sent, len(h.seqs), promptly)
			}
			if !mc.WaitParked(promptly) {
				cleanup()
				return ev.Failf("harness-park", "event %d: the reader did not park", i)
			}
			ch, bf := requestCh(cn)
			if bf != nil {
				cleanup()
				return bf
			}
			h.mu.Lock()
			h.chans = append(h.chans, ch)
			h.mu.Unlock()
		case "req-now":
			ch, bf := requestCh(cn)
			if bf != nil {
				cleanup()
				return bf
			}
			h.mu.Lock()
			h.chans = append(h.chans, ch)
			h.mu.Unlock()
		case "write-fault":
			// the transport refuses one Write with a temporary error (a write deadline that
			// expired, a full send buffer): that is not the end of the connection
			mc.WriteHook = func(b []byte, accept func([]byte)) (int, error) {
				return 0, &memnet.TempError{Msg: "scripted temporary write error"}
			}
			_, werr := conn.Write(appMessage(9000+i, false))
			mc.WriteHook = nil
			if werr == nil {
				cleanup()
				return ev.Failf("harness-write", "event %d: the scripted write fault was not reported to the caller", i)
			}
			h.mu.Lock()
			chs := append([]<-chan struct{}{}, h.chans...)
			h.mu.Unlock()
			for k, ch := range chs {
				if !isOpen(ch) {
					cleanup()
					return ev.Failf("closed-early", "event %d: after a Write failed with a temporary error CloseNotify channel %d is closed although the connection has not terminated (it still receives and sends)", i, k)
				}
			}
		}
	}
	// everything delivered so far must be dispatched before the connection goes away
	if !h.waitHandled(sent, promptly) {
		cleanup()
		return ev.Failf("message-not-dispatched", "%d messages were delivered before termination, only %d reached the handler within %v", sent, len(h.seqs), promptly)
	}
	h.mu.Lock()
	chans := append([]<-chan struct{}{}, h.chans...)
	h.mu.Unlock()
	for i, ch := range chans {
		if !isOpen(ch) {
			cleanup()
			return ev.Failf("closed-early", "CloseNotify channel %d is closed although the connection has not terminated", i)
		}
	}
	unstick := make(chan struct{})
	var unstickOnce sync.Once
	releaseWrite := func() { unstickOnce.Do(func() { close(unstick) }) }
	defer releaseWrite()
	if c.StuckWrite && c.Term != "tls-handshake-failure" {
		inWrite := make(chan struct{}, 1)
		mc.WriteHook = func(b []byte, accept func([]byte)) (int, error) {
			select {
			case inWrite <- struct{}{}:
			default:
			}
			<-unstick
			accept(b)
			return len(b), nil
		}
		go conn.Write(appMessage(9999, false))
		select {
		case <-inWrite:
		case <-time.After(promptly):
			cleanup()
			return ev.Failf("harness-write", "the application's Write did not reach the transport within %v", promptly)
		}
		oldCleanup := cleanup
		cleanup = func() { releaseWrite(); oldCleanup() }
	}
	waits := strings.HasSuffix(c.Term, "-handler-waits")
	if waits {
		// A channel exists, the reader has gone back to the transport since it was requested (one
		// more message makes sure of it, so the notifier routine is what reads the transport now),
		// and then a handler waits for the channel while the connection goes away under it.
		if len(chans) == 0 {
			ch, bf := requestCh(cn)
			if bf != nil {
				cleanup()
				return bf
			}
			h.mu.Lock()
			h.chans = append(h.chans, ch)
			h.mu.Unlock()
			chans = append(chans, ch)
		}
		mc.Feed(appMessage(sent, false))
		sent++
		if !h.waitHandled(sent, promptly) || !mc.WaitParked(promptly) {
			cleanup()
			return ev.Failf("message-not-dispatched", "the message after the CloseNotify request was not handled within %v", promptly)
		}
		m := appMessage(sent, false)
		m[12] |= byte(waitBit >> 24)
		sent++
		mc.Feed(m)
		select {
		case <-h.entered:
		case <-time.After(promptly):
			cleanup()
			return ev.Failf("message-not-dispatched", "the message whose handler waits was not dispatched within %v", promptly)
		}
		if !mc.WaitParked(promptly) {
			cleanup()
			return ev.Failf("harness-park", "nothing reads the transport while the handler waits")
		}
	}
	switch strings.TrimSuffix(c.Term, "-handler-waits") {
	case "eof":
		mc.FeedEOF()
	case "read-error":
		mc.FeedErr(errors.New("connection reset by peer"))
	case "garbage-small", "garbage-large":
		n := 200
		if c.Term == "garbage-large" {
			n = 9000
		}
		junk := append(refcodec.EncodeHeader(refcodec.Header{Version: 1, Flags: 0x80, Code: 0xABCDEF, App: 77, Length: 60}), make([]byte, n)...)
		mc.Feed(junk)
	case "local-close":
		closed := make(chan struct{})
		go func() { conn.Close(); close(closed) }()
		select {
		case <-closed:
		case <-time.After(promptly):
			cleanup()
			return ev.Failf("local-close-blocked", "Close() did not return within %v (a Write of another goroutine is stuck in the transport: %v)", promptly, c.StuckWrite)
		}
	case "burst-with-eof", "burst-then-eof":
		// several more messages arrive in one piece with the peer's EOF right behind them (a peer
		// that pipelines and leaves): all of them were received before the connection ended
		var burst []byte
		for k := 0; k < 3; k++ {
			burst = append(burst, appMessage(sent, false)...)
			sent++
		}
		if c.Term == "burst-with-eof" {
			mc.ErrWithData = true
		}
		mc.FeedWithErr(io.EOF, burst)
	case "last-with-eof", "last-with-error":
		// one more valid message whose last bytes arrive together with the end of the stream
		mc.ErrWithData = true
		var e error = io.EOF
		if c.Term == "last-with-error" {
			e = errors.New("connection reset by peer")
		}
		mc.FeedWithErr(e, appMessage(sent, false))
		sent++
	case "handler-panic":
		m := appMessage(sent, false)
		// set the panic bit in the hop-by-hop id (bytes 12..15)
		m[12] |= byte(panicBit >> 24)
		mc.Feed(m)
	case "tls-handshake-failure":
		mc.Feed([]byte("220 mail.example ESMTP ready\r\n"))
		mc.FeedEOF()
	}
	if waits {
		if !<-h.fired {
			cleanup()
			return ev.Failf("never-fired-while-handler-waits", "a handler waited %v for a CloseNotify channel requested earlier (the notifier routine was reading the transport); the connection terminated (%q) and the channel was not closed", promptly, c.Term)
		}
	}
	if !mc.WaitClosed(promptly) {
		cleanup()
		return ev.Failf("transport-not-closed", "the transport was not closed within %v of the terminating event %q", promptly, c.Term)
	}
	for i, ch := range chans {
		if !closedWithin(ch, promptly) {
			cleanup()
			return ev.Failf("never-fired", "CloseNotify channel %d (of %d) was not closed within %v of the terminating event %q", i, len(chans), promptly, c.Term)
		}
	}
	for i := 0; i < c.Late; i++ {
		late, bf := requestCh(cn)
		if bf != nil {
			cleanup()
			return bf
		}
		if !closedWithin(late, promptly) {
			cleanup()
			return ev.Failf("late-request-never-fired", "a CloseNotify channel requested after termination (%q) was not closed within %v", c.Term, promptly)
		}
	}
	if waits {
		h.waitHandled(sent, promptly) // the waiting handler records its message after it saw the channel
	}
	h.mu.Lock()
	seqs := append([]int{}, h.seqs...)
	sizes := append([]int{}, h.sizes...)
	h.mu.Unlock()
	if len(seqs) != sent {
		return ev.Failf("messages-lost-or-duplicated", "%d messages were delivered before termination, the handler saw %v", sent, seqs)
	}
	for i, s := range seqs {
		if s != i {
			return ev.Failf("messages-lost-or-duplicated", "messages must be dispatched once each in order 0..%d, the handler saw %v", sent-1, seqs)
		}
	}
	for i, sz := range sizes {
		if sz != bigSent[i] {
			return ev.Failf("message-damaged", "message %d was sent with a large AVP of %d bytes; the handler received it with %d bytes (-1: right length, other content; 0: no such AVP): a message delivered with another message's bytes is a lost message", i, bigSent[i], sz)
		}
	}
	if g := leaked(promptly); g != "" {
		return ev.Failf("goroutine-leak", "after termination (%q) a goroutine started by the library is still alive after %v:\n%s", c.Term, promptly, g)
	}
	return nil
}

var terms = []string{"eof", "read-error", "garbage-small", "garbage-large", "local-close", "last-with-eof", "last-with-error", "handler-panic",
	"eof-handler-waits", "read-error-handler-waits", "local-close-handler-waits", "burst-with-eof", "burst-then-eof"}

func classify(c Case) (bool, []string) {
	cl := []string{"mode:" + c.Mode, "term:" + c.Term}
	reqs, msgs := 0, 0
	for _, e := range c.Events {
		switch e.Kind {
		case "deliver":
			msgs += e.N
			before := reqs
			if e.Mark > 0 && e.Mark <= e.N {
				reqs++
				cl = append(cl, "request-in-handler")
			}
			if len(e.Cuts) > 0 {
				cl = append(cl, "fragmented")
			}
			for k, sz := range e.Big {
				if sz > 0 && k < e.N {
					// the request of a marked handler is made when its own message has been read
					if before > 0 || c.Mode == "client" || (e.Mark > 0 && k+1 > e.Mark) {
						cl = append(cl, "large-message-after-request")
					} else {
						cl = append(cl, "large-message-before-request")
					}
				}
			}
		case "req-parked":
			reqs++
			cl = append(cl, "request-while-parked")
		case "req-now":
			reqs++
			cl = append(cl, "request-any-time")
		case "write-fault":
			cl = append(cl, "failed-write-on-a-live-connection")
		}
	}
	if strings.HasSuffix(c.Term, "-handler-waits") {
		reqs++
		msgs += 2
	}
	if c.Mode == "client" {
		reqs++ // the watchdog goroutine requests it right after the handshake
	}
	if c.Late > 0 {
		cl = append(cl, "request-after-termination")
	}
	if c.StuckWrite {
		cl = append(cl, "write-stuck-in-transport-at-termination")
	}
	seen := map[string]bool{}
	var out []string
	for _, x := range cl {
		if !seen[x] {
			seen[x] = true
			out = append(out, x)
		}
	}
	return (reqs > 0 || c.Late > 0) && msgs > 0, out
}

// bigSizes: sizes of the opaque AVP of a large message, around the read buffer of the connection
// (4 KiB) and its double, the copy buffer of io.Copy (32 KiB) and beyond.
var bigSizes = []int{3000, 4040, 4100, 5000, 8000, 8200, 9000, 20000, 33000, 70000}

func genEvent(t *rapid.T) Event {
	switch rapid.IntRange(0, 5).Draw(t, "event") {
	case 0:
		return Event{Kind: "req-parked"}
	case 1:
		return Event{Kind: "req-now"}
	case 5:
		return Event{Kind: "write-fault"}
	default:
		e := Event{Kind: "deliver", N: rapid.IntRange(1, 4).Draw(t, "n"), Wait: rapid.Bool().Draw(t, "wait")}
		if rapid.Bool().Draw(t, "marked") {
			e.Mark = rapid.IntRange(1, e.N).Draw(t, "mark")
		}
		k := rapid.IntRange(0, 6).Draw(t, "cuts")
		for i := 0; i < k; i++ {
			e.Cuts = append(e.Cuts, rapid.SampledFrom([]int{1, 2, 19, 20, 21, 30, 44, 60, 100}).Draw(t, "cut"))
		}
		if rapid.IntRange(0, 3).Draw(t, "large") == 0 {
			// one message of the event is larger than the read buffer of the connection; the
			// fragments may be large, too
			e.Big = make([]int, e.N)
			e.Big[rapid.IntRange(0, e.N-1).Draw(t, "large-at")] = rapid.SampledFrom(bigSizes).Draw(t, "large-size")
			for i := range e.Cuts {
				if rapid.Bool().Draw(t, "large-cut") {
					e.Cuts[i] = rapid.SampledFrom([]int{4000, 4076, 4096, 4097, 5000, 8192, 10000, 33000}).Draw(t, "cut")
				}
			}
		}
		return e
	}
}

func genCase(t *rapid.T) Case {
	c := Case{Mode: "conn", Term: rapid.SampledFrom(terms).Draw(t, "term"), Late: rapid.IntRange(0, 2).Draw(t, "late"), StuckWrite: rapid.IntRange(0, 3).Draw(t, "stuck-write") == 0}
	if rapid.IntRange(0, 4).Draw(t, "client-mode") == 0 {
		c.Mode = "client"
	}
	n := rapid.IntRange(0, 8).Draw(t, "events")
	for i := 0; i < n; i++ {
		c.Events = append(c.Events, genEvent(t))
	}
	return c
}

var prop = ev.Register(&ev.Prop[Case]{
	ID: "C14", Name: "closenotify",
	Rule: "orders of events {deliver 1..4 valid messages in arbitrary fragments (optionally one handler requests CloseNotify; 1 in 4 deliveries with one message of 3..70 KB, larger than the read buffer of the connection, in fragments of up to 33 KB, its content compared in the handler), request CloseNotify from another goroutine while the reader is parked, request it at an arbitrary moment, a Write that fails with a temporary error on the live connection} followed by exactly one terminating event {peer EOF, transport read error, undecodable message with 200 B / 9 KB of trailing data, local Close, the last message together with EOF / error, handler panic, three messages in one piece with EOF right behind them; EOF / read error / local Close while a handler waits for a channel requested earlier} and 0..2 requests after termination; 1 in 4 with a Write of another goroutine stuck in the transport when the connection terminates; on a plain connection and through sm.Client with the watchdog enabled; every channel must be open before and closed within 3 s after termination, messages dispatched once each in order, and no goroutine with diam.(*conn).serve / closeNotify.func / sm.(*Client).watchdog on its stack may remain; non-trivial = at least one CloseNotify request and one delivered message; distinct by event order",
	Gen:  genCase, Run: runCase, Classify: classify, Attempts: 5,
})

// All orders of up to maxEvents events over a small alphabet, every terminator.
func TestC14Exhaustive(t *testing.T) {
	alphabet := []Event{
		{Kind: "deliver", N: 1, Wait: true},
		{Kind: "deliver", N: 2, Mark: 1, Cuts: []int{21}},
		{Kind: "req-parked"},
		{Kind: "req-now"},
	}
	maxEvents := ev.Pick(3, 5)
	prop.Enumerate(t, true, func(yield func(Case) bool) {
		var rec func(prefix []Event) bool
		rec = func(prefix []Event) bool {
			for _, term := range terms {
				for late := 0; late <= 1; late++ {
					if !yield(Case{Mode: "conn", Events: append([]Event{}, prefix...), Term: term, Late: late}) {
						return false
					}
				}
			}
			if len(prefix) == maxEvents {
				return true
			}
			for _, e := range alphabet {
				if !rec(append(prefix, e)) {
					return false
				}
			}
			return true
		}
		rec(nil)
	})
}

func TestC14Random(t *testing.T) { prop.Check(t, 600, 20000) }

func TestC14ClientWatchdog(t *testing.T) {
	prop.Enumerate(t, false, func(yield func(Case) bool) {
		for _, term := range terms {
			for _, evs := range [][]Event{nil, {{Kind: "deliver", N: 2, Wait: true}}, {{Kind: "deliver", N: 1, Mark: 1}, {Kind: "req-parked"}}} {
				if !yield(Case{Mode: "client", Events: evs, Term: term, Late: 1}) {
					return
				}
			}
		}
	})
}

func TestC14Keep(t *testing.T) { ev.RunKeep(t, "C14") }
func TestReplay(t *testing.T)  { ev.Replay(t) }

// A TLS connection whose handshake fails (the peer answers the ClientHello with an SMTP
// banner and hangs up): the connection terminates without ever reading a message.
func TestC14TLSHandshakeFailure(t *testing.T) {
	prop.Enumerate(t, true, func(yield func(Case) bool) {
		for _, evs := range [][]Event{nil, {{Kind: "req-now"}}, {{Kind: "req-parked"}}, {{Kind: "req-now"}, {Kind: "req-parked"}}} {
			for late := 0; late <= 2; late++ {
				if !yield(Case{Mode: "conn", Events: evs, Term: "tls-handshake-failure", Late: late}) {
					return
				}
			}
		}
	})
}

// Every terminating event with a Write of another goroutine stuck in the transport.
func TestC14StuckWrite(t *testing.T) {
	prop.Enumerate(t, false, func(yield func(Case) bool) {
		for _, term := range terms {
			for _, evs := range [][]Event{nil, {{Kind: "deliver", N: 1, Wait: true}}, {{Kind: "req-now"}}, {{Kind: "deliver", N: 2, Mark: 1, Wait: true}}, {{Kind: "req-parked"}, {Kind: "deliver", N: 1, Wait: true}}} {
				for late := 0; late <= 1; late++ {
					for _, mode := range []string{"conn", "client"} {
						if !yield(Case{Mode: mode, Events: evs, Term: term, Late: late, StuckWrite: true}) {
							return
						}
					}
				}
			}
		}
	})
}
