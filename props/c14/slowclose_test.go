package c14

import (
	"errors"
	"fmt"
	"strings"
	"sync"
	"testing"
	"time"

	"github.com/fiorix/go-diameter/v4/diam"
	"github.com/fiorix/go-diameter/v4/diam/dict"

	"verif/internal/ev"
	"verif/internal/memnet"
	"verif/internal/refcodec"
)

// "No matter when it was requested relative to ... the termination itself": the FIRST request for
// the channel falls INSIDE the termination -
//
//   during-close:       while the library is closing the transport, and that Close takes a while
//                       (a TLS alert to a stalled peer, a lingering socket): requested from another goroutine;
//   from-error-report:  from the handler's ErrorReporter, which the library calls on the reading
//                       goroutine for the read error / undecodable input that ends the connection.
//
// over a byte-stream transport and over a multi-stream (SCTP) association. Demanded: the call
// returns, the channel it returns is closed, and no library goroutine of the connection stays.

type SlowCloseCase struct {
	Transport string `json:"transport"` // tcp | sctp
	Term      string `json:"term"`      // eof | eof-in-header | eof-in-body | read-error | garbage
	When      string `json:"when"`      // during-close | from-error-report
}

type reportingHandler struct {
	onError func(*diam.ErrorReport)
}

func (h *reportingHandler) ServeDIAM(diam.Conn, *diam.Message) {}
func (h *reportingHandler) Error(r *diam.ErrorReport) {
	if h.onError != nil {
		h.onError(r)
	}
}
func (h *reportingHandler) ErrorReports() <-chan *diam.ErrorReport { return nil }

func runSlowClose(c SlowCloseCase) *ev.Failure {
	if pre := leaked(2 * time.Second); pre != "" {
		return ev.Failf("goroutine-leak-after-earlier-case", "a goroutine the library started for a connection of an EARLIER case is still alive (that connection had terminated):\n%s", pre)
	}
	closing := make(chan struct{})
	var once sync.Once
	hook := func() {
		first := false
		once.Do(func() { first = true; close(closing) })
		if first && c.When == "during-close" {
			time.Sleep(150 * time.Millisecond)
		}
	}
	type got struct {
		ch   <-chan struct{}
		fail *ev.Failure
	}
	fromReport := make(chan got, 1)
	h := &reportingHandler{}
	if c.When == "from-error-report" {
		h.onError = func(r *diam.ErrorReport) {
			cn, ok := r.Conn.(diam.CloseNotifier)
			if !ok {
				fromReport <- got{nil, ev.Failf("harness-report", "the error report carries no connection")}
				return
			}
			// on the reading goroutine, as an application's Error method would
			ch := cn.CloseNotify()
			select {
			case fromReport <- got{ch, nil}:
			default:
			}
		}
	}
	var conn diam.Conn
	var err error
	var mc *memnet.Conn
	var be *memnet.SCTP
	if c.Transport == "sctp" {
		be = memnet.NewSCTP()
		be.CloseHook = hook
		conn, err = diam.NewConn(diam.NewVerifSCTPConn(be), "", h, dict.Default)
	} else {
		mc = memnet.NewConn()
		mc.CloseHook = hook
		conn, err = diam.NewConn(mc, "", h, dict.Default)
	}
	if err != nil {
		return ev.Failf("harness-conn", "%v", err)
	}
	cleanup := func() {
		if mc != nil {
			mc.FeedEOF()
			mc.Close()
		} else {
			be.FeedEOF()
			be.Close()
		}
	}
	defer cleanup()
	garbage := append(refcodec.EncodeHeader(refcodec.Header{Version: 1, Flags: 0x80, Code: 0xABCDEF, App: 77, Length: 60}), make([]byte, 40)...)
	// one ordinary message first: the connection is in its steady state
	if mc != nil {
		mc.Feed(appMessage(1, false))
		mc.WaitParked(promptly)
	} else {
		be.Feed(memnet.Chunk{Stream: 2, Data: appMessage(1, false)})
		be.WaitParked(promptly)
	}
	switch c.Term {
	case "eof-in-header", "eof-in-body":
		// the peer's orderly shutdown arrives inside a message
		part := appMessage(2, false)
		part = part[:map[string]int{"eof-in-header": 12, "eof-in-body": 26}[c.Term]]
		if mc != nil {
			mc.Feed(part)
			mc.FeedEOF()
		} else {
			be.Feed(memnet.Chunk{Stream: 2, Data: part})
			be.FeedEOF()
		}
	case "eof":
		if mc != nil {
			mc.FeedEOF()
		} else {
			be.FeedEOF()
		}
	case "read-error":
		if mc != nil {
			mc.FeedErr(errors.New("connection reset by peer"))
		} else {
			be.FeedErr(errors.New("connection reset by peer"))
		}
	default:
		if mc != nil {
			mc.Feed(garbage)
		} else {
			be.Feed(memnet.Chunk{Stream: 2, Data: garbage})
		}
	}
	desc := fmt.Sprintf("%s connection ended by %s, first CloseNotify request %s", c.Transport, c.Term, c.When)
	var ch <-chan struct{}
	if c.When == "during-close" {
		select {
		case <-closing:
		case <-time.After(promptly):
			return ev.Failf("transport-not-closed", "%s: the library did not start closing the transport within %v", desc, promptly)
		}
		var bf *ev.Failure
		if ch, bf = requestCh(conn.(diam.CloseNotifier)); bf != nil {
			return ev.Failf("closenotify-call-blocked", "%s (the transport's Close takes 150 ms): the CloseNotify() call did not return within %v", desc, 2*promptly)
		}
	} else {
		select {
		case g := <-fromReport:
			if g.fail != nil {
				return g.fail
			}
			ch = g.ch
		case <-time.After(2 * promptly):
			return ev.Failf("closenotify-call-blocked", "%s: the handler's Error method asked for CloseNotify on the reading goroutine; no channel came back within %v (the call did not return, or the error was not reported)", desc, 2*promptly)
		}
	}
	if !closedWithin(ch, promptly) {
		return ev.Failf("never-fired", "%s: the channel was not closed within %v", desc, promptly)
	}
	if g := leaked(promptly); g != "" {
		return ev.Failf("goroutine-leak", "%s: a goroutine the library started for the connection is still alive:\n%s", desc, g)
	}
	return nil
}

var slowCloseProp = ev.Register(&ev.Prop[SlowCloseCase]{
	ID: "C14", Name: "first-request-inside-the-termination",
	Rule: "a connection made with NewConn over an in-memory byte-stream transport or multi-stream association, one message handled, then ended by EOF (between messages, inside a header, inside a body) / a read error / undecodable input; the FIRST CloseNotify request is made while the library closes the transport (a Close that takes 150 ms; from another goroutine) or from the handler's Error method on the reading goroutine (read error, undecodable input). " +
		"Demanded: the call returns, its channel is closed within the deadline, no library goroutine of the connection stays behind. Every case is non-trivial",
	Run: runSlowClose,
	Classify: func(c SlowCloseCase) (bool, []string) {
		return true, []string{"transport:" + c.Transport, "term:" + c.Term, "when:" + c.When}
	},
})

func TestC14FirstRequestInsideTermination(t *testing.T) {
	slowCloseProp.Enumerate(t, true, func(yield func(SlowCloseCase) bool) {
		for _, tr := range []string{"tcp", "sctp"} {
			for _, term := range []string{"eof", "eof-in-header", "eof-in-body", "read-error", "garbage"} {
				for _, when := range []string{"during-close", "from-error-report"} {
					if when == "from-error-report" && strings.HasPrefix(term, "eof") {
						continue // an end of stream is not reported
					}
					if !yield(SlowCloseCase{Transport: tr, Term: term, When: when}) {
						return
					}
				}
			}
		}
	})
}
