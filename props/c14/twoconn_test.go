package c14

import (
	"fmt"
	"sync"
	"testing"
	"time"

	"github.com/fiorix/go-diameter/v4/diam"
	"github.com/fiorix/go-diameter/v4/diam/dict"
	"pgregory.net/rapid"

	"verif/internal/ev"
	"verif/internal/memnet"
	"verif/internal/refcodec"
)

// Two (or three) connections alive at the same time, CloseNotify requested on each: what the
// notifier routine of one connection reads on behalf of a busy reader must reach that
// connection's handler and no other - requesting CloseNotify never loses, duplicates or
// reorders inbound messages, whatever the other connections of the process do.

type TwoCase struct {
	Conns    int    `json:"conns"`     // 2..3
	ReqFrom  string `json:"req_from"`  // harness: all requests from one goroutine, one after the other | handler: from each connection's handler
	Filler   int    `json:"filler"`    // payload size of the messages (the same on every connection, so that images have equal length)
	Behind   int    `json:"behind"`    // messages queued on connection 0 behind the handler that is held
	Others   int    `json:"others"`    // messages each other connection receives while connection 0's handler is held
	Term     string `json:"term"`      // eof | read-error | local-close
	HoldLast bool   `json:"hold_last"` // connection 0's held handler is released only after the others were served
}

func tagged(conn, seq, filler int, hold bool) []byte {
	hbh := uint32(seq)
	if hold {
		hbh |= waitBit
	}
	pay := make([]byte, filler)
	for i := range pay {
		pay[i] = byte(conn*37 + seq*11 + i)
	}
	return refcodec.EncodeMessage(refcodec.Header{Version: 1, Flags: 0x80, Code: 271, App: 0, HopByHop: hbh, EndToEnd: uint32(0xC1400 + conn)},
		[]*refcodec.Node{{Code: 263, Flags: 0x40, Payload: []byte(fmt.Sprintf("sess;%d;%d", conn, seq))}, {Code: 3000001, Payload: pay}}, false)
}

type twoConn struct {
	mc    *memnet.Conn
	conn  diam.Conn
	mu    sync.Mutex
	cond  *sync.Cond
	seen  []string // "conn/seq" of every message handed to this connection's handler
	ch    <-chan struct{}
	gate  chan struct{}
	inHld chan struct{}
}

func (tc *twoConn) waitSeen(n int, d time.Duration) bool {
	deadline := time.Now().Add(d)
	tm := time.AfterFunc(d, func() { tc.mu.Lock(); tc.cond.Broadcast(); tc.mu.Unlock() })
	defer tm.Stop()
	tc.mu.Lock()
	defer tc.mu.Unlock()
	for len(tc.seen) < n {
		if time.Now().After(deadline) {
			return false
		}
		tc.cond.Wait()
	}
	return true
}

func runTwo(c TwoCase) *ev.Failure {
	if pre := leaked(2 * time.Second); pre != "" {
		return ev.Failf("goroutine-leak-after-earlier-case", "a goroutine the library started for a connection of an EARLIER case is still alive (that connection had terminated):\n%s", pre)
	}
	stop := make(chan struct{})
	defer close(stop)
	cs := make([]*twoConn, c.Conns)
	cleanup := func() {
		for _, tc := range cs {
			if tc != nil {
				select {
				case <-tc.gate:
				default:
					close(tc.gate)
				}
				tc.mc.Close()
			}
		}
	}
	for i := range cs {
		tc := &twoConn{mc: memnet.NewConn(), gate: make(chan struct{}), inHld: make(chan struct{}, 1)}
		tc.cond = sync.NewCond(&tc.mu)
		tc.mc.Remote = memnet.Addr{Net: "tcp", Str: fmt.Sprintf("10.9.6.%d:40000", i+1)}
		cs[i] = tc
		mux := diam.NewServeMux()
		mux.HandleFunc("ALL", func(cn diam.Conn, m *diam.Message) {
			if c.ReqFrom == "handler" && m.Header.HopByHopID&^waitBit == 0 {
				ch := cn.(diam.CloseNotifier).CloseNotify()
				tc.mu.Lock()
				tc.ch = ch
				tc.mu.Unlock()
			}
			if m.Header.HopByHopID&waitBit != 0 {
				tc.inHld <- struct{}{}
				<-tc.gate
			}
			tc.mu.Lock()
			tc.seen = append(tc.seen, fmt.Sprintf("%d/%d", int(m.Header.EndToEndID)-0xC1400, m.Header.HopByHopID&^waitBit))
			tc.cond.Broadcast()
			tc.mu.Unlock()
		})
		go func() {
			for {
				select {
				case <-mux.ErrorReports():
				case <-stop:
					return
				}
			}
		}()
		var err error
		if tc.conn, err = diam.NewConn(tc.mc, "", mux, dict.Default); err != nil {
			cleanup()
			return ev.Failf("harness-conn", "%v", err)
		}
	}
	sent := make([]int, c.Conns)
	send := func(i int, hold bool) {
		cs[i].mc.Feed(tagged(i, sent[i], c.Filler, hold))
		sent[i]++
	}
	settle := func(i int, what string) *ev.Failure {
		if !cs[i].waitSeen(sent[i], promptly) || !cs[i].mc.WaitParked(promptly) {
			cleanup()
			return ev.Failf("message-not-dispatched", "%s: connection %d was sent %d messages, its handler saw %v within %v", what, i, sent[i], cs[i].seen, promptly)
		}
		return nil
	}
	// message 0 on every connection, then the requests, then message 1 (after which the notifier
	// routines are what reads the transports)
	for i := range cs {
		send(i, false)
		if f := settle(i, "first message"); f != nil {
			return f
		}
	}
	if c.ReqFrom == "harness" {
		for _, tc := range cs {
			tc.ch = tc.conn.(diam.CloseNotifier).CloseNotify()
		}
	}
	for i := range cs {
		send(i, false)
		if f := settle(i, "message after the CloseNotify request"); f != nil {
			return f
		}
	}
	// connection 0: a handler that is held, with further messages queued behind it
	send(0, true)
	select {
	case <-cs[0].inHld:
	case <-time.After(promptly):
		cleanup()
		return ev.Failf("message-not-dispatched", "the message whose handler is held was not dispatched within %v", promptly)
	}
	for k := 0; k < c.Behind; k++ {
		send(0, false)
	}
	// let the notifier take what it can: it ends up parked (nothing left) or blocked handing a
	// chunk on to the busy reader (the rest stays queued) - neither is waited for longer than this
	cs[0].mc.WaitDrained(40 * time.Millisecond)
	cs[0].mc.WaitParked(10 * time.Millisecond)
	release := func() { close(cs[0].gate) }
	if !c.HoldLast {
		release()
	}
	for i := 1; i < c.Conns; i++ {
		for k := 0; k < c.Others; k++ {
			send(i, false)
			if f := settle(i, "while connection 0's handler is held"); f != nil {
				return f
			}
		}
	}
	if c.HoldLast {
		release()
	}
	if !cs[0].waitSeen(sent[0], promptly) {
		cleanup()
		return ev.Failf("messages-lost-or-duplicated", "connection 0 was sent %d messages, its handler saw %v within %v", sent[0], cs[0].seen, promptly)
	}
	for i, tc := range cs {
		tc.mu.Lock()
		seen := append([]string{}, tc.seen...)
		tc.mu.Unlock()
		for k, s := range seen {
			if want := fmt.Sprintf("%d/%d", i, k); s != want {
				cleanup()
				return ev.Failf("messages-lost-or-duplicated", "connection %d: its handler was given the messages (connection/number) %v; the peer of this connection sent %d/0 .. %d/%d in that order (CloseNotify requested from the %s on all %d connections)", i, seen, i, i, sent[i]-1, c.ReqFrom, c.Conns)
			}
		}
		if len(seen) != sent[i] {
			cleanup()
			return ev.Failf("messages-lost-or-duplicated", "connection %d was sent %d messages, its handler saw %v", i, sent[i], seen)
		}
		if tc.ch == nil || !isOpen(tc.ch) {
			cleanup()
			return ev.Failf("closed-early", "connection %d: the CloseNotify channel is closed (or missing) although the connection has not terminated", i)
		}
	}
	for i, tc := range cs {
		switch c.Term {
		case "eof":
			tc.mc.FeedEOF()
		case "read-error":
			tc.mc.FeedErr(fmt.Errorf("connection reset by peer"))
		default:
			tc.conn.Close()
		}
		if !tc.mc.WaitClosed(promptly) {
			cleanup()
			return ev.Failf("transport-not-closed", "connection %d: the transport was not closed within %v of %q", i, promptly, c.Term)
		}
		if !closedWithin(tc.ch, promptly) {
			cleanup()
			return ev.Failf("never-fired", "connection %d: the CloseNotify channel was not closed within %v of %q", i, promptly, c.Term)
		}
		// the other connections are still alive
		for j := i + 1; j < len(cs); j++ {
			if !isOpen(cs[j].ch) {
				cleanup()
				return ev.Failf("closed-early", "connection %d terminated (%s) and the CloseNotify channel of connection %d was closed with it", i, c.Term, j)
			}
		}
	}
	if g := leaked(promptly); g != "" {
		return ev.Failf("goroutine-leak", "after all %d connections terminated (%q) a goroutine started by the library is still alive:\n%s", c.Conns, c.Term, g)
	}
	return nil
}

var twoProp = ev.Register(&ev.Prop[TwoCase]{
	ID: "C14", Name: "several-connections",
	Rule: "2..3 connections alive at once, CloseNotify requested on each (all from one goroutine, or each from its own handler), then on connection 0 a handler is held with 0..3 equally sized messages queued behind it (read by its notifier routine) while the other connections receive 0..3 messages each; every handler must see exactly the messages of its own connection, once, in order; channels stay open until their own connection terminates (EOF / read error / local Close), then close; no goroutine remains; non-trivial = messages queued behind the held handler and traffic on another connection meanwhile",
	Gen: func(t *rapid.T) TwoCase {
		return TwoCase{Conns: rapid.IntRange(2, 3).Draw(t, "conns"), ReqFrom: rapid.SampledFrom([]string{"harness", "harness", "handler"}).Draw(t, "req-from"),
			Filler: rapid.SampledFrom([]int{0, 5, 40, 1000, 5000}).Draw(t, "filler"), Behind: rapid.IntRange(0, 3).Draw(t, "behind"), Others: rapid.IntRange(0, 3).Draw(t, "others"),
			Term: rapid.SampledFrom([]string{"eof", "read-error", "local-close"}).Draw(t, "term"), HoldLast: rapid.Bool().Draw(t, "hold-last")}
	},
	Run: runTwo,
	Classify: func(c TwoCase) (bool, []string) {
		cl := []string{"request-from:" + c.ReqFrom, "term:" + c.Term}
		if c.HoldLast {
			cl = append(cl, "released-after-the-others-were-served")
		}
		return c.Behind > 0 && c.Others > 0, cl
	},
	Attempts: 3,
})

func TestC14SeveralConnections(t *testing.T) { twoProp.Check(t, 150, 5000) }

// ---------------------------------------------------------------------------
// The application does not read ErrorReports() (it is optional): connections that end with
// undecodable input each produce a report nobody takes. They must terminate all the same -
// channel closed, every goroutine started on their behalf gone.

type NRCase struct {
	Conns int `json:"conns"` // 2..6 connections on ONE ServeMux whose ErrorReports are never read
	Late  int `json:"late"`  // CloseNotify requests after termination, per connection
}

func runNoReader(c NRCase) *ev.Failure {
	if pre := leaked(2 * time.Second); pre != "" {
		return ev.Failf("goroutine-leak-after-earlier-case", "a goroutine the library started for a connection of an EARLIER case is still alive (that connection had terminated):\n%s", pre)
	}
	mux := diam.NewServeMux()
	var mu sync.Mutex
	chans := map[string]<-chan struct{}{}
	mux.HandleFunc("ALL", func(cn diam.Conn, m *diam.Message) {
		ch := cn.(diam.CloseNotifier).CloseNotify()
		mu.Lock()
		chans[cn.RemoteAddr().String()] = ch
		mu.Unlock()
	})
	var conns []*memnet.Conn
	var dconns []diam.Conn
	defer func() {
		for _, mc := range conns {
			mc.Close()
		}
		// empty the report channel so that nothing of this case lingers in it
		for {
			select {
			case <-mux.ErrorReports():
				continue
			default:
			}
			break
		}
	}()
	for i := 0; i < c.Conns; i++ {
		mc := memnet.NewConn()
		mc.Remote = memnet.Addr{Net: "tcp", Str: fmt.Sprintf("10.9.4.%d:40000", i+1)}
		conns = append(conns, mc)
		dc, err := diam.NewConn(mc, "", mux, dict.Default)
		if err != nil {
			return ev.Failf("harness-conn", "%v", err)
		}
		dconns = append(dconns, dc)
		mc.Feed(tagged(i, 0, 8, false))
	}
	for i, mc := range conns {
		deadline := time.Now().Add(promptly)
		for {
			mu.Lock()
			_, ok := chans[mc.Remote.String()]
			mu.Unlock()
			if ok {
				break
			}
			if time.Now().After(deadline) {
				return ev.Failf("message-not-dispatched", "connection %d: its first message did not reach the handler within %v", i, promptly)
			}
			time.Sleep(time.Millisecond)
		}
		mc.WaitParked(promptly)
	}
	for i, mc := range conns {
		junk := append(refcodec.EncodeHeader(refcodec.Header{Version: 1, Flags: 0x80, Code: 0xABCDEF, App: 77, Length: 60}), make([]byte, 100)...)
		mc.Feed(junk)
		if !mc.WaitClosed(promptly) {
			return ev.Failf("transport-not-closed", "connection %d: not closed within %v of undecodable input (nobody reads the mux's ErrorReports; %d connections ended before it)", i, promptly, i)
		}
		mu.Lock()
		ch := chans[mc.Remote.String()]
		mu.Unlock()
		if !closedWithin(ch, promptly) {
			return ev.Failf("never-fired", "connection %d: its CloseNotify channel was not closed within %v of undecodable input (nobody reads the mux's ErrorReports)", i, promptly)
		}
		for k := 0; k < c.Late; k++ {
			if !closedWithin(dconns[i].(diam.CloseNotifier).CloseNotify(), promptly) {
				return ev.Failf("late-request-never-fired", "connection %d: a CloseNotify channel requested after termination was not closed", i)
			}
		}
	}
	if g := leaked(promptly); g != "" {
		return ev.Failf("goroutine-leak", "%d connections on one ServeMux ended with undecodable input while nobody read ErrorReports(); a goroutine started by the library is still alive after %v:\n%s", c.Conns, promptly, g)
	}
	return nil
}

var noReaderProp = ev.Register(&ev.Prop[NRCase]{
	ID: "C14", Name: "reports-not-read",
	Rule: "2..6 connections on ONE ServeMux whose ErrorReports() channel nobody reads; each handler requests CloseNotify, then each connection receives an undecodable message; every transport must be closed, every channel closed (also for 0..2 later requests), and no goroutine started by the library may remain; every case non-trivial",
	Gen: func(t *rapid.T) NRCase {
		return NRCase{Conns: rapid.IntRange(2, 6).Draw(t, "conns"), Late: rapid.IntRange(0, 2).Draw(t, "late")}
	},
	Run:      runNoReader,
	Classify: func(c NRCase) (bool, []string) { return true, nil },
})

func TestC14ReportsNotRead(t *testing.T) { noReaderProp.Check(t, 15, 300) }
