package c14

import (
	"fmt"
	"sync"
	"testing"
	"time"

	"github.com/fiorix/go-diameter/v4/diam"
	"github.com/fiorix/go-diameter/v4/diam/dict"
	"pgregory.net/rapid"

	"verif/internal/ev"
	"verif/internal/memnet"
)

// A read timeout is a read error: on a connection served by a diam.Server with ReadTimeout > 0 the
// read deadline running out ends the connection, and what the statement demands for every cause of
// termination is demanded here: every CloseNotify channel closed, the transport closed, the
// goroutines of the connection gone, within the bounded wait - whether the serve loop is idle at
// that moment or inside a handler that waits for the channel (nobody reads the notifier's pipe
// then), whether the peer stays silent, has sent half a message, or leaves after the deadline.
//
// Nothing here depends on the deadline being met with any precision: the check waits for the
// transport to report a read that ended with a deadline error (or for the connection to be closed),
// and a deadline that expires earlier than planned (a stalled machine) only shortens the history.

type ReadTimeoutCase struct {
	TimeoutMs int    `json:"timeout_ms"` // Server.ReadTimeout
	Request   string `json:"request"`    // handler (of the first message) | parked (another goroutine, the reader waits in the transport) | now (another goroutine, right after the first message) | none
	Between   int    `json:"between"`    // messages between the request and the silence (the first of them makes the reader switch to the notifier's pipe)
	Big       int    `json:"big"`        // > 0: the last of those messages carries an opaque AVP of this size
	State     string `json:"state"`      // idle (serve loop reads) | handler-waits (for the channel) | handler-outlasts (works until the deadline has expired, then waits for the channel)
	Peer      string `json:"peer"`       // silent | half-message (20+7 bytes of a message, then silence) | eof-later (EOF once a read has timed out) | error-later
	Late      int    `json:"late"`       // requests after termination
}

// norm: a handler can only be released by a read timeout if something reads the transport while it
// waits, i.e. if the notifier routine runs: a channel was requested and the reader has gone back to
// its source since (a request from a handler: the next read; a request while the reader is inside a
// read of the transport: the read after that one). Cases that say otherwise are brought into that
// region (no request: the serve loop is idle; request from outside: at least one message between).
func (c ReadTimeoutCase) norm() ReadTimeoutCase {
	if c.Request == "none" {
		c.State = "idle"
	}
	if c.State != "idle" && c.Request != "handler" && c.Between == 0 {
		c.Between = 1
	}
	if c.State != "idle" && c.Peer == "half-message" {
		// bytes that nobody takes from the notifier's pipe keep the notifier from reading the
		// transport again: no read, no read timeout - not a history of this scenario
		c.Peer = "silent"
	}
	return c
}

func runReadTimeout(c ReadTimeoutCase) *ev.Failure {
	c = c.norm()
	if pre := leaked(2 * time.Second); pre != "" {
		return ev.Failf("goroutine-leak-after-earlier-case", "a goroutine the library started for a connection of an EARLIER case is still alive (that connection had terminated):\n%s", pre)
	}
	mc := memnet.NewConn()
	var mu sync.Mutex
	var conn diam.Conn
	var chans []<-chan struct{}
	var seqs []int
	handled := make(chan int, 64)
	entered := make(chan struct{})
	fired := make(chan bool, 1)
	mux := diam.NewServeMux()
	stop := make(chan struct{})
	defer close(stop)
	go func() {
		for {
			select {
			case <-mux.ErrorReports():
			case <-stop:
				return
			}
		}
	}()
	mux.HandleFunc("ALL", func(cn diam.Conn, m *diam.Message) {
		id := m.Header.HopByHopID
		if id&waitBit != 0 {
			mu.Lock()
			ch := chans[0] // norm: a channel was requested earlier
			mu.Unlock()
			close(entered)
			if c.State == "handler-outlasts" {
				// work that takes longer than ReadTimeout
				mc.WaitTimeouts(1, promptly)
			}
			select {
			case <-ch:
				fired <- true
			case <-time.After(promptly):
				fired <- false
			}
		}
		mu.Lock()
		if conn == nil {
			conn = cn
		}
		if id&markBit != 0 {
			chans = append(chans, cn.(diam.CloseNotifier).CloseNotify())
		}
		seqs = append(seqs, int(id&^(markBit|waitBit)))
		mu.Unlock()
		handled <- int(id)
	})
	lis := memnet.NewListener(1)
	srv := &diam.Server{Handler: mux, Dict: dict.Default, ReadTimeout: time.Duration(c.TimeoutMs) * time.Millisecond}
	served := make(chan struct{})
	go func() { srv.Serve(lis); close(served) }()
	lis.Push(mc)
	defer func() {
		mc.Close()
		lis.Close()
		select {
		case <-served:
		case <-time.After(promptly):
		}
	}()
	what := fmt.Sprintf("server with ReadTimeout %d ms, request: %s, serve loop: %s, peer: %s", c.TimeoutMs, c.Request, c.State, c.Peer)

	// over reports whether the connection has already ended (a read timed out or the transport was closed)
	over := func() bool { return mc.WaitTimeouts(1, 0) }
	// waitOne waits for the next message to be handled, or for the connection to be over
	waitOne := func() (bool, *ev.Failure) {
		deadline := time.After(promptly)
		for {
			select {
			case <-handled:
				return true, nil
			case <-time.After(5 * time.Millisecond):
				if over() {
					select {
					case <-handled:
						return true, nil
					default:
						return false, nil
					}
				}
			case <-deadline:
				return false, ev.Failf("message-not-dispatched", "%s: a message was delivered on a live connection (no read had timed out) and did not reach the handler within %v", what, promptly)
			}
		}
	}
	sent := 0
	alive := true
	step := func(m []byte) *ev.Failure {
		if !alive {
			return nil
		}
		mc.Feed(m)
		sent++
		ok, f := waitOne()
		if f != nil {
			return f
		}
		alive = ok
		return nil
	}
	checkOpen := func(when string) *ev.Failure {
		mu.Lock()
		chs := append([]<-chan struct{}{}, chans...)
		mu.Unlock()
		for i, ch := range chs {
			// order matters: first the channel, then the transport's record
			if !isOpen(ch) && !over() {
				return ev.Failf("closed-early", "%s: %s CloseNotify channel %d is closed, but no read of the transport has failed or timed out and the transport is not closed", what, when, i)
			}
		}
		return nil
	}

	if f := step(appMessage(0, c.Request == "handler")); f != nil {
		return f
	}
	if alive && (c.Request == "parked" || c.Request == "now") {
		if c.Request == "parked" {
			mc.WaitParked(promptly)
		}
		mu.Lock()
		cn := conn.(diam.CloseNotifier)
		mu.Unlock()
		ch, bf := requestCh(cn)
		if bf != nil {
			return bf
		}
		mu.Lock()
		chans = append(chans, ch)
		mu.Unlock()
	}
	if f := checkOpen("after the request"); f != nil {
		return f
	}
	for i := 0; i < c.Between; i++ {
		m := appMessage(sent, false)
		if c.Big > 0 && i == c.Between-1 {
			m = bigMessage(sent, false, c.Big)
		}
		if f := step(m); f != nil {
			return f
		}
	}
	if f := checkOpen("after more messages"); f != nil {
		return f
	}
	waits := c.State != "idle" && alive
	if waits {
		m := appMessage(sent, false)
		m[12] |= byte(waitBit >> 24)
		mc.Feed(m)
		sent++
		select {
		case <-entered:
		case <-time.After(promptly):
			if !over() {
				return ev.Failf("message-not-dispatched", "%s: the message whose handler waits was not dispatched within %v", what, promptly)
			}
			waits = false // the deadline expired before the message was read
		}
	}
	switch c.Peer {
	case "half-message":
		mc.Feed(appMessage(sent, false)[:27])
	}
	// the read deadline runs out
	if !mc.WaitTimeouts(1, promptly) {
		return ev.Failf("harness-timeout", "%s: no read of the transport ended with a deadline error within %v", what, promptly)
	}
	switch c.Peer {
	case "eof-later":
		mc.FeedEOF()
	case "error-later":
		mc.FeedErr(fmt.Errorf("connection reset by peer"))
	}
	if waits {
		if !<-fired {
			return ev.Failf("never-fired-while-handler-waits", "%s: a read of the transport ended with a deadline error (a read error: the connection is over) while a handler waited for a CloseNotify channel; %v later the channel was still open", what, promptly)
		}
	}
	if !mc.WaitClosed(promptly) {
		return ev.Failf("transport-not-closed", "%s: the transport was not closed within %v of a read that ended with a deadline error", what, promptly)
	}
	mu.Lock()
	chs := append([]<-chan struct{}{}, chans...)
	cn := conn
	mu.Unlock()
	for i, ch := range chs {
		if !closedWithin(ch, promptly) {
			return ev.Failf("never-fired", "%s: CloseNotify channel %d (of %d) was not closed within %v of the read timeout that ended the connection", what, i, len(chs), promptly)
		}
	}
	for i := 0; i < c.Late && cn != nil; i++ {
		late, bf := requestCh(cn.(diam.CloseNotifier))
		if bf != nil {
			return bf
		}
		if !closedWithin(late, promptly) {
			return ev.Failf("late-request-never-fired", "%s: a CloseNotify channel requested after the connection had ended with a read timeout was not closed within %v", what, promptly)
		}
	}
	if waits {
		select {
		case <-handled:
		case <-time.After(promptly):
		}
	}
	mu.Lock()
	got := append([]int{}, seqs...)
	mu.Unlock()
	// the messages handled are the messages sent, once each and in order (those sent after an early
	// deadline are not received at all)
	if len(got) > sent {
		return ev.Failf("messages-lost-or-duplicated", "%s: %d messages were sent, the handler saw %v", what, sent, got)
	}
	for i, s := range got {
		if s != i {
			return ev.Failf("messages-lost-or-duplicated", "%s: messages must be dispatched once each in order, the handler saw %v", what, got)
		}
	}
	if g := leaked(promptly); g != "" {
		return ev.Failf("goroutine-leak", "%s: after the connection ended with a read timeout a goroutine started by the library for it is still alive after %v:\n%s", what, promptly, g)
	}
	return nil
}

func classifyReadTimeout(c ReadTimeoutCase) (bool, []string) {
	c = c.norm()
	cl := []string{"request:" + c.Request, "state:" + c.State, "peer:" + c.Peer}
	if c.Between > 0 && c.Request != "none" {
		cl = append(cl, "notifier-reads-the-transport")
	}
	return c.Request != "none" || c.State != "idle" || c.Late > 0, cl
}

var (
	rtRequests = []string{"handler", "parked", "now", "none"}
	rtStates   = []string{"idle", "handler-waits", "handler-outlasts"}
	rtPeers    = []string{"silent", "half-message", "eof-later", "error-later"}
)

var readTimeoutProp = ev.Register(&ev.Prop[ReadTimeoutCase]{
	ID: "C14", Name: "read-timeout",
	Rule: "a connection served by diam.Server with ReadTimeout 15..80 ms over an in-memory transport that honours read deadlines: a first message, CloseNotify requested by its handler / by another goroutine while the reader is parked / at once / not at all, 0..2 more messages (optionally a large one), then the serve loop idle, or inside a handler that waits for the channel, or inside a handler that works until a read has timed out and then waits; the peer silent, silent after 27 bytes of a message, or sending EOF / a reset after the timeout; 0..1 requests afterwards. " +
		"Demanded as for every termination cause: channels open while no read has failed, and after the read that ended with a deadline error the waiting handler sees the channel closed, the transport is closed, every channel is closed and no goroutine of the library is left, each within 10 s; messages handled once each, in order. Non-trivial = a channel is requested at some point",
	Gen: func(t *rapid.T) ReadTimeoutCase {
		c := ReadTimeoutCase{TimeoutMs: rapid.SampledFrom([]int{15, 25, 40, 80}).Draw(t, "timeout"),
			Request: rapid.SampledFrom(rtRequests).Draw(t, "request"), Between: rapid.IntRange(0, 2).Draw(t, "between"),
			State: rapid.SampledFrom(rtStates).Draw(t, "state"), Peer: rapid.SampledFrom(rtPeers).Draw(t, "peer"), Late: rapid.IntRange(0, 1).Draw(t, "late")}
		if c.Between > 0 && rapid.IntRange(0, 2).Draw(t, "large") == 0 {
			c.Big = rapid.SampledFrom(bigSizes).Draw(t, "large-size")
		}
		return c
	},
	Run: runReadTimeout, Classify: classifyReadTimeout, Attempts: 5,
})

// Every combination of request kind, state of the serve loop and behaviour of the peer.
func TestC14ReadTimeout(t *testing.T) {
	readTimeoutProp.Enumerate(t, true, func(yield func(ReadTimeoutCase) bool) {
		betweens := []int{1}
		if ev.Thorough() {
			betweens = []int{0, 1, 2}
		}
		for _, req := range rtRequests {
			for _, st := range rtStates {
				for _, peer := range rtPeers {
					for _, between := range betweens {
						c := ReadTimeoutCase{TimeoutMs: 25, Request: req, Between: between, State: st, Peer: peer, Late: 1}
						if !yield(c) {
							return
						}
					}
				}
			}
		}
	})
}

func TestC14ReadTimeoutRandom(t *testing.T) { readTimeoutProp.Check(t, 30, 1500) }
