package c14

import (
	"fmt"
	"runtime"
	"sync"
	"testing"
	"time"

	"github.com/fiorix/go-diameter/v4/diam"
	"github.com/fiorix/go-diameter/v4/diam/dict"
	"pgregory.net/rapid"

	"verif/internal/ev"
	"verif/internal/memnet"
	"verif/internal/refcodec"
)

// "No matter when it was requested relative to ... the termination itself": the first request of
// a connection and the terminating event are released at the same instant from two goroutines,
// many times over, with a small scripted skew. Whichever wins, the channel must be closed.

type RaceCase struct {
	N    int    `json:"n"`    // connections
	Term string `json:"term"` // eof | read-error | local-close | garbage-notifier-running (CloseNotify requested and a message read since, then undecodable input: the reader closes the transport, which wakes the notifier routine while the reader runs its epilogue)
	Skew int    `json:"skew"` // Gosched calls one side makes before it acts (negative: the requester waits)
}

func runRace(c RaceCase) *ev.Failure {
	if pre := leaked(2 * time.Second); pre != "" {
		return ev.Failf("goroutine-leak-after-earlier-case", "a goroutine the library started for a connection of an EARLIER case is still alive (that connection had terminated):\n%s", pre)
	}
	mux := diam.NewServeMux()
	mux.HandleFunc("ALL", func(diam.Conn, *diam.Message) {})
	stop := make(chan struct{})
	defer close(stop)
	go func() {
		for {
			select {
			case <-mux.ErrorReports():
			case <-stop:
				return
			}
		}
	}()
	for i := 0; i < c.N; i++ {
		mc := memnet.NewConn()
		conn, err := diam.NewConn(mc, "", mux, dict.Default)
		if err != nil {
			return ev.Failf("harness-conn", "%v", err)
		}
		if !mc.WaitParked(promptly) {
			mc.Close()
			return ev.Failf("harness-park", "connection %d: the reader did not park", i)
		}
		if c.Term == "garbage-notifier-running" {
			ch, bf := requestCh(conn.(diam.CloseNotifier))
			if bf != nil {
				mc.Close()
				return bf
			}
			mc.Feed(appMessage(0, false)) // read by the reader, which then starts the notifier routine
			for k := 0; k < c.Skew+3; k++ {
				runtime.Gosched()
			}
			mc.Feed(append(refcodec.EncodeHeader(refcodec.Header{Version: 1, Flags: 0x80, Code: 0xABCDEF, App: 77, Length: 60}), make([]byte, 40)...))
			ok := closedWithin(ch, promptly)
			mc.WaitClosed(promptly)
			mc.Close()
			if !ok {
				return ev.Failf("never-fired", "connection %d of %d: CloseNotify requested, one message read, then undecodable input: the channel was not closed within %v", i, c.N, promptly)
			}
			continue
		}
		start := make(chan struct{})
		var ch <-chan struct{}
		var blocked *ev.Failure
		var wg sync.WaitGroup
		wg.Add(2)
		go func() {
			defer wg.Done()
			<-start
			for k := 0; k < -c.Skew; k++ {
				runtime.Gosched()
			}
			ch, blocked = requestCh(conn.(diam.CloseNotifier))
		}()
		go func() {
			defer wg.Done()
			<-start
			for k := 0; k < c.Skew; k++ {
				runtime.Gosched()
			}
			switch c.Term {
			case "eof":
				mc.FeedEOF()
			case "read-error":
				mc.FeedErr(fmt.Errorf("connection reset by peer"))
			default:
				conn.Close()
			}
		}()
		close(start)
		wg.Wait()
		if blocked != nil {
			mc.Close()
			return blocked
		}
		ok := closedWithin(ch, promptly)
		againCh, bf := requestCh(conn.(diam.CloseNotifier))
		if bf != nil {
			mc.Close()
			return bf
		}
		again := closedWithin(againCh, promptly)
		mc.Close()
		if !ok || !again {
			return ev.Failf("never-fired", "connection %d of %d: the first CloseNotify request and the termination (%s) were released at the same instant; the channel it returned was closed within %v: %v, a later request's channel: %v", i, c.N, c.Term, promptly, ok, again)
		}
	}
	if g := leaked(promptly); g != "" {
		return ev.Failf("goroutine-leak", "after %d connections whose first CloseNotify request raced their termination (%s) a goroutine started by the library is still alive:\n%s", c.N, c.Term, g)
	}
	return nil
}

var raceProp = ev.Register(&ev.Prop[RaceCase]{
	ID: "C14", Name: "request-races-termination",
	Rule: "200..600 connections per case: the first CloseNotify request (another goroutine) and the terminating event {EOF, read error, local Close} are released at the same instant, with a skew of -3..3 scheduler yields; the returned channel and the channel of a later request must both be closed within 3 s, and no library goroutine may remain; or: CloseNotify requested, one message read (the notifier routine runs), then undecodable input, so that the reader's epilogue and the notifier routine announce the termination at the same time (a double close would end the process); a schedule-dependent search: every case is non-trivial, detection is probabilistic",
	Gen: func(t *rapid.T) RaceCase {
		return RaceCase{N: rapid.IntRange(200, 600).Draw(t, "n"), Term: rapid.SampledFrom([]string{"eof", "read-error", "local-close", "garbage-notifier-running", "garbage-notifier-running"}).Draw(t, "term"), Skew: rapid.IntRange(-3, 3).Draw(t, "skew")}
	},
	Run:      runRace,
	Classify: func(c RaceCase) (bool, []string) { return true, []string{"term:" + c.Term} },
	Attempts: 1,
})

func TestC14RequestRacesTermination(t *testing.T) { raceProp.Check(t, 12, 400) }
