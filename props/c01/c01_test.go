// C01 - Messages survive a wire round trip in both directions.
package c01

import (
	"bufio"
	"bytes"
	"fmt"
	"io"
	"sync/atomic"
	"testing"
	"testing/iotest"

	"github.com/fiorix/go-diameter/v4/diam"
	"github.com/fiorix/go-diameter/v4/diam/datatype"
	"pgregory.net/rapid"

	"verif/internal/ev"
	"verif/internal/gen"
	"verif/internal/refcodec"
)

// Case is shared by both directions.
type Case struct {
	Dict gen.DictChoice `json:"dict"`
	Msg  gen.Msg        `json:"msg"`
	// DropV: build vendor-specific AVPs without the V flag and rely on
	// NewAVP to set it (forward direction only).
	DropV bool `json:"drop_v,omitempty"`
	// TopDown: grouped AVPs are created empty, attached, and filled afterwards.
	TopDown bool `json:"top_down,omitempty"`
	// Literal: AVP struct literals instead of the constructors.
	Literal bool `json:"literal,omitempty"`
	// Reader: how the image is offered to ReadMessage (see source).
	Reader int `json:"reader,omitempty"`
}

// source offers an image through one of the io.Reader shapes a caller may legitimately hand to
// ReadMessage: all at once, the last bytes together with io.EOF (what TLS, HTTP bodies and
// iotest.DataErrReader do), one byte or half of the request per Read, behind a bufio.Reader, and
// followed by the first bytes of a next message (which must be left alone).
func source(kind int, b []byte) io.Reader {
	switch kind {
	case 1:
		return iotest.DataErrReader(bytes.NewReader(b))
	case 2:
		return iotest.OneByteReader(bytes.NewReader(b))
	case 3:
		return iotest.HalfReader(bytes.NewReader(b))
	case 4:
		return bufio.NewReaderSize(iotest.DataErrReader(bytes.NewReader(b)), 16)
	case 5:
		return bytes.NewReader(append(append([]byte{}, b...), 1, 0, 0, 20, 0x80, 0, 1, 1))
	case 6:
		return iotest.DataErrReader(iotest.HalfReader(bytes.NewReader(b)))
	}
	return bytes.NewReader(b)
}

const sigAmb = "addr-family-ambiguous"

func hasAmbiguousAddress(avps []*gen.AVP) bool {
	amb := false
	gen.Walk(avps, 1, func(a *gen.AVP, _ int) {
		if a.V.AddrAmbiguous() {
			amb = true
		}
	})
	return amb
}

func sigFor(c Case, dflt string) string {
	if hasAmbiguousAddress(c.Msg.AVPs) {
		return sigAmb
	}
	return dflt
}

func classify(c Case) (bool, []string) {
	nt, cl := gen.MsgClasses(&c.Msg)
	return nt, append(cl, "dict:"+c.Dict.Name, fmt.Sprintf("reader:%d", c.Reader))
}

func genCase(t *rapid.T) Case {
	c := Case{Dict: gen.PickDict(t)}
	_, cat, err := c.Dict.Load()
	if err != nil {
		t.Fatalf("harness: %v", err)
	}
	depth := ev.Pick(4, 12)
	c.Msg = cat.Message(t, gen.TreeOpts{MaxTop: 12, MaxDepth: rapid.IntRange(1, depth).Draw(t, "max-depth"), Val: gen.ValueOpts{SubSecond: true}})
	c.DropV = rapid.Bool().Draw(t, "drop-v")
	c.TopDown = rapid.Bool().Draw(t, "top-down")
	c.Literal = rapid.IntRange(0, 3).Draw(t, "literal") == 0
	if rapid.IntRange(0, 2).Draw(t, "plain-reader") != 0 {
		c.Reader = rapid.IntRange(1, 6).Draw(t, "reader")
	}
	return c
}

func headerDiff(what string, h *diam.Header, m *gen.Msg, length int) string {
	if h == nil {
		return what + ": nil header"
	}
	if h.Version != 1 || int(h.MessageLength) != length || h.CommandFlags != m.Flags || h.CommandCode != m.Code ||
		h.ApplicationID != m.App || h.HopByHopID != m.HbH || h.EndToEndID != m.E2E {
		return fmt.Sprintf("%s: header {ver %d len %d flags %#x code %d app %d hbh %#x e2e %#x}, expected {ver 1 len %d flags %#x code %d app %d hbh %#x e2e %#x}",
			what, h.Version, h.MessageLength, h.CommandFlags, h.CommandCode, h.ApplicationID, h.HopByHopID, h.EndToEndID,
			length, m.Flags, m.Code, m.App, m.HbH, m.E2E)
	}
	return ""
}

// ---------------------------------------------------------------------------
// forward: API -> wire -> API -> wire

var forward = ev.Register(&ev.Prop[Case]{
	ID: "C01", Name: "forward",
	Rule: "message assembled through NewMessage/NewAVP/AddAVP/GroupedAVP from values valid for the dictionary type of each code (all 18 data types, nesting, vendor-specific and undefined codes, any flag byte, ids incl. 0) under every embedded and generated dictionaries; serialise, read back, compare header + AVP tree, serialise again; non-trivial = >=1 AVP and one of {depth>=2, undefined code, vendor-specific, payload%4!=0, NaN/denormal, non-IP Address, time>=2036, body>1KiB}; distinct by hash of the case",
	Gen:  genCase, Run: runForward, Classify: classify,
})

func build(c Case) (*diam.Message, error) {
	p, _, err := c.Dict.Load()
	if err != nil {
		return nil, err
	}
	m := diam.NewMessage(c.Msg.Code, c.Msg.Flags, c.Msg.App, c.Msg.HbH, c.Msg.E2E, p)
	// NewMessage replaces zero identifiers by random ones: construction-time
	// substitution is not part of this property, the header field is set directly.
	m.Header.HopByHopID, m.Header.EndToEndID = c.Msg.HbH, c.Msg.E2E
	for i, a := range c.Msg.AVPs {
		switch {
		case a.V.T != gen.TGrouped && i%3 == 0:
			if _, err := m.NewAVP(a.Code, a.APIFlags(c.DropV), a.Vendor, a.V.ToDatatype()); err != nil {
				return nil, err
			}
		case a.V.T != gen.TGrouped && i%3 == 1 && a.Code <= 0x7fffffff:
			if _, err := m.NewAVP(int(a.Code), a.APIFlags(c.DropV), a.Vendor, a.V.ToDatatype()); err != nil {
				return nil, err
			}
		default:
			m.AddAVP(a.Build(gen.BuildOpts{DropV: c.DropV, TopDown: c.TopDown, Literal: c.Literal}))
		}
	}
	return m, nil
}

func runForward(c Case) *ev.Failure {
	p, _, err := c.Dict.Load()
	if err != nil {
		return ev.Failf("harness-dict", "%v", err)
	}
	m, err := build(c)
	if err != nil {
		return ev.Failf(sigFor(c, "build-error"), "assembling the message failed: %v", err)
	}
	b1, err := m.Serialize()
	if err != nil {
		return ev.Failf(sigFor(c, "serialize-error"), "Serialize: %v", err)
	}
	if len(b1) >= 1<<24 {
		return nil
	}
	// the same image must leave through WriteTo (pooled, previously used buffers)
	var w1 bytes.Buffer
	if n, err := m.WriteTo(&w1); err != nil || int(n) != len(b1) || !bytes.Equal(w1.Bytes(), b1) {
		return ev.Failf(sigFor(c, "writeto-differs"), "WriteTo wrote (%d, %v) and differs from Serialize at offset %d: WriteTo % x, Serialize % x", n, err, firstDiff(w1.Bytes(), b1), clip(w1.Bytes()), clip(b1))
	}
	if d := headerDiff("built message", m.Header, &c.Msg, len(b1)); d != "" {
		return ev.Failf(sigFor(c, "header-differs"), "%s", d)
	}
	// the image belongs to the caller: another message serialised and written in between (an
	// application does that all the time) must not show in what is read back below
	if other := diam.NewMessage(280, 0x80, 0, 0x0badf00d, 0x0badcafe, p); other != nil {
		other.NewAVP(264, 0x40, 0, datatype.DiameterIdentity("another.message.example"))
		other.Serialize()
		var sink bytes.Buffer
		other.WriteTo(&sink)
	}
	m2, err := diam.ReadMessage(source(c.Reader, b1), p)
	if err != nil {
		return ev.Failf(sigFor(c, "reread-error"), "ReadMessage of the serialised message: %v; wire % x", err, clip(b1))
	}
	if d := headerDiff("re-read message", m2.Header, &c.Msg, len(b1)); d != "" {
		return ev.Failf(sigFor(c, "header-differs"), "%s", d)
	}
	if d := gen.CompareTree(c.Msg.AVPs, m2.AVP, ""); d != "" {
		return ev.Failf(sigFor(c, "tree-differs"), "%s; wire % x", d, clip(b1))
	}
	b2, err := m2.Serialize()
	if err != nil {
		return ev.Failf(sigFor(c, "serialize-error"), "second Serialize: %v", err)
	}
	var w2 bytes.Buffer
	if _, err := m2.WriteTo(&w2); err != nil || !bytes.Equal(w2.Bytes(), b1) {
		return ev.Failf(sigFor(c, "reserialize-differs"), "writing the re-read message with WriteTo gives different bytes (err %v, first difference at offset %d): first % x, second % x", err, firstDiff(b1, w2.Bytes()), clip(b1), clip(w2.Bytes()))
	}
	if !bytes.Equal(b1, b2) {
		return ev.Failf(sigFor(c, "reserialize-differs"), "serialising the re-read message gives different bytes (first difference at offset %d): first % x, second % x", firstDiff(b1, b2), clip(b1), clip(b2))
	}
	return nil
}

// ---------------------------------------------------------------------------
// backward: wire -> API -> wire

var backward = ev.Register(&ev.Prop[Case]{
	ID: "C01", Name: "backward",
	Rule: "well-formed wire image produced by the reference encoder (valid payload for the dictionary type of each code, unknown codes with arbitrary payloads, any flag byte incl. reserved bits and V with vendor 0) is read and serialised: bytes must be identical and the decoded tree must hold the encoded values, unknown codes as datatype.Unknown; same non-trivial rule as forward",
	Gen:  genCase, Run: runBackward, Classify: classify,
})

func runBackward(c Case) *ev.Failure {
	p, _, err := c.Dict.Load()
	if err != nil {
		return ev.Failf("harness-dict", "%v", err)
	}
	wire := c.Msg.RefBytes()
	if len(wire) >= 1<<24 {
		return nil
	}
	m, err := diam.ReadMessage(source(c.Reader, wire), p)
	if err != nil {
		return ev.Failf(sigFor(c, "wellformed-rejected"), "ReadMessage rejects a well-formed message: %v; wire % x", err, clip(wire))
	}
	if d := headerDiff("decoded message", m.Header, &c.Msg, len(wire)); d != "" {
		return ev.Failf(sigFor(c, "header-differs"), "%s", d)
	}
	if d := gen.CompareTree(c.Msg.AVPs, m.AVP, ""); d != "" {
		return ev.Failf(sigFor(c, "tree-differs"), "%s; wire % x", d, clip(wire))
	}
	var bad string
	gen.Walk(c.Msg.AVPs, 1, func(a *gen.AVP, _ int) {
		_ = a
	})
	b, err := m.Serialize()
	if err != nil {
		return ev.Failf(sigFor(c, "serialize-error"), "Serialize: %v", err)
	}
	var w bytes.Buffer
	if _, err := m.WriteTo(&w); err != nil || !bytes.Equal(w.Bytes(), wire) {
		return ev.Failf(sigFor(c, "reserialize-differs"), "read + WriteTo is not the identity (err %v, first difference at offset %d): wire % x, got % x", err, firstDiff(wire, w.Bytes()), clip(wire), clip(w.Bytes()))
	}
	if !bytes.Equal(b, wire) {
		return ev.Failf(sigFor(c, "reserialize-differs"), "read + serialise is not the identity (first difference at offset %d): wire % x, got % x%s", firstDiff(wire, b), clip(wire), clip(b), bad)
	}
	return nil
}

func firstDiff(a, b []byte) int {
	for i := 0; i < len(a) && i < len(b); i++ {
		if a[i] != b[i] {
			return i
		}
	}
	if len(a) < len(b) {
		return len(a)
	}
	return len(b)
}

func clip(b []byte) []byte {
	if len(b) > 300 {
		return b[:300]
	}
	return b
}

func reportExcluded(t *testing.T, rec *ev.Recorder) {
	t.Cleanup(func() {
		rec.Count("excluded-by-construction:"+sigAmb, atomic.SwapInt64(&gen.AmbAddrAvoided, 0))
	})
}

func TestC01Forward(t *testing.T) {
	reportExcluded(t, forward.Rec(t))
	forward.Check(t, 4000, 200000)
}

func TestC01Backward(t *testing.T) {
	reportExcluded(t, backward.Rec(t))
	backward.Check(t, 4000, 200000)
}

// One message close to the 24-bit length limit (thorough: ~16 MiB, quick: 1 MiB).
func TestC01Large(t *testing.T) {
	if ev.GetEnv().Shard != 0 {
		t.Skip("one shard is enough")
	}
	n := ev.Pick(1<<20, 1<<24-20-8-4)
	big := make([]byte, n-1) // odd length: padded
	for i := range big {
		big[i] = byte(i * 7)
	}
	c := Case{Dict: gen.DictChoice{Name: "default"}, Msg: gen.Msg{Flags: 0x80, Code: 257, App: 0, HbH: 0, E2E: 0xffffffff, AVPs: []*gen.AVP{
		{Code: 264, Flags: 0x40, V: gen.Val{T: gen.TDiameterIdentity, B: []byte("a.b")}},
		{Code: 279, Flags: 0x40, V: gen.Val{T: gen.TGrouped}, Children: []*gen.AVP{
			{Code: 999999, Flags: 0, V: gen.Val{T: gen.TUnknown, B: big[:len(big)-40]}}}},
	}}}
	forward.One(t, c)
	backward.One(t, c)
}

// Known finding: the Address type cannot represent the family of
// other-family addresses whose image is 4 or 16 bytes long, nor family 2
// carrying an IPv4-mapped address.
func TestC01KnownProbes(t *testing.T) {
	mk := func(v gen.Val) Case {
		return Case{Dict: gen.DictChoice{Name: "default"}, Msg: gen.Msg{Flags: 0x80, Code: 257, App: 0, HbH: 1, E2E: 2,
			AVPs: []*gen.AVP{{Code: 257, Flags: 0x40, V: v}}}}
	}
	backward.Probe(t, sigAmb, mk(gen.Val{T: gen.TAddress, Fam: 8, B: []byte("12")}),
		"wire Address 00 08 31 32 (family 8, two payload bytes) is re-emitted as IPv4 00 01 00 08 31 32; same for 14-byte payloads (IPv6) and family 2 with ::ffff:a.b.c.d")
}

func TestC01Keep(t *testing.T) { ev.RunKeep(t, "C01") }
func TestReplay(t *testing.T)  { ev.Replay(t) }

// ---------------------------------------------------------------------------
// native fuzzing (thorough tier): arbitrary bytes; whenever the reference
// decoder calls them a well-formed message under dict.Default, read +
// serialise must be the identity.

func wellFormed(cat *gen.Catalog, app uint32, recs []*refcodec.Record) (ok, ambiguous bool) {
	for _, r := range recs {
		for _, x := range r.Pad {
			if x != 0 {
				return false, false
			}
		}
		v := uint32(0)
		if r.Flags&0x80 != 0 {
			v = r.Vendor
		}
		typ := cat.Resolve(app, r.Code, v)
		if r.IsGroup {
			o, a := wellFormed(cat, app, r.Children)
			if !o {
				return false, false
			}
			ambiguous = ambiguous || a
			continue
		}
		valid, amb := gen.ValidPayload(typ, r.Payload)
		if !valid {
			return false, false
		}
		ambiguous = ambiguous || amb
	}
	return true, ambiguous
}

func FuzzWireRoundTrip(f *testing.F) {
	p, cat, err := gen.DictChoice{Name: "default"}.Load()
	if err != nil {
		f.Fatal(err)
	}
	for _, m := range seedMessages() {
		f.Add(m.RefBytes())
	}
	f.Fuzz(func(t *testing.T, wire []byte) {
		if len(wire) < 20 || len(wire) > 1<<16 {
			return
		}
		h, _ := refcodec.DecodeHeader(wire)
		if h.Version != 1 || int(h.Length) != len(wire) {
			return
		}
		cmd, err := p.FindCommand(h.App, h.Code)
		if err != nil {
			return
		}
		if (h.Flags&0x80 != 0 && len(cmd.Request.Rule) == 0) || (h.Flags&0x80 == 0 && len(cmd.Answer.Rule) == 0) {
			return
		}
		recs, ferr := refcodec.FrameTree(wire[20:], func(code uint32, flags uint8, vendor uint32) bool {
			v := uint32(0)
			if flags&0x80 != 0 {
				v = vendor
			}
			return cat.Resolve(h.App, code, v) == gen.TGrouped
		})
		if ferr != nil {
			return
		}
		ok, amb := wellFormed(cat, h.App, recs)
		if !ok || amb {
			return
		}
		m, err := diam.ReadMessage(bytes.NewReader(wire), p)
		if err != nil {
			t.Fatalf("well-formed message rejected: %v\nwire % x", err, wire)
		}
		out, err := m.Serialize()
		if err != nil {
			t.Fatalf("Serialize: %v", err)
		}
		if !bytes.Equal(out, wire) {
			t.Fatalf("read + serialise is not the identity at offset %d\nwire % x\ngot  % x", firstDiff(wire, out), wire, out)
		}
	})
}

func seedMessages() []gen.Msg {
	id := func(s string) gen.Val { return gen.Val{T: gen.TDiameterIdentity, B: []byte(s)} }
	u32 := func(v uint32) gen.Val { return gen.Val{T: gen.TUnsigned32, U: uint64(v)} }
	cer := gen.Msg{Flags: 0x80, Code: 257, App: 0, HbH: 0x11, E2E: 0x22, AVPs: []*gen.AVP{
		{Code: 264, Flags: 0x40, V: id("client")}, {Code: 296, Flags: 0x40, V: id("realm")},
		{Code: 257, Flags: 0x40, V: gen.Val{T: gen.TAddress, Fam: 1, B: []byte{10, 0, 0, 1}}},
		{Code: 266, Flags: 0x40, V: u32(13)},
		{Code: 269, Flags: 0, V: gen.Val{T: gen.TUTF8String, B: []byte("go-diameter")}},
		{Code: 260, Flags: 0x40, V: gen.Val{T: gen.TGrouped}, Children: []*gen.AVP{
			{Code: 266, Flags: 0x40, V: u32(10415)}, {Code: 258, Flags: 0x40, V: u32(4)}}},
	}}
	ccr := gen.Msg{Flags: 0xc0, Code: 272, App: 4, HbH: 1, E2E: 2, AVPs: []*gen.AVP{
		{Code: 263, Flags: 0x40, V: gen.Val{T: gen.TUTF8String, B: []byte("sess;1")}},
		{Code: 55, Flags: 0x40, V: gen.Val{T: gen.TTime, I: 1700000000}},
		{Code: 456, Flags: 0x40, V: gen.Val{T: gen.TGrouped}, Children: []*gen.AVP{
			{Code: 437, Flags: 0x40, V: gen.Val{T: gen.TGrouped}, Children: []*gen.AVP{
				{Code: 421, Flags: 0x40, V: gen.Val{T: gen.TUnsigned64, U: 1 << 40}}}}}},
		{Code: 999999, Flags: 0x80, Vendor: 10415, V: gen.Val{T: gen.TUnknown, B: []byte{1, 2, 3}}},
	}}
	return []gen.Msg{cer, ccr}
}

var _ = datatype.UnknownType
