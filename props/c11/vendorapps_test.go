package c11

import (
	"bytes"
	"encoding/json"
	"fmt"
	"os"
	"os/exec"
	"strings"
	"testing"
	"time"

	"github.com/fiorix/go-diameter/v4/diam"
	"github.com/fiorix/go-diameter/v4/diam/datatype"
	"github.com/fiorix/go-diameter/v4/diam/dict"
	"github.com/fiorix/go-diameter/v4/diam/sm"

	"verif/internal/ev"
	"verif/internal/memnet"
	"verif/internal/refcodec"
)

// "A success CEA advertises at least the dictionary applications it shares with the peer", for
// application declarations the embedded dictionaries do not contain: a vendor-specific ACCOUNTING
// application, a vendor-specific authentication one, an id declared with and without vendor.
// What a state machine advertises comes from dict.Default (sm.New asks it), which must not be
// changed under the other checks of this process: every case runs in a child process (this test
// binary re-executing itself) that loads the extra declarations into its own dict.Default.

type VendorAppCase struct {
	Typ      string `json:"typ"`       // auth | acct: the declared type of application 16777999
	Vendor   bool   `json:"vendor"`    // the declaration carries <vendor id="10415"/>
	PlainToo bool   `json:"plain_too"` // a second application, 16777998, same type, no vendor, is declared and advertised as well
	InVSA    bool   `json:"in_vsa"`    // the CER advertises 16777999 inside Vendor-Specific-Application-Id (else at top level)
}

func vendorAppXML(c VendorAppCase) string {
	v := ""
	if c.Vendor {
		v = `<vendor id="10415" name="TGPP"/>`
	}
	s := fmt.Sprintf(`<?xml version="1.0" encoding="UTF-8"?><diameter><application id="16777999" type="%s" name="VA">%s</application>`, c.Typ, v)
	if c.PlainToo {
		s += fmt.Sprintf(`<application id="16777998" type="%s" name="VB"></application>`, c.Typ)
	}
	return s + `</diameter>`
}

// TestC11VendorAppWorker is the child side.
func TestC11VendorAppWorker(t *testing.T) {
	raw := os.Getenv("VERIF_C11_VENDORAPP")
	if raw == "" {
		t.Skip("child side only")
	}
	var c VendorAppCase
	if err := json.Unmarshal([]byte(raw), &c); err != nil {
		fmt.Println("WORKER-HARNESS", err)
		os.Exit(4)
	}
	f := vendorAppChild(c)
	if f != nil {
		fmt.Printf("WORKER-FAIL %s %s\n", f.Sig, strings.ReplaceAll(f.Detail, "\n", " | "))
		os.Exit(3)
	}
	fmt.Println("WORKER-OK")
	os.Exit(0)
}

func vendorAppChild(c VendorAppCase) *ev.Failure {
	if err := dict.Default.Load(strings.NewReader(vendorAppXML(c))); err != nil {
		return ev.Failf("harness-dict", "%v", err)
	}
	machine := sm.New(&sm.Settings{OriginHost: datatype.DiameterIdentity(idents[0][0]), OriginRealm: datatype.DiameterIdentity(idents[0][1]), VendorID: 13, ProductName: "verif-c11",
		HostIPAddresses: []datatype.Address{datatype.Address([]byte{10, 0, 0, 1})}})
	stop := make(chan struct{})
	defer close(stop)
	go func() {
		for {
			select {
			case <-machine.ErrorReports():
			case <-machine.HandshakeNotify():
			case <-stop:
				return
			}
		}
	}()
	mc := memnet.NewConn()
	defer func() { mc.FeedEOF(); mc.WaitClosed(2 * time.Second); mc.Close() }()
	if _, err := diam.NewConn(mc, "", machine, dict.Default); err != nil {
		return ev.Failf("harness-conn", "%v", err)
	}
	code := uint32(cAuthAppID)
	if c.Typ == "acct" {
		code = cAcctAppID
	}
	nodes := []*refcodec.Node{str(cOriginHost, peerHost), str(cOriginRealm, peerRealm), addr4(cHostIPAddress, 10, 9, 8, 7), u32(cVendorID, 99), leaf(cProductName, 0, []byte("c11-peer"))}
	if c.InVSA {
		nodes = append(nodes, u32(cSupportedVend, 10415), group(cVendorSpecific, u32(cVendorID, 10415), u32(code, 16777999)))
	} else {
		nodes = append(nodes, u32(code, 16777999))
	}
	if c.PlainToo {
		nodes = append(nodes, u32(code, 16777998))
	}
	mc.Feed(message(flagRequest, cmdCE, 0, 5, 6, nodes...))
	if !mc.WaitWrites(1, 5*time.Second) {
		return ev.Failf("vendor-app:no-cea", "no CEA within 5 s")
	}
	msgs, _, err := refcodec.SplitMessages(mc.Written())
	if err != nil || len(msgs) < 1 {
		return ev.Failf("vendor-app:cea-garbled", "%v", err)
	}
	w, err := parseWritten(msgs[0])
	if err != nil || len(w.RC) != 1 {
		return ev.Failf("vendor-app:cea-garbled", "%v", err)
	}
	desc := fmt.Sprintf("dict.Default additionally declares %s; the CER advertises %s-Application-Id 16777999 (inside Vendor-Specific-Application-Id: %v)", vendorAppXML(c)[len(`<?xml version="1.0" encoding="UTF-8"?><diameter>`):], c.Typ, c.InVSA)
	if w.RC[0] != 2001 {
		return ev.Failf("vendor-app:rejected-with-common-app", "%s: the CEA carries Result-Code %d", desc, w.RC[0])
	}
	want := []uint32{16777999}
	if c.PlainToo {
		want = append(want, 16777998)
	}
	for _, id := range want {
		found := false
		for _, a := range w.Apps {
			if a.ID == id && a.Typ == c.Typ {
				found = true
			}
		}
		if !found {
			return ev.Failf("vendor-app:cea-shared-app-missing", "%s: the success CEA advertises %v - the shared %s application %d is missing (neither at top level nor inside a Vendor-Specific-Application-Id)", desc, w.Apps, c.Typ, id)
		}
	}
	return nil
}

func runVendorApp(c VendorAppCase) *ev.Failure {
	raw, _ := json.Marshal(c)
	cmd := exec.Command(os.Args[0], "-test.run", "^TestC11VendorAppWorker$", "-test.timeout", "60s")
	cmd.Env = append(os.Environ(), "VERIF_C11_VENDORAPP="+string(raw))
	var out bytes.Buffer
	cmd.Stdout, cmd.Stderr = &out, &out
	err := cmd.Run()
	for _, line := range strings.Split(out.String(), "\n") {
		if strings.HasPrefix(line, "WORKER-OK") {
			return nil
		}
		if strings.HasPrefix(line, "WORKER-FAIL ") {
			parts := strings.SplitN(line, " ", 3)
			if len(parts) == 3 {
				return ev.Failf(parts[1], "%s", parts[2])
			}
		}
	}
	o := out.String()
	if len(o) > 1500 {
		o = o[:1500]
	}
	return ev.Failf("harness-child", "the child process gave no verdict (%v): %s", err, o)
}

var vendorAppProp = ev.Register(&ev.Prop[VendorAppCase]{
	ID: "C11", Name: "vendor-specific-application-declarations",
	Rule: "in a child process dict.Default additionally declares application 16777999 as auth or acct, with or without <vendor>, optionally with a second vendor-less application 16777998 of the same type; a state machine made afterwards serves an in-memory connection; the CER advertises the id(s) with the matching AVP, 16777999 at top level or inside Vendor-Specific-Application-Id. " +
		"Demanded: Result-Code 2001 and every shared application advertised in the CEA with its type (top level or inside a Vendor-Specific-Application-Id). non-trivial = the declaration carries a vendor",
	Run: runVendorApp,
	Classify: func(c VendorAppCase) (bool, []string) {
		return c.Vendor, []string{fmt.Sprintf("declared:%s vendor:%v", c.Typ, c.Vendor), fmt.Sprintf("cer-in-vsa:%v", c.InVSA)}
	},
})

func TestC11VendorAppDeclarations(t *testing.T) {
	vendorAppProp.Enumerate(t, true, func(yield func(VendorAppCase) bool) {
		for _, typ := range []string{"acct", "auth"} {
			for _, vendor := range []bool{true, false} {
				for _, plain := range []bool{false, true} {
					for _, inVSA := range []bool{false, true} {
						if !yield(VendorAppCase{Typ: typ, Vendor: vendor, PlainToo: plain, InVSA: inVSA}) {
							return
						}
					}
				}
			}
		}
	})
}
