package c11

import (
	"fmt"
	"net"
	"testing"
	"time"

	"github.com/fiorix/go-diameter/v4/diam"
	"github.com/fiorix/go-diameter/v4/diam/datatype"
	"github.com/fiorix/go-diameter/v4/diam/sm"
	"github.com/fiorix/go-diameter/v4/diam/sm/smpeer"
	"pgregory.net/rapid"

	"verif/internal/ev"
	"verif/internal/memnet"
	"verif/internal/refcodec"
)

// One state machine serves several connections (a listener on a wildcard
// address, a multi-homed host): with no host addresses configured, EVERY
// CEA - success or failure - carries an address of the local endpoint of the
// connection it is sent on, not of some earlier connection.

type MConn struct {
	Endpoint string `json:"endpoint"`
	Accept   bool   `json:"accept"` // acceptable CER (Auth 4) or one without common application (Auth 999)
	HbH      uint32 `json:"hbh"`
	E2E      uint32 `json:"e2e"`
	App      int    `json:"app"` // which supported application an acceptable CER advertises: 0 auth 4, 1 acct 3, 2 auth 16777251
}

var multiApps = []struct {
	code uint32
	id   uint32
}{{cAuthAppID, 4}, {cAcctAppID, 3}, {cAuthAppID, 16777251}}

type MCase struct {
	Conns []MConn `json:"conns"`
}

var multiEndpoints = []string{"10.1.2.3:3868", "10.1.2.4:3868", "192.0.2.77:3868", "127.0.0.1:3868", "[2001:db8::1]:3868", "[2001:db8::2]:3868", "10.1.2.3/10.1.2.9:3868"}

func runMulti(c MCase) *ev.Failure {
	machine := sm.New(&sm.Settings{OriginHost: datatype.DiameterIdentity(idents[0][0]), OriginRealm: datatype.DiameterIdentity(idents[0][1]), VendorID: 13, ProductName: "verif-c11"})
	stop := make(chan struct{})
	defer close(stop)
	go func() {
		for {
			select {
			case <-machine.ErrorReports():
			case <-stop:
				return
			}
		}
	}()
	// a gated application handler that reports the metadata of the connection it runs on
	type seen struct {
		remote string
		host   string
		apps   []uint32
	}
	seenc := make(chan seen, 16)
	machine.HandleFunc("RAR", func(cn diam.Conn, m *diam.Message) {
		if meta, ok := smpeer.FromContext(cn.Context()); ok {
			seenc <- seen{cn.RemoteAddr().String(), string(meta.OriginHost), append([]uint32{}, meta.Applications...)}
		} else {
			seenc <- seen{remote: cn.RemoteAddr().String()}
		}
	})
	var open []*memnet.Conn
	defer func() {
		for _, mc := range open {
			mc.FeedEOF()
			mc.WaitClosed(2 * time.Second)
			mc.Close()
		}
	}()
	for i, cc := range c.Conns {
		mc := memnet.NewConn()
		mc.Local = memnet.Addr{Net: "tcp", Str: cc.Endpoint}
		mc.Remote = memnet.Addr{Net: "tcp", Str: fmt.Sprintf("10.7.7.%d:4000", i+1)}
		open = append(open, mc)
		if _, err := diam.NewConn(mc, "", machine, nil); err != nil {
			return ev.Failf("harness-conn", "%v", err)
		}
		appAVP := u32(multiApps[cc.App%len(multiApps)].code, multiApps[cc.App%len(multiApps)].id)
		if !cc.Accept {
			appAVP = u32(cAuthAppID, 999)
		}
		mc.Feed(message(flagRequest, cmdCE, 0, cc.HbH, cc.E2E, str(cOriginHost, fmt.Sprintf("peer%d.c11.example", i)), str(cOriginRealm, peerRealm),
			addr4(cHostIPAddress, 10, 9, 8, 7), u32(cVendorID, 99), leaf(cProductName, 0, []byte("c11-peer")), appAVP))
		if !mc.WaitWrites(1, 5*time.Second) {
			return ev.Failf("multi:no-cea", "connection %d (local endpoint %s): no CEA was written within 5 s", i, cc.Endpoint)
		}
		msgs, _, err := refcodec.SplitMessages(mc.Written())
		if err != nil || len(msgs) < 1 {
			return ev.Failf("multi:cea-garbled", "connection %d: what was written does not parse: %v", i, err)
		}
		w, err := parseWritten(msgs[0])
		if err != nil {
			return ev.Failf("multi:cea-garbled", "connection %d: %v", i, err)
		}
		wantRC := uint32(2001)
		if !cc.Accept {
			wantRC = 5010
		}
		if len(w.RC) != 1 || w.RC[0] != wantRC {
			return ev.Failf("multi:result-code", "connection %d (acceptable: %v): Result-Code %v, want %d", i, cc.Accept, w.RC, wantRC)
		}
		if w.H.HopByHop != cc.HbH || w.H.EndToEnd != cc.E2E {
			return ev.Failf("multi:cea-ids", "connection %d: CEA ids %#x/%#x, the request had %#x/%#x", i, w.H.HopByHop, w.H.EndToEnd, cc.HbH, cc.E2E)
		}
		eps, _ := endpointIPs(cc.Endpoint)
		// "an address of the connection's local endpoint": every announced address must belong to
		// THIS endpoint and at least one must be announced
		if len(w.IPs) == 0 || w.BadIP > 0 {
			return ev.Failf("multi:cea-host-ip-missing", "connection %d (local endpoint %s): the CEA carries no usable Host-IP-Address (%d malformed)", i, cc.Endpoint, w.BadIP)
		}
		for _, ip := range w.IPs {
			found := false
			for _, e := range eps {
				found = found || e.Equal(ip)
			}
			if !found {
				return ev.Failf("multi:cea-host-ip-of-another-connection", "connection %d has the local endpoint %s, but its CEA announces Host-IP-Address %v (earlier connections of this state machine: %v)", i, cc.Endpoint, w.IPs, endpointsBefore(c, i))
			}
		}
	}
	// after ALL handshakes: every accepted connection still carries ITS peer's identity and
	// shared application ids as metadata (not those of a peer that connected later)
	for i, cc := range c.Conns {
		if !cc.Accept {
			continue
		}
		open[i].Feed(probe())
		select {
		case sn := <-seenc:
			want := multiApps[cc.App%len(multiApps)].id
			wantHost := fmt.Sprintf("peer%d.c11.example", i)
			if sn.remote != open[i].Remote.String() || sn.host != wantHost || len(sn.apps) != 1 || sn.apps[0] != want {
				return ev.Failf("multi:metadata-of-another-connection", "connection %d (peer %s, which advertised application %d): after %d connections had completed their handshakes its metadata reads host %q applications %v", i, wantHost, want, len(c.Conns), sn.host, sn.apps)
			}
		case <-time.After(5 * time.Second):
			return ev.Failf("multi:handler-not-invoked", "connection %d completed its handshake but the gated application handler did not run for a later request", i)
		}
	}
	return nil
}

func endpointsBefore(c MCase, i int) []string {
	var out []string
	for _, cc := range c.Conns[:i] {
		out = append(out, cc.Endpoint)
	}
	return out
}

var propMulti = ev.Register(&ev.Prop[MCase]{
	ID: "C11", Name: "shared-state-machine",
	Rule: "2..4 connections with different local endpoints (IPv4, IPv6, loopback, multi-homed) served one after the other by ONE state machine without configured host addresses; each sends an acceptable CER or one without common application; every CEA must carry the right Result-Code, the request's identifiers and only addresses of its own connection's local endpoint; non-trivial = a later connection whose endpoint differs from the first one's",
	Gen: func(t *rapid.T) MCase {
		var c MCase
		n := rapid.IntRange(2, 4).Draw(t, "conns")
		for i := 0; i < n; i++ {
			c.Conns = append(c.Conns, MConn{App: rapid.IntRange(0, 2).Draw(t, "app"), Endpoint: rapid.SampledFrom(multiEndpoints).Draw(t, "endpoint"), Accept: rapid.IntRange(0, 3).Draw(t, "accept") != 0,
				HbH: rapid.SampledFrom([]uint32{0, 1, 0xffffffff, 77}).Draw(t, "hbh"), E2E: rapid.SampledFrom([]uint32{0, 2, 0x80000000, 78}).Draw(t, "e2e")})
		}
		return c
	},
	Run: runMulti,
	Classify: func(c MCase) (bool, []string) {
		nt := false
		var cl []string
		for i, cc := range c.Conns {
			if i > 0 && cc.Endpoint != c.Conns[0].Endpoint {
				nt = true
			}
			if !cc.Accept {
				cl = append(cl, "rejected-cer")
			}
			if _, v6 := endpointIPs(cc.Endpoint); v6 {
				cl = append(cl, "ipv6-endpoint")
			}
		}
		seen := map[string]bool{}
		var out []string
		for _, x := range cl {
			if !seen[x] {
				seen[x] = true
				out = append(out, x)
			}
		}
		return nt, out
	},
})

func TestC11SharedStateMachine(t *testing.T) { propMulti.Check(t, 800, 30000) }

var _ = net.IP{}

// Every typed application the embedded dictionaries declare, advertised alone and all together:
// the CER must be accepted and the success CEA must advertise (at least) that application.
func TestC11EveryDictionaryApplication(t *testing.T) {
	md, err := refModel()
	if err != nil {
		t.Fatal(err)
	}
	var all []Item
	keys := md.Keys()
	for _, id := range keys.Apps {
		if id == 0 {
			continue
		}
		seen := map[string]bool{}
		for _, a := range md.App(id) {
			if (a.Type == "auth" || a.Type == "acct") && !seen[a.Type] {
				seen[a.Type] = true
				all = append(all, Item{K: a.Type, ID: id})
			}
		}
	}
	if len(all) < 5 {
		t.Fatalf("harness: only %d typed applications found in the embedded dictionaries", len(all))
	}
	propCER.Enumerate(t, true, func(yield func(Case) bool) {
		for _, it := range all {
			if !yield(Case{Host: true, Realm: true, Items: []Item{it}, Endpoint: "10.1.2.3:3868", HbH: 1, E2E: 2}) {
				return
			}
		}
		yield(Case{Host: true, Realm: true, Items: all, Endpoint: "10.1.2.3:3868", HbH: 3, E2E: 4})
	})
}
