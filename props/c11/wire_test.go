// Helpers shared by the state-machine checks (a copy lives in props/c10):
// an observable transport, reference-encoded messages and a reference parser
// of what the library wrote. Nothing here imports the library's codec.
package c11

import (
	"fmt"
	"net"
	"sync"
	"time"

	"verif/internal/memnet"
	"verif/internal/refcodec"
)

// AVP codes and flags (RFC 6733 / RFC 4006), written out so that the wire
// images do not depend on the library's constants.
const (
	cHostIPAddress  = 257
	cAuthAppID      = 258
	cAcctAppID      = 259
	cVendorSpecific = 260
	cSessionID      = 263
	cOriginHost     = 264
	cSupportedVend  = 265
	cVendorID       = 266
	cResultCode     = 268
	cProductName    = 269
	cOriginStateID  = 278
	cDestRealm      = 283
	cReAuthReqType  = 285
	cDestHost       = 293
	cTermCause      = 295
	cOriginRealm    = 296
	cInbandSecurity = 299
	cCCRequestNum   = 415
	cCCRequestType  = 416

	flagM = 0x40

	cmdCE = 257
	cmdRA = 258
	cmdCC = 272
	cmdAS = 274
	cmdST = 275
	cmdDW = 280

	flagRequest = 0x80

	relayID = 0xffffffff
)

func leaf(code uint32, flags uint8, payload []byte) *refcodec.Node {
	return &refcodec.Node{Code: code, Flags: flags, Payload: payload}
}
func u32(code uint32, v uint32) *refcodec.Node { return leaf(code, flagM, refcodec.U32(v)) }
func str(code uint32, s string) *refcodec.Node { return leaf(code, flagM, []byte(s)) }
func group(code uint32, children ...*refcodec.Node) *refcodec.Node {
	return &refcodec.Node{Code: code, Flags: flagM, Group: true, Children: children}
}
func addr4(code uint32, a, b, c, d byte) *refcodec.Node {
	return leaf(code, flagM, refcodec.Address(1, []byte{a, b, c, d}))
}

func message(flags uint8, code, app, hbh, e2e uint32, nodes ...*refcodec.Node) []byte {
	return refcodec.EncodeMessage(refcodec.Header{Version: 1, Flags: flags, Code: code, App: app, HopByHop: hbh, EndToEnd: e2e}, nodes, false)
}

// ---------------------------------------------------------------------------
// transport

// tconn is a memnet.Conn that additionally tells when the library's reader
// has received its final answer from Read (EOF or an error). The connection
// loop calls the transport's Read only when everything it buffered has been
// consumed, and it handles messages on the reading goroutine, so once a Read
// has returned an error every handler invocation of this connection is over:
// this is the barrier the checks use instead of sleeping.
type tconn struct {
	*memnet.Conn
	once    sync.Once
	readEnd chan struct{}
}

func newTConn() *tconn { return &tconn{Conn: memnet.NewConn(), readEnd: make(chan struct{})} }

func (c *tconn) Read(p []byte) (int, error) {
	n, err := c.Conn.Read(p)
	if err != nil {
		c.once.Do(func() { close(c.readEnd) })
	}
	return n, err
}

// waitReaderDone waits until a Read returned an error.
func (c *tconn) waitReaderDone(d time.Duration) bool {
	select {
	case <-c.readEnd:
		return true
	case <-time.After(d):
		return false
	}
}

// waitMessages waits until n complete messages were written (or the
// transport was closed / the deadline passed) and returns what is there.
func (c *tconn) waitMessages(n int, d time.Duration) [][]byte {
	deadline := time.Now().Add(d)
	need := refcodec.HeaderLen
	for {
		left := time.Until(deadline)
		if left <= 0 {
			left = time.Millisecond
		}
		c.WaitWritten(need, left)
		w := c.Written()
		msgs, tail, err := refcodec.SplitMessages(w)
		if err != nil || len(msgs) >= n {
			return msgs
		}
		if closed, _ := c.Closed(); closed || time.Now().After(deadline) {
			return msgs
		}
		// bytes still missing for the next message
		need = len(w) - len(tail) + refcodec.HeaderLen
		if len(tail) >= refcodec.HeaderLen {
			if h, e := refcodec.DecodeHeader(tail); e == nil {
				need = len(w) - len(tail) + int(h.Length)
			}
		}
		if need <= len(w) {
			need = len(w) + 1
		}
	}
}

// ---------------------------------------------------------------------------
// reference view of a written message

type advApp struct {
	Typ string // auth | acct
	ID  uint32
}

type wmsg struct {
	H      refcodec.Header
	RC     []uint32
	Hosts  []string
	Realms []string
	IPs    []net.IP
	BadIP  int // Host-IP-Address AVPs that are not an IPv4/IPv6 Address
	Apps   []advApp
}

func parseWritten(b []byte) (*wmsg, error) {
	h, err := refcodec.DecodeHeader(b)
	if err != nil {
		return nil, err
	}
	if int(h.Length) != len(b) {
		return nil, fmt.Errorf("declared length %d, image %d bytes", h.Length, len(b))
	}
	recs, err := refcodec.Frame(b[refcodec.HeaderLen:])
	if err != nil {
		return nil, err
	}
	m := &wmsg{H: h}
	appOf := func(r *refcodec.Record) {
		if len(r.Payload) != 4 {
			return
		}
		switch r.Code {
		case cAuthAppID:
			m.Apps = append(m.Apps, advApp{"auth", refcodec.Get32(r.Payload)})
		case cAcctAppID:
			m.Apps = append(m.Apps, advApp{"acct", refcodec.Get32(r.Payload)})
		}
	}
	for _, r := range recs {
		switch r.Code {
		case cResultCode:
			if len(r.Payload) == 4 {
				m.RC = append(m.RC, refcodec.Get32(r.Payload))
			}
		case cOriginHost:
			m.Hosts = append(m.Hosts, string(r.Payload))
		case cOriginRealm:
			m.Realms = append(m.Realms, string(r.Payload))
		case cHostIPAddress:
			p := r.Payload
			switch {
			case len(p) == 6 && p[0] == 0 && p[1] == 1:
				m.IPs = append(m.IPs, net.IP(append([]byte{}, p[2:]...)))
			case len(p) == 18 && p[0] == 0 && p[1] == 2:
				m.IPs = append(m.IPs, net.IP(append([]byte{}, p[2:]...)))
			default:
				m.BadIP++
			}
		case cAuthAppID, cAcctAppID:
			appOf(r)
		case cVendorSpecific:
			sub, err := refcodec.Frame(r.Payload)
			if err != nil {
				return nil, fmt.Errorf("Vendor-Specific-Application-Id: %v", err)
			}
			for _, s := range sub {
				appOf(s)
			}
		}
	}
	return m, nil
}
