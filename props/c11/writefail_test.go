package c11

import (
	"fmt"
	"testing"
	"time"

	"github.com/fiorix/go-diameter/v4/diam"
	"github.com/fiorix/go-diameter/v4/diam/datatype"
	"github.com/fiorix/go-diameter/v4/diam/dict"
	"github.com/fiorix/go-diameter/v4/diam/sm"

	"verif/internal/ev"
	"verif/internal/memnet"
	"verif/internal/refcodec"
)

// "In every other case it replies with a failure result code ... and closes the connection": the
// reply may not get through - the write of the failure CEA ends with a temporary or timeout error
// (a peer that does not drain, a WriteTimeout) - but the connection of a refused peer is closed
// all the same.

type WriteFailCase struct {
	Reason string `json:"reason"` // no-common-app | no-origin-host | inband
	Err    string `json:"err"`    // temporary | timeout
	Accept int    `json:"accept"` // bytes of the CEA the transport takes before the error
}

func runWriteFail(c WriteFailCase) *ev.Failure {
	machine := sm.New(&sm.Settings{OriginHost: "srv.example", OriginRealm: "srv-realm", VendorID: 13, ProductName: "verif",
		HostIPAddresses: []datatype.Address{datatype.Address([]byte{10, 0, 0, 1})}})
	stop := make(chan struct{})
	defer close(stop)
	go func() {
		for {
			select {
			case <-machine.ErrorReports():
			case <-machine.HandshakeNotify():
			case <-stop:
				return
			}
		}
	}()
	mc := memnet.NewConn()
	first := true
	mc.WriteHook = func(b []byte, accept func([]byte)) (int, error) {
		if first {
			first = false
			k := c.Accept
			if k > len(b) {
				k = len(b)
			}
			accept(b[:k])
			if c.Err == "timeout" {
				return k, &memnet.TimeoutError{}
			}
			return k, &memnet.TempError{Msg: "scripted temporary write error"}
		}
		accept(b)
		return len(b), nil
	}
	if _, err := diam.NewConn(mc, "", machine, dict.Default); err != nil {
		return ev.Failf("harness-conn", "%v", err)
	}
	defer func() { mc.FeedEOF(); mc.WaitClosed(2 * time.Second); mc.Close() }()
	nodes := []*refcodec.Node{{Code: 264, Flags: 0x40, Payload: []byte("peer.example")}, {Code: 296, Flags: 0x40, Payload: []byte("example")},
		{Code: 257, Flags: 0x40, Payload: refcodec.Address(1, []byte{10, 0, 0, 2})}, {Code: 266, Flags: 0x40, Payload: refcodec.U32(1)},
		{Code: 269, Payload: []byte("p")}}
	switch c.Reason {
	case "no-common-app":
		nodes = append(nodes, &refcodec.Node{Code: 258, Flags: 0x40, Payload: refcodec.U32(999999)})
	case "no-origin-host":
		nodes = append(nodes[1:], &refcodec.Node{Code: 258, Flags: 0x40, Payload: refcodec.U32(4)})
	case "inband":
		nodes = append(nodes, &refcodec.Node{Code: 258, Flags: 0x40, Payload: refcodec.U32(4)}, &refcodec.Node{Code: 299, Flags: 0x40, Payload: refcodec.U32(1)})
	}
	mc.Feed(refcodec.EncodeMessage(refcodec.Header{Version: 1, Flags: 0x80, Code: 257, HopByHop: 11, EndToEnd: 12}, nodes, false))
	if !mc.WaitClosed(longWait) {
		return ev.Failf("rejected-not-closed", "a CER that must be refused (%s): the write of the failure CEA ended with a %s error after %d bytes, and the connection was not closed within %v", c.Reason, c.Err, c.Accept, longWait)
	}
	return nil
}

var writeFailProp = ev.Register(&ev.Prop[WriteFailCase]{
	ID: "C11", Name: "refusal-when-the-cea-cannot-be-written",
	Rule: "a server state machine on an in-memory connection receives a CER that must be refused (no common application / no Origin-Host / inband security); the first transport write (the failure CEA) takes 0 or 10 bytes and ends with a temporary or a timeout error; demanded: the connection is closed. Every case is non-trivial",
	Run:  runWriteFail,
	Classify: func(c WriteFailCase) (bool, []string) {
		return true, []string{"reason:" + c.Reason, "error:" + c.Err, fmt.Sprintf("accepted:%d", c.Accept)}
	},
})

func TestC11RefusalWhenCEACannotBeWritten(t *testing.T) {
	writeFailProp.Enumerate(t, true, func(yield func(WriteFailCase) bool) {
		for _, r := range []string{"no-common-app", "no-origin-host", "inband"} {
			for _, e := range []string{"temporary", "timeout"} {
				for _, k := range []int{0, 10} {
					if !yield(WriteFailCase{Reason: r, Err: e, Accept: k}) {
						return
					}
				}
			}
		}
	})
}
