package c11

import (
	"bytes"
	"fmt"
	"testing"
	"time"

	"github.com/fiorix/go-diameter/v4/diam"
	"github.com/fiorix/go-diameter/v4/diam/datatype"
	"github.com/fiorix/go-diameter/v4/diam/sm"
	"pgregory.net/rapid"

	"verif/internal/dicts"
	"verif/internal/ev"
	"verif/internal/memnet"
	"verif/internal/refcodec"
)

// "...an application that the LOCAL DICTIONARY supports with the same type":
// the connection's dictionary is not dict.Default here but base + generated
// documents in which application ids are declared as auth, as acct, or as
// both (in separate documents, in either order).

type DApp struct {
	ID  uint32 `json:"id"`
	Typ string `json:"typ"` // auth | acct
}

type DCase struct {
	Docs [][]DApp `json:"docs"` // application elements per document, loaded in order after base
	Typ  string   `json:"typ"`  // what the CER advertises: Auth- or Acct-Application-Id ...
	ID   uint32   `json:"id"`   // ... with this id
}

func docXML(apps []DApp) string {
	s := "<?xml version=\"1.0\" encoding=\"UTF-8\"?>\n<diameter>\n"
	for _, a := range apps {
		s += fmt.Sprintf(" <application id=\"%d\" type=\"%s\" name=\"A%d%s\"></application>\n", a.ID, a.Typ, a.ID, a.Typ)
	}
	return s + "</diameter>\n"
}

func runCustom(c DCase) *ev.Failure {
	emb, err := dicts.EmbeddedXML()
	if err != nil {
		return ev.Failf("harness-dict", "%v", err)
	}
	xmls := []string{}
	for _, e := range emb {
		if e.Var == "baseXML" {
			xmls = append(xmls, e.XML)
		}
	}
	supported := false
	for _, d := range c.Docs {
		xmls = append(xmls, docXML(d))
		for _, a := range d {
			if a.ID == c.ID && a.Typ == c.Typ {
				supported = true
			}
		}
	}
	p, err := dicts.Load(xmls...)
	if err != nil {
		return ev.Failf("harness-dict", "generated dictionary does not load: %v", err)
	}
	machine := sm.New(&sm.Settings{OriginHost: datatype.DiameterIdentity(idents[0][0]), OriginRealm: datatype.DiameterIdentity(idents[0][1]), VendorID: 13, ProductName: "verif-c11",
		HostIPAddresses: []datatype.Address{datatype.Address([]byte{10, 0, 0, 1})}})
	stop := make(chan struct{})
	defer close(stop)
	go func() {
		for {
			select {
			case <-machine.ErrorReports():
			case <-stop:
				return
			}
		}
	}()
	mc := memnet.NewConn()
	defer func() { mc.FeedEOF(); mc.WaitClosed(2 * time.Second); mc.Close() }()
	if _, err := diam.NewConn(mc, "", machine, p); err != nil {
		return ev.Failf("harness-conn", "%v", err)
	}
	code := uint32(cAuthAppID)
	if c.Typ == "acct" {
		code = cAcctAppID
	}
	mc.Feed(message(flagRequest, cmdCE, 0, 5, 6, str(cOriginHost, peerHost), str(cOriginRealm, peerRealm),
		addr4(cHostIPAddress, 10, 9, 8, 7), u32(cVendorID, 99), leaf(cProductName, 0, []byte("c11-peer")), u32(code, c.ID)))
	if !mc.WaitWrites(1, 5*time.Second) {
		return ev.Failf("custom:no-cea", "no CEA within 5 s")
	}
	msgs, _, err := refcodec.SplitMessages(mc.Written())
	if err != nil || len(msgs) < 1 {
		return ev.Failf("custom:cea-garbled", "%v", err)
	}
	w, err := parseWritten(msgs[0])
	if err != nil || len(w.RC) != 1 {
		return ev.Failf("custom:cea-garbled", "%v (result codes %v)", err, w)
	}
	if supported && w.RC[0] != 2001 {
		return ev.Failf("custom:rejected-with-common-app", "the local dictionary (documents %v after base) declares application %d with type %s, the CER advertises %s %d, yet the CEA carries Result-Code %d", c.Docs, c.ID, c.Typ, c.Typ, c.ID, w.RC[0])
	}
	if !supported && w.RC[0] != 5010 {
		return ev.Failf("custom:accepted-without-common-app", "the local dictionary (documents %v after base) does not declare application %d with type %s, yet the CEA carries Result-Code %d (want 5010)", c.Docs, c.ID, c.Typ, w.RC[0])
	}
	if !supported && !mc.WaitClosed(5*time.Second) {
		return ev.Failf("custom:reject-not-closed", "the CER was rejected but the connection was not closed")
	}
	return nil
}

var propCustom = ev.Register(&ev.Prop[DCase]{
	ID: "C11", Name: "custom-dictionary",
	Rule: "the connection's dictionary is base + 1..3 generated documents declaring application ids {7101, 7102, 7103} as auth and/or acct (the same id under both types in separate documents, in either order); the CER advertises one Auth- or Acct-Application-Id; accepted (2001) iff the dictionary declares that id with that type, else 5010 and closed; non-trivial = the advertised id is declared under both types or only under the other type",
	Gen: func(t *rapid.T) DCase {
		var c DCase
		n := rapid.IntRange(1, 3).Draw(t, "docs")
		for i := 0; i < n; i++ {
			k := rapid.IntRange(1, 2).Draw(t, "apps")
			var d []DApp
			seen := map[uint32]bool{}
			for j := 0; j < k; j++ {
				id := rapid.SampledFrom([]uint32{7101, 7102, 7103}).Draw(t, "id")
				if seen[id] {
					continue // one element per id within a document
				}
				seen[id] = true
				d = append(d, DApp{ID: id, Typ: rapid.SampledFrom([]string{"auth", "acct"}).Draw(t, "typ")})
			}
			c.Docs = append(c.Docs, d)
		}
		c.Typ = rapid.SampledFrom([]string{"auth", "acct"}).Draw(t, "adv-typ")
		c.ID = rapid.SampledFrom([]uint32{7101, 7102, 7103}).Draw(t, "adv-id")
		return c
	},
	Run: runCustom,
	Classify: func(c DCase) (bool, []string) {
		same, other := false, false
		for _, d := range c.Docs {
			for _, a := range d {
				if a.ID == c.ID {
					if a.Typ == c.Typ {
						same = true
					} else {
						other = true
					}
				}
			}
		}
		var cl []string
		if same && other {
			cl = append(cl, "id-declared-under-both-types")
		}
		if other && !same {
			cl = append(cl, "id-declared-under-the-other-type-only")
		}
		return other, cl
	},
})

func TestC11CustomDictionary(t *testing.T) { propCustom.Check(t, 600, 20000) }

// ---------------------------------------------------------------------------
// What a state machine advertises and accepts is the list sm.PrepareSupportedApps derives from
// the dictionary (sm.New always asks it about dict.Default, which the harness never changes; the
// function itself takes any parser). It must list every application the dictionary declares -
// an id declared as auth and as acct twice - and follow the dictionary as it grows.

func runSupportedApps(c DCase) *ev.Failure {
	emb, err := dicts.EmbeddedXML()
	if err != nil {
		return ev.Failf("harness-dict", "%v", err)
	}
	var base string
	for _, e := range emb {
		if e.Var == "baseXML" {
			base = e.XML
		}
	}
	p, err := dicts.Load(base)
	if err != nil {
		return ev.Failf("harness-dict", "%v", err)
	}
	type key struct {
		id  uint32
		typ string
	}
	want := map[key]bool{}
	for _, a := range sm.PrepareSupportedApps(p) { // the base document's own applications (id 0 is left out by design)
		want[key{a.ID, a.AppType}] = true
	}
	for i, d := range c.Docs {
		if err := p.Load(bytes.NewReader([]byte(docXML(d)))); err != nil {
			return ev.Failf("harness-dict", "generated document %d does not load: %v", i, err)
		}
		for _, a := range d {
			want[key{a.ID, a.Typ}] = true
		}
		got := map[key]int{}
		for _, a := range sm.PrepareSupportedApps(p) {
			got[key{a.ID, a.AppType}]++
		}
		for k := range want {
			if got[k] == 0 {
				return ev.Failf("supported-apps:missing", "after loading document %d of %v the dictionary declares application %d as %q, but sm.PrepareSupportedApps does not list it (it lists %v): a state machine would neither advertise nor accept it", i, c.Docs, k.id, k.typ, got)
			}
		}
		for k := range got {
			if !want[k] {
				return ev.Failf("supported-apps:invented", "after loading document %d of %v sm.PrepareSupportedApps lists application %d as %q, which no loaded document declares", i, c.Docs, k.id, k.typ)
			}
		}
	}
	return nil
}

var propSupported = ev.Register(&ev.Prop[DCase]{
	ID: "C11", Name: "supported-applications",
	Rule: "a parser with the base document, then 1..3 generated documents declaring application ids {7101, 7102, 7103} as auth and/or acct loaded one after the other; after every Load sm.PrepareSupportedApps(parser) must list exactly the (id, type) pairs declared so far (an id declared under both types twice); non-trivial = an id is declared under both types, or there are >= 2 documents",
	Gen:  propCustom.Gen,
	Run:  runSupportedApps,
	Classify: func(c DCase) (bool, []string) {
		types := map[uint32]map[string]bool{}
		for _, d := range c.Docs {
			for _, a := range d {
				if types[a.ID] == nil {
					types[a.ID] = map[string]bool{}
				}
				types[a.ID][a.Typ] = true
			}
		}
		both := false
		for _, m := range types {
			both = both || len(m) == 2
		}
		var cl []string
		if both {
			cl = append(cl, "id-declared-as-auth-and-acct")
		}
		return both || len(c.Docs) >= 2, cl
	},
})

func TestC11SupportedApps(t *testing.T) { propSupported.Check(t, 300, 8000) }
