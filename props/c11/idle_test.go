package c11

import (
	"fmt"
	"testing"
	"time"

	"github.com/fiorix/go-diameter/v4/diam"
	"github.com/fiorix/go-diameter/v4/diam/datatype"
	"github.com/fiorix/go-diameter/v4/diam/dict"
	"github.com/fiorix/go-diameter/v4/diam/sm"
	"pgregory.net/rapid"

	"verif/internal/ev"
	"verif/internal/memnet"
	"verif/internal/refcodec"
)

// "Answers a CER with success exactly when ...": also when the state machine is served by a
// diam.Server with a WriteTimeout and the peer takes longer than that timeout to send its CER
// (a write timeout bounds the write of the answer, not the wait for the request). The in-memory
// transport honours write deadlines like a socket. Acceptable and unacceptable CERs alike must
// get their CEA.

type LateCase struct {
	WriteTimeoutMs int    `json:"write_timeout_ms"`
	ReadTimeoutMs  int    `json:"read_timeout_ms,omitempty"`
	WaitMs         int    `json:"wait_ms"` // silence between connecting and the CER
	Accept         bool   `json:"accept"`
	HbH            uint32 `json:"hbh"`
	E2E            uint32 `json:"e2e"`
}

func runLate(c LateCase) *ev.Failure {
	machine := sm.New(&sm.Settings{OriginHost: "srv.example", OriginRealm: "srv-realm", VendorID: 13, ProductName: "verif",
		HostIPAddresses: []datatype.Address{datatype.Address([]byte{10, 0, 0, 1})}})
	stop := make(chan struct{})
	defer close(stop)
	reps := make(chan string, 16)
	go func() {
		for {
			select {
			case r := <-machine.ErrorReports():
				select {
				case reps <- fmt.Sprint(r.Error):
				default:
				}
			case <-machine.HandshakeNotify():
			case <-stop:
				return
			}
		}
	}()
	lis := memnet.NewListener(1)
	srv := &diam.Server{Handler: machine, Dict: dict.Default, WriteTimeout: time.Duration(c.WriteTimeoutMs) * time.Millisecond,
		ReadTimeout: time.Duration(c.ReadTimeoutMs) * time.Millisecond}
	go srv.Serve(lis)
	defer lis.Close()
	mc := memnet.NewConn()
	lis.Push(mc)
	defer func() { mc.FeedEOF(); mc.WaitClosed(2 * time.Second); mc.Close() }()
	time.Sleep(time.Duration(c.WaitMs) * time.Millisecond)
	app := uint32(4)
	if !c.Accept {
		app = 999
	}
	mc.Feed(refcodec.EncodeMessage(refcodec.Header{Version: 1, Flags: 0x80, Code: 257, HopByHop: c.HbH, EndToEnd: c.E2E},
		[]*refcodec.Node{{Code: 264, Flags: 0x40, Payload: []byte("peer.example")}, {Code: 296, Flags: 0x40, Payload: []byte("example")},
			{Code: 257, Flags: 0x40, Payload: refcodec.Address(1, []byte{10, 0, 0, 2})}, {Code: 266, Flags: 0x40, Payload: refcodec.U32(1)},
			{Code: 269, Payload: []byte("p")}, {Code: 258, Flags: 0x40, Payload: refcodec.U32(app)}}, false))
	desc := fmt.Sprintf("a CER (acceptable: %v) sent %d ms after connecting to a server with WriteTimeout %d ms / ReadTimeout %d ms", c.Accept, c.WaitMs, c.WriteTimeoutMs, c.ReadTimeoutMs)
	diag := func() string {
		select {
		case r := <-reps:
			return "; error report: " + r
		case <-time.After(20 * time.Millisecond):
			return ""
		}
	}
	if !mc.WaitWrites(1, 3*time.Second) || len(mc.Writes()) == 0 {
		closed, _ := mc.Closed()
		return ev.Failf("late:no-cea", "%s got no CEA within 3 s (connection closed: %v)%s", desc, closed, diag())
	}
	w := mc.Writes()[0]
	if w.Err != nil {
		return ev.Failf("late:no-cea", "%s: the CEA failed in the transport: %v%s", desc, w.Err, diag())
	}
	h, err := refcodec.DecodeHeader(w.Data)
	if err != nil || h.Code != 257 || h.Flags&0x80 != 0 || h.HopByHop != c.HbH || h.EndToEnd != c.E2E {
		return ev.Failf("late:cea-header", "%s was answered with header %+v (%v)", desc, h, err)
	}
	recs, err := refcodec.Frame(w.Data[20:])
	if err != nil {
		return ev.Failf("late:cea-header", "the CEA does not frame: %v", err)
	}
	rc := uint32(0)
	for _, r := range recs {
		if r.Code == 268 && len(r.Payload) == 4 {
			rc = refcodec.Get32(r.Payload)
		}
	}
	if c.Accept != (rc == 2001) {
		return ev.Failf("late:result-code", "%s was answered with Result-Code %d", desc, rc)
	}
	return nil
}

var lateProp = ev.Register(&ev.Prop[LateCase]{
	ID: "C11", Name: "late-cer-to-a-server-with-write-timeout",
	Rule: "a server state machine served by diam.Server with WriteTimeout 20..40 ms (ReadTimeout none or 2 s) over an in-memory transport that honours write deadlines; the peer connects, stays quiet for 0 or 2..3 x WriteTimeout and sends a CER that is acceptable (Auth-Application-Id 4) or not (999), with generated identifiers. " +
		"Demanded: a CEA with the request's identifiers is written without a transport error, success exactly for the acceptable CER. non-trivial = the CER comes later than WriteTimeout",
	Gen: func(t *rapid.T) LateCase {
		c := LateCase{WriteTimeoutMs: rapid.IntRange(20, 40).Draw(t, "write-timeout-ms"), Accept: rapid.Bool().Draw(t, "accept"),
			HbH: rapid.SampledFrom([]uint32{0, 1, 0xffffffff, 0x1234}).Draw(t, "hbh"), E2E: rapid.Uint32().Draw(t, "e2e")}
		if rapid.Bool().Draw(t, "read-timeout") {
			c.ReadTimeoutMs = 2000
		}
		if rapid.IntRange(0, 3).Draw(t, "late") != 0 {
			c.WaitMs = c.WriteTimeoutMs * rapid.IntRange(2, 3).Draw(t, "factor")
		}
		return c
	},
	Run: runLate,
	Classify: func(c LateCase) (bool, []string) {
		cl := []string{fmt.Sprintf("acceptable:%v", c.Accept)}
		if c.ReadTimeoutMs > 0 {
			cl = append(cl, "with-read-timeout")
		}
		return c.WaitMs > c.WriteTimeoutMs, cl
	},
	Attempts: 2,
})

func TestC11LateCER(t *testing.T) { lateProp.Check(t, 30, 800) }
