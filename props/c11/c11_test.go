// C11 - A CER is accepted exactly when a common application exists.
//
// A server state machine (sm.New behind the library's own connection loop,
// on an in-memory transport) receives one reference-encoded CER. The oracle
// is the model written from the statement: accept <=> Origin-Host and
// Origin-Realm present, Inband-Security-Id absent or 0, and some advertised
// Acct/Auth/Vendor-Specific item is the relay id or an id the reference
// dictionary model (internal/refdict fed with the embedded documents) knows
// with the same type. Observed: the CEA bytes on the transport, the
// transport's Close, and the metadata seen by a gated application handler
// that is sent a request afterwards (or in the same segment as the CER).
package c11

import (
	"fmt"
	"io"
	"log"
	"net"
	"sort"
	"strings"
	"sync"
	"testing"
	"time"

	"github.com/fiorix/go-diameter/v4/diam"
	"github.com/fiorix/go-diameter/v4/diam/datatype"
	"github.com/fiorix/go-diameter/v4/diam/sm"
	"github.com/fiorix/go-diameter/v4/diam/sm/smpeer"
	"pgregory.net/rapid"

	"verif/internal/dicts"
	"verif/internal/ev"
	"verif/internal/memnet"
	"verif/internal/refcodec"
	"verif/internal/refdict"
)

func init() { log.SetOutput(io.Discard) }

// ---------------------------------------------------------------------------
// case

// Member is one AVP inside a Vendor-Specific-Application-Id group.
type Member struct {
	K string `json:"k"` // vendor | acct | auth
	V uint32 `json:"v"`
}

// Item is one application AVP of the CER.
type Item struct {
	K  string   `json:"k"`            // acct | auth | vsa
	ID uint32   `json:"id,omitempty"` // acct / auth
	M  []Member `json:"m,omitempty"`  // vsa
}

type Case struct {
	Host       bool     `json:"host"`
	Realm      bool     `json:"realm"`
	Inband     *uint32  `json:"inband"` // nil: absent
	Items      []Item   `json:"items"`
	StateID    *uint32  `json:"state_id"`
	Ident      int      `json:"ident"`      // which local identity the settings carry
	Configured []string `json:"configured"` // Settings.HostIPAddresses
	// Singular: a single configured address is given through the older field
	// Settings.HostIPAddress instead of the list.
	Singular bool `json:"singular,omitempty"`
	// EmptyList (nothing configured): Settings.HostIPAddresses is an empty, non-nil list - what
	// filtering a configuration leaves behind - instead of nil. It configures no address either.
	EmptyList bool   `json:"empty_list,omitempty"`
	Endpoint  string `json:"endpoint"` // local address of the transport
	HbH       uint32 `json:"hbh"`
	E2E       uint32 `json:"e2e"`
	Together  bool   `json:"together"` // the application request follows the CER in the same segment
}

const (
	peerHost  = "peer.c11.example"
	peerRealm = "c11.example"
	probeHbH  = 0x70726f62
	probeE2E  = 0x65326531
)

var idents = [][2]string{{"srv.verif.test", "verif.test"}, {"b.other.example.net", "other.example.net"}}

func (it Item) node() *refcodec.Node {
	switch it.K {
	case "acct":
		return u32(cAcctAppID, it.ID)
	case "auth":
		return u32(cAuthAppID, it.ID)
	}
	var ch []*refcodec.Node
	for _, m := range it.M {
		switch m.K {
		case "vendor":
			ch = append(ch, u32(cVendorID, m.V))
		case "acct":
			ch = append(ch, u32(cAcctAppID, m.V))
		case "auth":
			ch = append(ch, u32(cAuthAppID, m.V))
		}
	}
	return group(cVendorSpecific, ch...)
}

func (c Case) cer() []byte {
	var n []*refcodec.Node
	if c.Host {
		n = append(n, str(cOriginHost, peerHost))
	}
	if c.Realm {
		n = append(n, str(cOriginRealm, peerRealm))
	}
	n = append(n, addr4(cHostIPAddress, 10, 9, 8, 7), u32(cVendorID, 99), leaf(cProductName, 0, []byte("c11-peer")))
	if c.StateID != nil {
		n = append(n, u32(cOriginStateID, *c.StateID))
	}
	if c.Inband != nil {
		n = append(n, u32(cInbandSecurity, *c.Inband))
	}
	for _, it := range c.Items {
		n = append(n, it.node())
	}
	return message(flagRequest, cmdCE, 0, c.HbH, c.E2E, n...)
}

func probe() []byte {
	return message(flagRequest, cmdRA, 0, probeHbH, probeE2E,
		str(cSessionID, "c11;probe;1"), str(cOriginHost, peerHost), str(cOriginRealm, peerRealm),
		str(cDestRealm, "verif.test"), str(cDestHost, "srv.verif.test"), u32(cAuthAppID, 4), u32(cReAuthReqType, 0))
}

// ---------------------------------------------------------------------------
// the alphabet of application items

const (
	vendor3GPP = 10415
	bigID      = 4294967294 // 2^32-2: the largest id that is not the relay id
)

func vsa(m ...Member) Item { return Item{K: "vsa", M: m} }

// alphabet is the item alphabet of the exhaustive part (DESIGN.md, C11).
func alphabet() []Item {
	v := Member{"vendor", vendor3GPP}
	return []Item{
		{K: "acct", ID: 3},        // supported accounting application
		{K: "acct", ID: 4},        // id known, but as an auth application
		{K: "acct", ID: 999},      // unknown
		{K: "acct", ID: relayID},  // relay
		{K: "auth", ID: 4},        // supported (defined twice: vendor 0 and 10415)
		{K: "auth", ID: 3},        // id known, but as an acct application
		{K: "auth", ID: 16777251}, // supported, vendor-specific in the dictionary
		{K: "auth", ID: 999},      // unknown
		{K: "auth", ID: relayID},  // relay
		vsa(v, Member{"auth", 16777251}),
		vsa(v, Member{"auth", bigID}),
		vsa(Member{"acct", 999}, v),
		vsa(Member{"acct", 999}, Member{"auth", 4}),
		vsa(Member{"auth", 4}, Member{"acct", 999}),
		vsa(),
		vsa(v),
	}
}

// ---------------------------------------------------------------------------
// the model

var (
	dictOnce  sync.Once
	dictModel *refdict.Model
	dictErr   error
)

func refModel() (*refdict.Model, error) {
	dictOnce.Do(func() {
		docs, err := dicts.EmbeddedXML()
		if err != nil {
			dictErr = err
			return
		}
		m := refdict.New()
		for _, d := range docs {
			if !d.Loaded {
				continue
			}
			if iss := m.Load(d.XML); len(iss) > 0 {
				dictErr = fmt.Errorf("the model finds fault with embedded document %s: %+v", d.Var, iss)
				return
			}
		}
		dictModel = m
	})
	return dictModel, dictErr
}

type expectation struct {
	accept      bool
	causes      map[uint32]bool // failure result codes whose cause applies
	ids         map[uint32]bool // advertised ids that are relay or supported with the same type
	shared      []advApp        // advertised dictionary applications (type, id) the local side supports
	unspecified bool            // the reference model does not decide some id (never generated)
	nApp        int             // application ids advertised in total
	nBad        int             // of them not supported
	wrongType   bool            // some id is known to the dictionary under the other type only
}

func model(md *refdict.Model, c Case) expectation {
	e := expectation{causes: map[uint32]bool{}, ids: map[uint32]bool{}}
	one := func(typ string, id uint32) {
		e.nApp++
		if id == relayID {
			e.ids[id] = true
			return
		}
		switch v, _ := md.AppTyped(id, typ); v {
		case refdict.Yes:
			e.ids[id] = true
			e.shared = append(e.shared, advApp{typ, id})
		case refdict.Unspecified:
			e.unspecified = true
		default:
			e.nBad++
			other := "auth"
			if typ == "auth" {
				other = "acct"
			}
			if v2, _ := md.AppTyped(id, other); v2 == refdict.Yes {
				e.wrongType = true
			}
		}
	}
	for _, it := range c.Items {
		switch it.K {
		case "acct", "auth":
			one(it.K, it.ID)
		case "vsa":
			for _, m := range it.M {
				if m.K == "acct" || m.K == "auth" {
					one(m.K, m.V)
				}
			}
		}
	}
	if !c.Host || !c.Realm {
		e.causes[5012] = true // otherwise unable to comply
	}
	if c.Inband != nil && *c.Inband != 0 {
		e.causes[5017] = true // no common security
	}
	if len(e.ids) == 0 {
		e.causes[5010] = true // no common application
	}
	e.accept = len(e.causes) == 0
	return e
}

func endpointIPs(ep string) (ips []net.IP, v6 bool) {
	host, _, err := net.SplitHostPort(ep)
	if err != nil {
		// multi-homed form "a/b:port"
		if i := strings.LastIndexByte(ep, ':'); i >= 0 {
			host = ep[:i]
		}
	}
	v6 = strings.HasPrefix(ep, "[")
	for _, h := range strings.Split(host, "/") {
		if i := strings.IndexByte(h, '%'); i >= 0 {
			h = h[:i]
		}
		if ip := net.ParseIP(h); ip != nil {
			ips = append(ips, ip)
		}
	}
	return ips, v6
}

// ---------------------------------------------------------------------------
// running one case

type probeSeen struct {
	hasMeta bool
	host    string
	realm   string
	apps    []uint32
	closed  bool // the transport was already closed when the handler ran
}

const (
	sigV6       = "cea-no-host-ip-ipv6-endpoint"
	longWait    = 5 * time.Second
	closeWait   = 3 * time.Second
	settleProbe = 5 * time.Second
)

func keys(m map[uint32]bool) []uint32 {
	var out []uint32
	for k := range m {
		out = append(out, k)
	}
	sort.Slice(out, func(i, j int) bool { return out[i] < out[j] })
	return out
}

func whyRejectExpected(c Case, e expectation) string {
	switch {
	case !c.Host || !c.Realm:
		return "identity-missing"
	case e.causes[5017]:
		return "inband-security"
	case e.nApp == 0:
		return "no-application-id"
	case e.wrongType:
		return "wrong-type"
	}
	return "unsupported-id"
}

func whyAcceptExpected(e expectation) string {
	if e.ids[relayID] && len(e.shared) == 0 {
		return "relay"
	}
	if e.nBad > 0 {
		return "mixed-with-unsupported"
	}
	return "supported"
}

// run executes the case. deferV6 is set only while the finding
// cea-no-host-ip-ipv6-endpoint is listed as "known:" (unrepaired) in
// known_findings.txt: the Host-IP-Address clause is then not evaluated for
// the class of that finding (IPv6 endpoint, no configured addresses), so that
// the search over everything else continues past it (DESIGN.md 2.5), and
// TestC11ProbeV6 reports whether it still reproduces. On a tree where the
// finding is not listed the clause is asserted for every case.
func run(c Case, deferV6 bool) *ev.Failure {
	md, err := refModel()
	if err != nil {
		return ev.Failf("harness-dict", "%v", err)
	}
	exp := model(md, c)
	if exp.unspecified {
		return ev.Failf("harness-generator", "the case advertises an id the reference model does not decide: %+v", c.Items)
	}
	if c.Ident < 0 || c.Ident >= len(idents) {
		return ev.Failf("harness-generator", "identity index %d", c.Ident)
	}
	id := idents[c.Ident]
	st := &sm.Settings{
		OriginHost:  datatype.DiameterIdentity(id[0]),
		OriginRealm: datatype.DiameterIdentity(id[1]),
		VendorID:    13,
		ProductName: "verif-c11",
	}
	var configured []net.IP
	for _, s := range c.Configured {
		ip := net.ParseIP(s)
		if ip == nil {
			return ev.Failf("harness-generator", "bad configured address %q", s)
		}
		configured = append(configured, ip)
		if v4 := ip.To4(); v4 != nil {
			ip = v4
		}
		st.HostIPAddresses = append(st.HostIPAddresses, datatype.Address(ip))
	}
	if c.Singular && len(st.HostIPAddresses) == 1 {
		st.HostIPAddress, st.HostIPAddresses = st.HostIPAddresses[0], nil
	}
	if c.EmptyList && len(c.Configured) == 0 {
		st.HostIPAddresses = []datatype.Address{}
	}
	machine := sm.New(st)

	stop := make(chan struct{})
	var wg sync.WaitGroup
	wg.Add(1)
	go func() { // the report channel holds one entry and drops the rest: keep it empty
		defer wg.Done()
		for {
			select {
			case <-machine.ErrorReports():
			case <-stop:
				return
			}
		}
	}()
	defer func() { close(stop); wg.Wait() }()

	tc := newTConn()
	tc.Local = memnet.Addr{Net: "tcp", Str: c.Endpoint}
	seen := make(chan probeSeen, 8)
	machine.HandleFunc("RAR", func(dc diam.Conn, m *diam.Message) {
		var p probeSeen
		if meta, ok := smpeer.FromContext(dc.Context()); ok && meta != nil {
			p.hasMeta = true
			p.host, p.realm = string(meta.OriginHost), string(meta.OriginRealm)
			p.apps = append([]uint32{}, meta.Applications...)
		}
		p.closed, _ = tc.Closed()
		seen <- p
	})
	if _, err := diam.NewConn(tc, "", machine, nil); err != nil {
		return ev.Failf("harness-conn", "NewConn: %v", err)
	}
	// whatever happens, leave no reader behind
	finished := false
	finish := func() bool {
		if finished {
			return true
		}
		finished = true
		tc.FeedEOF()
		ok := tc.waitReaderDone(longWait)
		return tc.WaitClosed(longWait) && ok
	}
	defer finish()

	cer := c.cer()
	if c.Together {
		tc.Feed(append(append([]byte{}, cer...), probe()...))
	} else {
		tc.Feed(cer)
	}
	msgs := tc.waitMessages(1, longWait)
	if len(msgs) == 0 {
		return ev.Failf("no-cea", "no answer to the CER within %v (model: accept=%v causes=%v)", longWait, exp.accept, keys(exp.causes))
	}
	cea, err := parseWritten(msgs[0])
	if err != nil {
		return ev.Failf("cea-malformed", "the answer does not parse with the reference framer: %v (% x)", err, msgs[0])
	}
	if cea.H.Code != cmdCE || cea.H.Flags&flagRequest != 0 {
		return ev.Failf("cea-not-a-cea", "the first message written is not a CEA: %+v", cea.H)
	}
	if len(cea.RC) != 1 {
		return ev.Failf("cea-result-code-count", "the CEA carries %d Result-Code AVPs", len(cea.RC))
	}
	rc := cea.RC[0]

	// 1. the decision
	if exp.accept && rc != 2001 {
		return ev.Failf("rejected-with-common-app:"+whyAcceptExpected(exp), "model accepts (shared ids %v) but the CEA says %d; items %+v", keys(exp.ids), rc, c.Items)
	}
	if !exp.accept && rc == 2001 {
		return ev.Failf("accepted-without-cause:"+whyRejectExpected(c, exp), "model rejects (applicable causes %v) but the CEA says 2001; host=%v realm=%v inband=%v items %+v", keys(exp.causes), c.Host, c.Realm, fmtInband(c.Inband), c.Items)
	}
	// 2. the failure code names a cause that applies
	if !exp.accept && !exp.causes[rc] {
		return ev.Failf("wrong-result-code", "the CEA says %d, the causes that apply are %v; host=%v realm=%v inband=%v items %+v", rc, keys(exp.causes), c.Host, c.Realm, fmtInband(c.Inband), c.Items)
	}

	// 3. closing, gating, metadata
	var got []probeSeen
	if exp.accept {
		if !c.Together {
			if closed, _ := tc.Closed(); !closed {
				tc.Feed(probe())
			}
		}
		select {
		case p := <-seen:
			got = append(got, p)
		case <-time.After(settleProbe):
		}
		closedBeforeEOF, _ := tc.Closed()
		if !finish() {
			return ev.Failf("harness-conn", "the connection loop did not end within %v of EOF", longWait)
		}
		got = append(got, drain(seen)...)
		if len(got) == 0 {
			if closedBeforeEOF {
				return ev.Failf("accepted-but-closed", "CEA 2001 was sent but the transport was closed by the server")
			}
			return ev.Failf("accepted-but-gated", "CEA 2001 was sent but the application handler was not invoked for the request that followed")
		}
		if len(got) != 1 {
			return ev.Failf("probe-invocations", "one request was sent, the handler ran %d times", len(got))
		}
		p := got[0]
		if p.closed || closedBeforeEOF {
			return ev.Failf("accepted-but-closed", "CEA 2001 was sent but the transport was closed by the server (closed when the handler ran: %v)", p.closed)
		}
		if !p.hasMeta {
			return ev.Failf("metadata-missing", "the handler ran without peer metadata in the connection context")
		}
		if p.host != peerHost || p.realm != peerRealm {
			return ev.Failf("metadata-identity", "metadata says %q / %q, the CER said %q / %q", p.host, p.realm, peerHost, peerRealm)
		}
		gotIDs := map[uint32]bool{}
		for _, a := range p.apps {
			gotIDs[a] = true
		}
		if fmt.Sprint(keys(gotIDs)) != fmt.Sprint(keys(exp.ids)) {
			return ev.Failf("metadata-applications", "metadata Applications %v, shared ids of the CER %v; items %+v", p.apps, keys(exp.ids), c.Items)
		}
	} else {
		// the server must close on its own: no EOF is fed before that was seen
		closedByServer := tc.WaitClosed(closeWait)
		if !finish() {
			return ev.Failf("harness-conn", "the connection loop did not end within %v", longWait)
		}
		got = drain(seen)
		if len(got) > 0 {
			return ev.Failf("handler-ran-after-reject", "CEA %d was sent, yet the application handler ran %d times (metadata present: %v)", rc, len(got), got[0].hasMeta)
		}
		if !closedByServer {
			return ev.Failf("reject-not-closed", "CEA %d was sent but the transport was not closed within %v", rc, closeWait)
		}
	}

	// 4. exactly one answer
	all, tail, err := refcodec.SplitMessages(tc.Written())
	if err != nil || len(tail) != 0 || len(all) != 1 {
		return ev.Failf("extra-output", "expected exactly the CEA on the transport, found %d messages, %d trailing bytes (err %v)", len(all), len(tail), err)
	}

	// 5. what every CEA carries
	if cea.H.HopByHop != c.HbH || cea.H.EndToEnd != c.E2E {
		return ev.Failf("cea-ids", "request ids %#x/%#x, CEA ids %#x/%#x", c.HbH, c.E2E, cea.H.HopByHop, cea.H.EndToEnd)
	}
	if len(cea.Hosts) != 1 || cea.Hosts[0] != id[0] || len(cea.Realms) != 1 || cea.Realms[0] != id[1] {
		return ev.Failf("cea-identity", "settings say %q / %q, the CEA carries Origin-Host %q Origin-Realm %q", id[0], id[1], cea.Hosts, cea.Realms)
	}
	// 6. a success CEA advertises the shared dictionary applications
	if exp.accept {
		adv := map[advApp]bool{}
		for _, a := range cea.Apps {
			adv[a] = true
		}
		for _, s := range exp.shared {
			if !adv[s] {
				return ev.Failf("cea-missing-shared-app", "the peer advertised %s application %d, which the dictionary supports, but the success CEA does not advertise it (it advertises %v)", s.Typ, s.ID, cea.Apps)
			}
		}
	}
	// 7. Host-IP-Address
	if cea.BadIP > 0 {
		return ev.Failf("cea-host-ip-malformed", "%d Host-IP-Address AVPs are not IPv4/IPv6 addresses", cea.BadIP)
	}
	if len(configured) > 0 {
		if !sameIPs(cea.IPs, configured) {
			return ev.Failf("cea-host-ip-configured", "configured addresses %v, the CEA carries %v", configured, cea.IPs)
		}
		return nil
	}
	local, v6 := endpointIPs(c.Endpoint)
	if v6 && deferV6 {
		return nil
	}
	if len(cea.IPs) == 0 {
		if v6 {
			return ev.Failf(sigV6, "no addresses configured, local endpoint %s: the CEA (Result-Code %d) carries no Host-IP-Address at all", c.Endpoint, rc)
		}
		return ev.Failf("cea-host-ip-endpoint", "no addresses configured, local endpoint %s: the CEA carries no Host-IP-Address", c.Endpoint)
	}
	for _, ip := range cea.IPs {
		ok := false
		for _, l := range local {
			ok = ok || l.Equal(ip)
		}
		if !ok {
			return ev.Failf("cea-host-ip-endpoint", "no addresses configured, local endpoint %s: the CEA carries Host-IP-Address %v", c.Endpoint, cea.IPs)
		}
	}
	return nil
}

func drain(ch chan probeSeen) []probeSeen {
	var out []probeSeen
	for {
		select {
		case p := <-ch:
			out = append(out, p)
		default:
			return out
		}
	}
}

func sameIPs(a, b []net.IP) bool {
	if len(a) != len(b) {
		return false
	}
	used := make([]bool, len(b))
outer:
	for _, x := range a {
		for i, y := range b {
			if !used[i] && x.Equal(y) {
				used[i] = true
				continue outer
			}
		}
		return false
	}
	return true
}

func fmtInband(p *uint32) string {
	if p == nil {
		return "absent"
	}
	return fmt.Sprint(*p)
}

// ---------------------------------------------------------------------------
// generators

var (
	endpointsV4  = []string{"10.1.2.3:3868", "127.0.0.1:3868", "10.1.2.3/10.1.2.4:3868"}
	endpointsV6  = []string{"[2001:db8::1]:3868", "[::1]:3868", "[fe80::1%eth0]:3868"}
	endpointsAll = append(append([]string{}, endpointsV4...), endpointsV6...)
	configs      = [][]string{nil, {"192.0.2.10"}, {"198.51.100.7", "2001:db8:ffff::5"}, {"2001:db8::7"}}
	idPool       = []uint32{0, 1, 0x12345678, 0xffffffff}
	inbandPool   = []*uint32{nil, ptr(0), ptr(1)}
	randomIDs    = []uint32{3, 4, 1, 16777251, 16777238, 16777302, 999, bigID, relayID, 2, 5, 16777216}
)

// local addresses of transports that are not ip:port (a Unix-domain socket, an in-memory pipe):
// only used together with configured host addresses
var oddEndpoints = []string{"pipe", "/run/diameter.sock", "@diameter"}

func ptr(v uint32) *uint32 { return &v }

func mix(i uint64) uint64 { // splitmix64: decorrelates the secondary dimensions from the enumeration order
	i += 0x9e3779b97f4a7c15
	i = (i ^ (i >> 30)) * 0xbf58476d1ce4e5b9
	i = (i ^ (i >> 27)) * 0x94d049bb133111eb
	return i ^ (i >> 31)
}

// secondary fills the dimensions that the exhaustive part rotates through
// instead of multiplying out.
func secondary(c *Case, i uint64) {
	h := mix(i)
	pick := func(n int) int { v := int(h % uint64(n)); h = mix(h); return v }
	c.Endpoint = endpointsAll[pick(len(endpointsAll))]
	c.Configured = configs[pick(len(configs))]
	c.Singular = len(c.Configured) == 1 && pick(2) == 0
	c.EmptyList = len(c.Configured) == 0 && pick(2) == 0
	if len(c.Configured) > 0 && pick(6) == 0 {
		c.Endpoint = oddEndpoints[pick(len(oddEndpoints))] // a transport without an ip:port local address; the configured addresses do not depend on it
	}
	c.HbH = idPool[pick(len(idPool))]
	c.E2E = idPool[pick(len(idPool))]
	c.Ident = pick(len(idents))
	c.Together = pick(2) == 0
	if pick(2) == 0 {
		c.StateID = ptr(uint32(pick(3)) * 0x7fffffff)
	}
}

// enumerate yields every presence combination x every sequence of at most
// size items of the alphabet.
func enumerate(size int, yield func(Case) bool) {
	al := alphabet()
	var idx uint64
	var rec func(items []Item) bool
	rec = func(items []Item) bool {
		for _, host := range []bool{true, false} {
			for _, realm := range []bool{true, false} {
				for _, ib := range inbandPool {
					c := Case{Host: host, Realm: realm, Inband: ib, Items: append([]Item{}, items...)}
					secondary(&c, idx)
					idx++
					if !yield(c) {
						return false
					}
				}
			}
		}
		if len(items) == size {
			return true
		}
		for _, it := range al {
			if !rec(append(items, it)) {
				return false
			}
		}
		return true
	}
	rec(nil)
}

// enumerateEndpoints crosses every endpoint and address configuration with
// the presence grid, the id corner values and a few item lists.
func enumerateEndpoints(yield func(Case) bool) {
	lists := [][]Item{nil, {{K: "auth", ID: 4}}, {{K: "acct", ID: 999}}, {{K: "auth", ID: relayID}, {K: "acct", ID: 4}}}
	var idx uint64
	for _, ep := range endpointsAll {
		for _, cf := range configs {
			for _, host := range []bool{true, false} {
				for _, realm := range []bool{true, false} {
					for _, ib := range inbandPool {
						for _, items := range lists {
							for _, ids := range [][2]uint32{{0, 0}, {0, 7}, {9, 0}, {0xffffffff, 0x80000000}} {
								c := Case{Host: host, Realm: realm, Inband: ib, Items: items}
								secondary(&c, idx)
								idx++
								c.Endpoint, c.Configured, c.HbH, c.E2E = ep, cf, ids[0], ids[1]
								if !yield(c) {
									return
								}
							}
						}
					}
				}
			}
		}
	}
}

func genItem(t *rapid.T) Item {
	al := alphabet()
	switch rapid.IntRange(0, 9).Draw(t, "item-shape") {
	case 0, 1: // free plain item
		return Item{K: rapid.SampledFrom([]string{"acct", "auth"}).Draw(t, "k"), ID: rapid.SampledFrom(randomIDs).Draw(t, "id")}
	case 2: // free group
		n := rapid.IntRange(0, 4).Draw(t, "members")
		it := Item{K: "vsa"}
		for i := 0; i < n; i++ {
			k := rapid.SampledFrom([]string{"vendor", "acct", "auth", "auth"}).Draw(t, "mk")
			v := rapid.SampledFrom(randomIDs).Draw(t, "mv")
			if k == "vendor" {
				v = rapid.SampledFrom([]uint32{vendor3GPP, 0, 999, 13019}).Draw(t, "vendor")
			}
			it.M = append(it.M, Member{k, v})
		}
		return it
	}
	return al[rapid.IntRange(0, len(al)-1).Draw(t, "letter")]
}

func genCase(t *rapid.T) Case {
	c := Case{
		Host:  rapid.IntRange(0, 7).Draw(t, "host") > 0,
		Realm: rapid.IntRange(0, 7).Draw(t, "realm") > 0,
	}
	switch rapid.IntRange(0, 7).Draw(t, "inband") {
	case 0:
		c.Inband = ptr(rapid.SampledFrom([]uint32{1, 2, 0xffffffff}).Draw(t, "inband-value"))
	case 1, 2, 3:
		c.Inband = ptr(0)
	}
	n := rapid.IntRange(0, 8).Draw(t, "items")
	for i := 0; i < n; i++ {
		c.Items = append(c.Items, genItem(t))
	}
	if rapid.Bool().Draw(t, "state-id") {
		c.StateID = ptr(rapid.SampledFrom([]uint32{0, 1, 0x5f5e0ff, 0xffffffff}).Draw(t, "state-id-value"))
	}
	c.Ident = rapid.IntRange(0, len(idents)-1).Draw(t, "ident")
	c.Configured = configs[rapid.IntRange(0, len(configs)-1).Draw(t, "configured")]
	c.Singular = len(c.Configured) == 1 && rapid.Bool().Draw(t, "singular")
	c.EmptyList = len(c.Configured) == 0 && rapid.Bool().Draw(t, "empty-list")
	c.Endpoint = rapid.SampledFrom(endpointsAll).Draw(t, "endpoint")
	if len(c.Configured) > 0 && rapid.IntRange(0, 5).Draw(t, "odd-endpoint") == 0 {
		c.Endpoint = rapid.SampledFrom(oddEndpoints).Draw(t, "odd-endpoint-name")
	}
	c.HbH = rapid.OneOf(rapid.SampledFrom(idPool), rapid.Uint32()).Draw(t, "hbh")
	c.E2E = rapid.OneOf(rapid.SampledFrom(idPool), rapid.Uint32()).Draw(t, "e2e")
	c.Together = rapid.Bool().Draw(t, "together")
	return c
}

// ---------------------------------------------------------------------------
// measuring

func classify(c Case) (bool, []string) {
	md, err := refModel()
	if err != nil {
		return false, []string{"dict-error"}
	}
	e := model(md, c)
	var cl []string
	if e.accept {
		cl = append(cl, "accept", "accept:"+whyAcceptExpected(e))
	} else {
		cl = append(cl, "reject")
		for _, k := range keys(e.causes) {
			cl = append(cl, fmt.Sprintf("cause:%d", k))
		}
		if len(e.causes) > 1 {
			cl = append(cl, "several-causes")
		}
		if e.causes[5010] && len(e.causes) == 1 {
			cl = append(cl, "reject-only-5010:"+whyRejectExpected(c, e))
		}
	}
	n := len(c.Items)
	if n > 4 {
		cl = append(cl, "items>4")
	} else {
		cl = append(cl, fmt.Sprintf("items=%d", n))
	}
	kinds := map[string]bool{}
	for _, it := range c.Items {
		switch {
		case it.K == "vsa" && len(it.M) == 0:
			kinds["item:vsa-empty"] = true
		case it.K == "vsa":
			kinds["item:vsa"] = true
			apps := 0
			for _, m := range it.M {
				if m.K != "vendor" {
					apps++
				}
			}
			if apps == 0 {
				kinds["item:vsa-vendor-only"] = true
			}
			if apps > 1 {
				kinds["item:vsa-two-apps"] = true
			}
		case it.ID == relayID:
			kinds["item:relay"] = true
		default:
			kinds["item:"+it.K] = true
		}
	}
	if e.wrongType {
		kinds["item:wrong-type"] = true
	}
	if e.nBad > 0 && len(e.ids) > 0 {
		kinds["supported-and-unsupported"] = true
	}
	for k := range kinds {
		cl = append(cl, k)
	}
	_, v6 := endpointIPs(c.Endpoint)
	switch {
	case len(c.Configured) > 0:
		cl = append(cl, fmt.Sprintf("configured-addresses=%d", len(c.Configured)))
		for _, o := range oddEndpoints {
			if c.Endpoint == o {
				cl = append(cl, "configured-addresses-on-a-transport-without-ip-port-address")
			}
		}
		if c.Singular && len(c.Configured) == 1 {
			cl = append(cl, "configured-through-Settings.HostIPAddress")
		}
	case v6:
		cl = append(cl, "endpoint-v6-unconfigured")
		if c.EmptyList {
			cl = append(cl, "configured-list-empty-not-nil")
		}
	default:
		cl = append(cl, "endpoint-v4-unconfigured")
		if c.EmptyList {
			cl = append(cl, "configured-list-empty-not-nil")
		}
	}
	if strings.Contains(c.Endpoint, "127.0.0.1") || strings.Contains(c.Endpoint, "::1]") {
		cl = append(cl, "endpoint-loopback")
	}
	if c.HbH == 0 {
		cl = append(cl, "hbh=0")
	}
	if c.E2E == 0 {
		cl = append(cl, "e2e=0")
	}
	if c.Together {
		cl = append(cl, "request-in-same-segment")
	}
	if c.StateID != nil {
		cl = append(cl, "origin-state-id")
	}
	sort.Strings(cl)
	nontrivial := (n >= 2 && e.nBad >= 1) || !c.Host || !c.Realm
	return nontrivial, cl
}

const ruleText = "one CER per case against a fresh server state machine on an in-memory transport: Origin-Host / Origin-Realm present or absent, Inband-Security-Id absent / 0 / non-zero, a sequence of application items over {Acct 3, Acct 4 (wrong type), Acct 999, Acct relay, Auth 4, Auth 3 (wrong type), Auth 16777251, Auth 999, Auth relay, VSA[vendor, auth 16777251], VSA[vendor, auth 2^32-2], VSA[acct 999, vendor], VSA[acct 999, auth 4], VSA[auth 4, acct 999], VSA[], VSA[vendor]} (random part: also free ids and free groups, up to 8 items); rotating: Origin-State-Id, local identity, configured Host-IP addresses (0/1/2), local endpoint (IPv4, IPv4 loopback, multi-homed, IPv6, IPv6 loopback, IPv6 with zone), hop-by-hop / end-to-end ids incl. 0, application request in the same segment as the CER or after the CEA; non-trivial = at least 2 application ids of which at least 1 unsupported, or Origin-Host / Origin-Realm missing"

var propCER = ev.Register(&ev.Prop[Case]{
	ID: "C11", Name: "cer", Rule: ruleText,
	Gen:      genCase,
	Run:      func(c Case) *ev.Failure { return run(c, ev.IsKnown("C11", sigV6)) },
	Classify: classify,
})

var propHostIP = ev.Register(&ev.Prop[Case]{
	ID: "C11", Name: "hostip",
	Rule:     "every local endpoint form x every address configuration x presence grid x id corner values x {no item, supported, unsupported, relay + wrong type}: all clauses, in particular Host-IP-Address = configured list, else an address of the local endpoint; " + ruleText,
	Gen:      genCase,
	Run:      func(c Case) *ev.Failure { return run(c, false) },
	Classify: classify,
})

func TestC11Exhaustive(t *testing.T) {
	size := ev.Pick(2, 3)
	propCER.Enumerate(t, true, func(yield func(Case) bool) { enumerate(size, yield) })
}

func TestC11Endpoints(t *testing.T) {
	propHostIP.Enumerate(t, true, enumerateEndpoints)
}

func TestC11Random(t *testing.T) { propCER.Check(t, 2000, 100000) }

func TestC11RandomHostIP(t *testing.T) { propHostIP.Check(t, 500, 20000) }

// The canonical input of the finding repaired by "derive Host-IP-Address from
// IPv6 local endpoints too": prints KNOWN-FINDING while it is listed and
// reproduces, is a violation when it reproduces without being listed.
func TestC11ProbeV6(t *testing.T) {
	for _, ep := range endpointsV6 {
		propHostIP.Probe(t, sigV6, Case{Host: true, Realm: true, Items: []Item{{K: "auth", ID: 4}}, Endpoint: ep, HbH: 1, E2E: 2},
			"server on an IPv6 local endpoint ("+ep+") without configured HostIPAddresses: the CEA carries no Host-IP-Address")
	}
}

// The alphabet means what its comments say (guards the generator against a
// dictionary that changed under it).
func TestC11Alphabet(t *testing.T) {
	md, err := refModel()
	if err != nil {
		t.Fatalf("harness: %v", err)
	}
	want := []struct {
		typ string
		id  uint32
		v   refdict.Verdict
	}{
		{"acct", 3, refdict.Yes}, {"acct", 4, refdict.No}, {"acct", 999, refdict.No},
		{"auth", 4, refdict.Yes}, {"auth", 3, refdict.No}, {"auth", 16777251, refdict.Yes},
		{"auth", 999, refdict.No}, {"auth", bigID, refdict.No},
	}
	for _, w := range want {
		if v, _ := md.AppTyped(w.id, w.typ); v != w.v {
			t.Errorf("harness: reference dictionary says %v for %s application %d, the alphabet assumes %v", v, w.typ, w.id, w.v)
		}
	}
	for _, id := range randomIDs {
		for _, typ := range []string{"acct", "auth"} {
			if v, _ := md.AppTyped(id, typ); v == refdict.Unspecified {
				t.Errorf("harness: id %d (%s) is not decided by the reference model, remove it from the pool", id, typ)
			}
		}
	}
	if len(alphabet()) != 16 {
		t.Errorf("harness: alphabet has %d letters", len(alphabet()))
	}
}

func TestC11Keep(t *testing.T) { ev.RunKeep(t, "C11") }
func TestReplay(t *testing.T)  { ev.Replay(t) }
