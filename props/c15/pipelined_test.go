package c15

import (
	"fmt"
	"net"
	"sync"
	"testing"
	"time"

	"github.com/fiorix/go-diameter/v4/diam"
	"github.com/fiorix/go-diameter/v4/diam/datatype"
	"github.com/fiorix/go-diameter/v4/diam/dict"
	"pgregory.net/rapid"

	"verif/internal/ev"
	"verif/internal/memnet"
)

// Two things a peer and an application do all the time, around a fault:
//
// The peer pipelines. Several messages reach the server in ONE read of the transport (one TCP
// segment, one TLS record): 0..3 valid requests, then the request whose handler panics or the
// bytes that cannot be decoded, then possibly more requests behind it. The same bytes are also
// delivered in a feed of their own after the valid requests, and cut into small fragments.
//
// The application looks at its connection. The handlers call the read-only accessors of diam.Conn
// (Connection, LocalAddr, RemoteAddr, TLS, Dictionary, Context, CloseNotify) - on the connection
// that faults later, at a scripted request or at every request, and on the healthy ones.
//
// Neither changes what the property demands: the faulty transport is closed, undecodable input is
// offered to the ErrorReporter with that connection, everybody else goes on being served.

const (
	accConnection = 1 << iota
	accLocalAddr
	accRemoteAddr
	accTLS
	accDictionary
	accContext
	accCloseNotify
	accAll = 1<<iota - 1
)

var accNames = []string{"Connection", "LocalAddr", "RemoteAddr", "TLS", "Dictionary", "Context", "CloseNotify"}

// lookAt calls the read-only accessors of mask on conn, as an application does to log the peer,
// to tell the transports apart or to pick up its per-connection state.
func lookAt(conn diam.Conn, mask int) {
	if mask&accConnection != 0 {
		if nc := conn.Connection(); nc != nil {
			_, _ = nc.(*net.TCPConn) // the repository's examples look at the type of the transport
		}
	}
	if mask&accLocalAddr != 0 {
		_ = conn.LocalAddr()
	}
	if mask&accRemoteAddr != 0 {
		_ = conn.RemoteAddr()
	}
	if mask&accTLS != 0 {
		_ = conn.TLS()
	}
	if mask&accDictionary != 0 {
		_ = conn.Dictionary()
	}
	if mask&accContext != 0 {
		_ = conn.Context()
	}
	if mask&accCloseNotify != 0 {
		if cn, ok := conn.(diam.CloseNotifier); ok {
			_ = cn.CloseNotify()
		}
	}
}

type PipeConn struct {
	Fault   string `json:"fault,omitempty"` // "" | panic | garbage
	Variant int    `json:"variant,omitempty"`
	Cmd     int    `json:"cmd,omitempty"` // command of the valid requests (index of cmdTable)
	Front   int    `json:"front"`         // valid requests in front of the fault (healthy: requests in the first round), 0..4
	// Glued: how many of the Front requests (the last ones) travel in the same feed as the fault
	// (healthy: as the last request). The others are fed one by one before.
	Glued int `json:"glued"`
	// Behind: valid requests that follow the fault in the same feed (nobody answers them).
	Behind int `json:"behind,omitempty"`
	// Frag: 0 - the feed is one fragment, the transport delivers it in one Read; n > 0 - it is cut
	// into fragments of n bytes, one Read each.
	Frag int `json:"frag,omitempty"`
	// Access: the accessors the handlers of this connection call (bit mask, see accNames);
	// AccessAt: at this request only (1..), 0: at every request - the marked one included, before it panics.
	Access   int `json:"access,omitempty"`
	AccessAt int `json:"access_at,omitempty"`
}

type PipeCase struct {
	Conns  []PipeConn `json:"conns"`
	Order  []int      `json:"order"`           // the order in which the connections send their last feed
	Served bool       `json:"served"`          // accepted by Server.Serve (else made with diam.NewConn)
	Anon   bool       `json:"anon,omitempty"`  // served: the listener's Addr() is nil
	Dict   string     `json:"dict,omitempty"`  // "" (dict.Default) | private
	Await  bool       `json:"await,omitempty"` // each faulty transport is seen closed before the next connection sends
}

func runPipe(c PipeCase) *ev.Failure {
	nconn := len(c.Conns)
	dp := dict.Default
	if c.Dict == "private" {
		var err error
		if dp, err = privateDict(); err != nil {
			return ev.Failf("harness-dict", "cannot build the private dictionary: %v", err)
		}
	}
	mux := diam.NewServeMux()
	mux.HandleFunc("ALL", func(conn diam.Conn, m *diam.Message) {
		ci, okc := u32(m, codeConn)
		s, oks := u32(m, codeSeq)
		if okc && oks && ci >= 0 && ci < nconn {
			if pc := c.Conns[ci]; pc.Access != 0 && (pc.AccessAt == 0 || pc.AccessAt == s) {
				lookAt(conn, pc.Access)
			}
		}
		if _, marked := u32(m, codeMarker); marked {
			panic("scripted handler panic")
		}
		a := m.Answer(2001)
		if okc {
			a.AddAVP(diam.NewAVP(codeConn, 0x40, 0, datatype.Unsigned32(ci)))
		}
		if oks {
			a.AddAVP(diam.NewAVP(codeSeq, 0x40, 0, datatype.Unsigned32(s)))
		}
		a.WriteTo(conn)
	})
	rep := &reporter{ServeMux: mux}
	rep.cond = sync.NewCond(&rep.mu)
	stop := make(chan struct{})
	var bg sync.WaitGroup
	bg.Add(1)
	go func() { // ErrorReports holds one report and the send does not wait: drained all the time
		defer bg.Done()
		for {
			select {
			case <-mux.ErrorReports():
			case <-stop:
				return
			}
		}
	}()
	defer func() { close(stop); bg.Wait() }()

	var lis *memnet.Listener
	var served chan error
	if c.Served {
		lis = memnet.NewListener(nconn + 4)
		var nl net.Listener = lis
		if c.Anon {
			nl = anonListener{lis}
		}
		served = serveGuarded(&diam.Server{Handler: rep, Dict: dp}, nl)
		defer func() {
			lis.Close()
			select {
			case <-served:
			case <-time.After(promptDeadline):
			}
		}()
	}
	var all []*memnet.Conn
	defer func() {
		for _, mc := range all {
			mc.FeedEOF()
			mc.WaitClosed(2 * time.Second)
			mc.Close()
		}
	}()
	open := func(i int) (*memnet.Conn, *ev.Failure) {
		mc := memnet.NewConn()
		mc.Remote = memnet.Addr{Net: "tcp", Str: fmt.Sprintf("10.9.5.%d:40000", i+1)}
		all = append(all, mc)
		if c.Served {
			lis.Push(mc)
			return mc, nil
		}
		if _, err := diam.NewConn(mc, "", rep, dp); err != nil {
			return nil, ev.Failf("harness-conn", "%v", err)
		}
		return mc, nil
	}
	serveStopped := func() *ev.Failure {
		if served == nil {
			return nil
		}
		select {
		case err := <-served:
			served <- err
			return serveEnded("pipelined:", err)
		default:
			return nil
		}
	}
	describe := func(i int) string {
		pc := c.Conns[i]
		how := "in a feed of its own"
		if pc.Glued > 0 {
			how = fmt.Sprintf("in one feed with the %d valid request(s) in front of it", pc.Glued)
		}
		if pc.Behind > 0 {
			how += fmt.Sprintf(" and %d request(s) behind it", pc.Behind)
		}
		if pc.Frag > 0 {
			how += fmt.Sprintf(", delivered in fragments of %d bytes", pc.Frag)
		} else {
			how += ", delivered by one Read of the transport"
		}
		acc := "its handlers called no accessor"
		if pc.Access != 0 {
			var names []string
			for b, n := range accNames {
				if pc.Access&(1<<b) != 0 {
					names = append(names, n+"()")
				}
			}
			at := "at every request"
			if pc.AccessAt > 0 {
				at = fmt.Sprintf("at request %d", pc.AccessAt)
			}
			acc = fmt.Sprintf("its handlers called %v %s", names, at)
		}
		return fmt.Sprintf("%d valid request(s) in front, the fault %s; %s (served: %v)", pc.Front, how, acc, c.Served)
	}
	answersOf := func(mc *memnet.Conn, i, upto int, what string) *ev.Failure {
		if miss, err := waitAnswers(mc, i, upto, promptDeadline); err != nil {
			return ev.Failf("pipelined:answers-garbled", "%s %d: %v", what, i, err)
		} else if miss != 0 {
			if f := serveStopped(); f != nil {
				return f
			}
			closed, _ := mc.Closed()
			return ev.Failf("pipelined:request-unanswered", "%s %d: no answer to request %d of %d within %v (closed by the server: %v)", what, i, miss, upto, promptDeadline, closed)
		}
		return nil
	}

	conns := make([]*memnet.Conn, nconn)
	for i := range conns {
		var f *ev.Failure
		if conns[i], f = open(i); f != nil {
			return f
		}
	}
	norm := func(pc PipeConn) (front, glued int) {
		front, glued = pc.Front, pc.Glued
		if front < 0 {
			front = 0
		}
		if pc.Fault == "" && front == 0 {
			front = 1
		}
		if glued > front {
			glued = front
		}
		if glued < 0 {
			glued = 0
		}
		if pc.Fault == "" && glued == 0 {
			glued = 1 // the last feed of a healthy connection carries a request at least
		}
		return
	}
	// the requests that travel alone, connection by connection in turns
	for round := 1; ; round++ {
		fed := false
		for i, pc := range c.Conns {
			front, glued := norm(pc)
			if round <= front-glued {
				fed = true
				conns[i].Feed(requestCmd(pc.Cmd, i, round, false))
			}
		}
		if !fed {
			break
		}
	}
	// the last feed of each connection, in the scripted order
	order := append([]int{}, c.Order...)
	inOrder := map[int]bool{}
	for _, i := range order {
		inOrder[i] = true
	}
	for i := range c.Conns {
		if !inOrder[i] {
			order = append(order, i)
		}
	}
	sent := make([]int, nconn)
	done := map[int]bool{}
	for _, i := range order {
		if i < 0 || i >= nconn || done[i] {
			continue
		}
		done[i] = true
		pc := c.Conns[i]
		front, glued := norm(pc)
		var blob []byte
		for s := front - glued + 1; s <= front; s++ {
			blob = append(blob, requestCmd(pc.Cmd, i, s, false)...)
		}
		sent[i] = front
		switch pc.Fault {
		case "panic":
			blob = append(blob, requestCmd(pc.Cmd, i, front+1, true)...)
		case "garbage":
			blob = append(blob, garbageCmd(pc.Variant, pc.Cmd)...)
		}
		if pc.Fault != "" {
			for s := 0; s < pc.Behind; s++ {
				blob = append(blob, requestCmd(pc.Cmd, i, front+2+s, false)...)
			}
		}
		if pc.Frag > 0 {
			var frags [][]byte
			for len(blob) > pc.Frag {
				frags = append(frags, blob[:pc.Frag])
				blob = blob[pc.Frag:]
			}
			conns[i].Feed(append(frags, blob)...)
		} else {
			conns[i].Feed(blob)
		}
		if pc.Fault != "" && c.Await && !conns[i].WaitClosed(promptDeadline) {
			if f := serveStopped(); f != nil {
				return f
			}
			return ev.Failf("pipelined:faulty-conn-not-closed", "connection %d: transport not closed within %v of the %s fault; %s", i, promptDeadline, pc.Fault, describe(i))
		}
	}

	// the faulty ones: closed, undecodable input reported
	for i, pc := range c.Conns {
		if pc.Fault == "" {
			continue
		}
		if !conns[i].WaitClosed(promptDeadline) {
			if f := serveStopped(); f != nil {
				return f
			}
			return ev.Failf("pipelined:faulty-conn-not-closed", "connection %d: transport not closed within %v of the %s fault; %s", i, promptDeadline, pc.Fault, describe(i))
		}
		if pc.Fault == "garbage" && !rep.waitFor(conns[i], promptDeadline) {
			return ev.Failf("pipelined:no-error-report", "connection %d: undecodable input (variant %d) was not offered to the handler's ErrorReporter within %v although the connection was closed for it; %s",
				i, pc.Variant%garbageVariants, promptDeadline, describe(i))
		}
	}
	// the healthy ones: everything answered, one more request after all faults, still open
	for i, pc := range c.Conns {
		if pc.Fault != "" {
			continue
		}
		if f := answersOf(conns[i], i, sent[i], "healthy connection"); f != nil {
			return f
		}
		sent[i]++
		conns[i].Feed(requestCmd(pc.Cmd, i, sent[i], false))
		if f := answersOf(conns[i], i, sent[i], "healthy connection (request sent after all faults)"); f != nil {
			return f
		}
		if closed, _ := conns[i].Closed(); closed {
			return ev.Failf("pipelined:healthy-conn-closed", "healthy connection %d was closed by the server", i)
		}
	}
	// a connection opened afterwards is served (two requests in one feed)
	late, f := open(lateConn)
	if f != nil {
		return f
	}
	late.Feed(append(request(lateConn, 1, false), request(lateConn, 2, false)...))
	if miss, err := waitAnswers(late, lateConn, 2, promptDeadline); err != nil {
		return ev.Failf("pipelined:answers-garbled", "late connection: %v", err)
	} else if miss != 0 {
		if f := serveStopped(); f != nil {
			return f
		}
		return ev.Failf("pipelined:late-conn-not-served", "a connection opened after all faults got no answer to request %d of 2 within %v", miss, promptDeadline)
	}
	return serveStopped()
}

func genPipe(t *rapid.T) PipeCase {
	var c PipeCase
	c.Served = rapid.IntRange(0, 3).Draw(t, "served") != 0
	c.Anon = c.Served && rapid.IntRange(0, 3).Draw(t, "anon") == 0
	if rapid.IntRange(0, 7).Draw(t, "private-dict") == 0 {
		c.Dict = "private"
	}
	c.Await = rapid.Bool().Draw(t, "await")
	nc := rapid.IntRange(2, 4).Draw(t, "conns")
	cmd := 0
	if rapid.IntRange(0, 2).Draw(t, "foreign-command-traffic") == 0 {
		cmd = rapid.IntRange(1, len(cmdTable)-1).Draw(t, "cmd")
	}
	masks := []int{0, accConnection, accAll, accAll &^ accCloseNotify, accAll &^ accConnection}
	for i := 0; i < nc; i++ {
		pc := PipeConn{Front: rapid.IntRange(0, 4).Draw(t, "front")}
		pc.Fault = rapid.SampledFrom([]string{"garbage", "panic", "", "garbage", "panic"}).Draw(t, "fault")
		if i == 0 {
			pc.Fault = "" // one healthy connection at least
		}
		if cmd != 0 && rapid.Bool().Draw(t, "conn-uses-cmd") {
			pc.Cmd = cmd
		}
		if pc.Fault == "garbage" {
			pc.Variant = rapid.IntRange(0, garbageVariants-1).Draw(t, "variant")
		}
		if pc.Fault == "" && pc.Front == 0 {
			pc.Front = 1
		}
		// most often everything in front travels with the fault, or nothing does
		switch rapid.IntRange(0, 3).Draw(t, "gluing") {
		case 0:
			pc.Glued = 0
		case 1:
			pc.Glued = rapid.IntRange(0, pc.Front).Draw(t, "glued")
		default:
			pc.Glued = pc.Front
			if pc.Glued > 3 {
				pc.Glued = 3
			}
		}
		if pc.Fault == "" && pc.Glued == 0 {
			pc.Glued = 1
		}
		if pc.Fault != "" {
			pc.Behind = rapid.SampledFrom([]int{0, 0, 1, 2}).Draw(t, "behind")
		}
		if rapid.IntRange(0, 3).Draw(t, "fragmented") == 0 {
			pc.Frag = rapid.SampledFrom([]int{1, 3, 4, 7, 19, 20, 21, 33, 64}).Draw(t, "frag")
		}
		if rapid.IntRange(0, 3).Draw(t, "accessors") != 0 {
			if rapid.Bool().Draw(t, "one-of-the-usual-masks") {
				pc.Access = rapid.SampledFrom(masks[1:]).Draw(t, "mask")
			} else {
				pc.Access = rapid.IntRange(1, accAll).Draw(t, "any-mask")
			}
			last := pc.Front
			if pc.Fault == "panic" {
				last++ // the marked request: the handler looks at the connection, then panics
			}
			if last >= 1 && rapid.Bool().Draw(t, "at-one-request") {
				pc.AccessAt = rapid.IntRange(1, last).Draw(t, "access-at")
			}
		}
		c.Conns = append(c.Conns, pc)
	}
	c.Order = rapid.Permutation([]int{0, 1, 2, 3}[:nc]).Draw(t, "order")
	return c
}

// accessedBeforeFault: some handler of the connection has called an accessor when the fault happens.
func accessedBeforeFault(pc PipeConn) bool {
	if pc.Access == 0 || pc.Fault == "" {
		return false
	}
	last := pc.Front
	if pc.Fault == "panic" {
		last++
	}
	if pc.AccessAt == 0 {
		return last >= 1
	}
	return pc.AccessAt <= last
}

func classifyPipe(c PipeCase) (bool, []string) {
	var cl []string
	seen := map[string]bool{}
	add := func(s string) {
		if !seen[s] {
			seen[s] = true
			cl = append(cl, s)
		}
	}
	add(fmt.Sprintf("conns:%d", len(c.Conns)))
	add(fmt.Sprintf("served:%v", c.Served))
	if c.Anon {
		add("listener-without-address")
	}
	if c.Dict == "private" {
		add("dict:private")
	}
	nontrivial := false
	for _, pc := range c.Conns {
		if pc.Fault == "" {
			if pc.Access != 0 {
				add("healthy-conn-handlers-call-accessors")
			}
			if pc.Glued >= 2 && pc.Frag == 0 {
				add("healthy-conn-pipelines-in-one-read")
			}
			continue
		}
		add("fault:" + pc.Fault)
		if pc.Fault == "garbage" {
			add(fmt.Sprintf("garbage-variant:%d", pc.Variant%garbageVariants))
		}
		switch {
		case pc.Glued >= 1 && pc.Frag == 0:
			nontrivial = true
			add(fmt.Sprintf("%s-in-one-read-behind-valid-requests:%d", pc.Fault, pc.Glued))
		case pc.Glued >= 1:
			add(pc.Fault + "-in-one-feed-behind-valid-requests-fragmented")
		case pc.Front == 0:
			add(pc.Fault + "-is-the-first-input")
		default:
			add(pc.Fault + "-in-a-feed-of-its-own-after-valid-requests")
		}
		if pc.Frag > 0 {
			add("fault-delivered-in-fragments")
		}
		if pc.Behind > 0 {
			add("requests-behind-the-fault-in-the-same-feed")
		}
		if accessedBeforeFault(pc) {
			nontrivial = true
			for b, n := range accNames {
				if pc.Access&(1<<b) != 0 {
					add(fmt.Sprintf("%s-after-handler-called:%s", pc.Fault, n))
				}
			}
			if pc.AccessAt == 0 {
				add("accessors-at-every-request")
			} else {
				add("accessors-at-one-request")
			}
		}
	}
	return nontrivial, cl
}

var pipeProp = ev.Register(&ev.Prop[PipeCase]{
	ID: "C15", Name: "pipelined-faults-and-accessors",
	Rule: "a ServeMux behind Server.Serve on an in-memory listener (with or without an address) or on connections made with diam.NewConn, dict.Default or a parser of the server's own; 2..4 connections (the first one healthy), each with 0..4 valid requests (DWR or a command of a non-base application) and, on the faulty ones, a request whose handler panics or undecodable bytes (9 variants) behind them, then 0..2 more requests; the last 0..3 valid requests, the fault and what follows it travel in ONE feed that the transport delivers in a single Read (or cut into fragments of 1..64 bytes), the earlier requests one per feed; the connections send their last feed in a scripted order, optionally waiting for each faulty transport to be closed; " +
		"the handlers of 3 connections in 4 call read-only accessors of diam.Conn (Connection, LocalAddr, RemoteAddr, TLS, Dictionary, Context, CloseNotify: any subset) at one scripted request or at every request - the marked request included, before it panics. " +
		"Demanded: every faulty transport is closed; undecodable input is offered to the ErrorReporter with that connection (ErrorReports drained all the time); every healthy connection holds the answers to all its requests and to one sent after all faults and is not closed; a connection opened afterwards gets two pipelined requests answered; Serve has neither returned nor panicked. Non-trivial = a fault arrives in one Read behind valid requests, or after a handler of that connection called an accessor",
	Gen: genPipe, Run: runPipe, Classify: classifyPipe, Attempts: 3,
})

func TestC15PipelinedFaultsAndAccessors(t *testing.T) { pipeProp.Check(t, 250, 12000) }

// The corner every run visits: each kind of undecodable input and the panic, behind 1..3 valid
// requests in one Read, after each single accessor.
func TestC15PipelinedFaultsAndAccessorsGrid(t *testing.T) {
	pipeProp.Enumerate(t, false, func(yield func(PipeCase) bool) {
		i := 0
		for v := 0; v <= garbageVariants; v++ { // v == garbageVariants: the panic
			for glued := 1; glued <= 3; glued++ {
				i++
				faulty := PipeConn{Fault: "garbage", Variant: v, Front: glued + i%2, Glued: glued, Behind: i % 3 % 2, Access: 1 << (i % len(accNames)), AccessAt: i % 2}
				if v == garbageVariants {
					faulty.Fault, faulty.Variant = "panic", 0
				}
				alone := faulty
				alone.Glued, alone.Access, alone.AccessAt = 0, accAll, 0
				c := PipeCase{Served: i%4 != 0, Anon: i%8 == 1, Await: i%2 == 0, Order: []int{1, 0, 2},
					Conns: []PipeConn{{Front: 2, Glued: 1 + i%2, Access: accAll &^ accCloseNotify}, faulty, alone}}
				if !yield(c) {
					return
				}
			}
		}
	})
}
