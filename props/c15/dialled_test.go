package c15

import (
	"fmt"
	"testing"
	"time"

	"github.com/fiorix/go-diameter/v4/diam"
	"github.com/fiorix/go-diameter/v4/diam/datatype"
	"github.com/fiorix/go-diameter/v4/diam/dict"
	"github.com/fiorix/go-diameter/v4/diam/sm"
	"pgregory.net/rapid"

	"verif/internal/ev"
	"verif/internal/memnet"
)

// The same isolation on connections the application made ITSELF (diam.NewConn, which is what
// Dial, DialTLS and every sm.Client connection end in) instead of having them accepted by
// Server.Serve: undecodable input from one peer closes that connection and is offered to the
// handler's error reports with that connection; the application's other connection, sharing
// the handler, goes on being served.

type DialledCase struct {
	Variant int    `json:"variant"` // kind of undecodable input (garbage)
	Handler string `json:"handler"` // mux | sm
	Before  int    `json:"before"`  // requests the healthy peer gets answered before the fault
	After   int    `json:"after"`   // ... and after it
}

func runDialled(c DialledCase) *ev.Failure {
	type rep struct {
		conn diam.Conn
		err  string
	}
	reps := make(chan rep, 64)
	stop := make(chan struct{})
	defer close(stop)
	var handler diam.Handler
	var reports <-chan *diam.ErrorReport
	var notify <-chan diam.Conn
	if c.Handler == "sm" {
		machine := sm.New(&sm.Settings{OriginHost: "srv.example", OriginRealm: "example", VendorID: 13, ProductName: "verif",
			HostIPAddresses: []datatype.Address{datatype.Address([]byte{10, 0, 0, 1})}})
		handler, reports, notify = machine, machine.ErrorReports(), machine.HandshakeNotify()
	} else {
		mux := diam.NewServeMux()
		mux.HandleFunc("ALL", func(cn diam.Conn, m *diam.Message) { m.Answer(2001).WriteTo(cn) })
		handler, reports = mux, mux.ErrorReports()
	}
	go func() {
		for {
			select {
			case r := <-reports:
				select {
				case reps <- rep{r.Conn, fmt.Sprint(r.Error)}:
				default:
				}
			case <-notify:
			case <-stop:
				return
			}
		}
	}()
	good, bad := memnet.NewConn(), memnet.NewConn()
	bad.Remote = memnet.Addr{Net: "tcp", Str: "10.6.6.6:6666"}
	defer func() {
		for _, mc := range []*memnet.Conn{good, bad} {
			mc.FeedEOF()
			mc.WaitClosed(2 * time.Second)
			mc.Close()
		}
	}()
	for _, mc := range []*memnet.Conn{good, bad} {
		if _, err := diam.NewConn(mc, "", handler, dict.Default); err != nil {
			return ev.Failf("harness-conn", "%v", err)
		}
	}
	exchange := func(mc *memnet.Conn, req []byte, what string) *ev.Failure {
		before := len(mc.Writes())
		mc.Feed(req)
		if !mc.WaitWrites(before+1, promptDeadline) || len(mc.Writes()) <= before {
			return ev.Failf("dialled:request-unanswered", "%s got no answer within %v", what, promptDeadline)
		}
		return nil
	}
	if f := exchange(good, smCER(1), "the healthy peer's CER"); f != nil {
		return f
	}
	if f := exchange(bad, smCER(2), "the faulty peer's CER"); f != nil {
		return f
	}
	for i := 0; i < c.Before; i++ {
		if f := exchange(good, smDWR(uint32(100+i)), fmt.Sprintf("the healthy peer's DWR %d (before the fault)", i)); f != nil {
			return f
		}
	}
	bad.Feed(garbage(c.Variant))
	desc := fmt.Sprintf("undecodable input (variant %d) on a connection made with diam.NewConn (handler: %s)", c.Variant%garbageVariants, c.Handler)
	if !bad.WaitClosed(promptDeadline) {
		return ev.Failf("dialled:faulty-conn-not-closed", "%s: the transport was not closed within %v", desc, promptDeadline)
	}
	deadline := time.After(promptDeadline)
	found := false
	for !found {
		select {
		case r := <-reps:
			if r.conn != nil && r.conn.RemoteAddr() != nil && r.conn.RemoteAddr().String() == "10.6.6.6:6666" {
				found = true
			}
		case <-deadline:
			return ev.Failf("dialled:no-error-report", "%s was not offered to the handler's ErrorReports (with that connection) within %v", desc, promptDeadline)
		}
	}
	for i := 0; i < c.After; i++ {
		if f := exchange(good, smDWR(uint32(200+i)), fmt.Sprintf("the healthy peer's DWR %d (after the fault on the application's other connection)", i)); f != nil {
			return f
		}
	}
	return nil
}

var dialledProp = ev.Register(&ev.Prop[DialledCase]{
	ID: "C15", Name: "connections-made-with-newconn",
	Rule: "two in-memory connections made with diam.NewConn on one handler (a ServeMux answering everything, or an sm.StateMachine), a healthy peer (CER, 0..2 DWRs before and 1..2 after) and a faulty one that sends undecodable input (9 variants) after its CER. " +
		"Demanded: the faulty transport is closed, the input is offered to the handler's ErrorReports with that connection, the healthy peer's requests are all answered. Every case is non-trivial",
	Gen: func(t *rapid.T) DialledCase {
		return DialledCase{Variant: rapid.IntRange(0, garbageVariants-1).Draw(t, "variant"), Handler: rapid.SampledFrom([]string{"mux", "sm"}).Draw(t, "handler"),
			Before: rapid.IntRange(0, 2).Draw(t, "before"), After: rapid.IntRange(1, 2).Draw(t, "after")}
	},
	Run: runDialled,
	Classify: func(c DialledCase) (bool, []string) {
		return true, []string{fmt.Sprintf("garbage-variant:%d", c.Variant%garbageVariants), "handler:" + c.Handler}
	},
})

func TestC15ConnectionsMadeWithNewConn(t *testing.T) { dialledProp.Check(t, 60, 2000) }
