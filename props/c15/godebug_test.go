//go:debug panicnil=1

package c15

// The library's go.mod says go 1.20: in programs built with that language version panic(nil) is
// not turned into a *runtime.PanicNilError and recover() returns nil for it. This test binary
// asks for the same behaviour, so that a handler panicking with a nil value is a fault the
// library has to contain like any other panic.
