package c15

import (
	"testing"
	"time"

	"github.com/fiorix/go-diameter/v4/diam"
	"github.com/fiorix/go-diameter/v4/diam/datatype"
	"pgregory.net/rapid"

	"verif/internal/ev"
	"verif/internal/memnet"
)

// The same isolation with a Server that has no Handler of its own (nil:
// diam.DefaultServeMux, handlers registered with diam.HandleFunc, reports
// read from diam.ErrorReports()). Exactly one report can be produced per case
// here, so the capacity-1 channel cannot have dropped it.

type DCase struct {
	Garbage int `json:"garbage"` // variant of undecodable input on the faulty connection
	Before  int `json:"before"`  // requests the healthy connection sends before the fault
	After   int `json:"after"`   // ... and after it
}

func init() {
	diam.HandleFunc("ALL", func(conn diam.Conn, m *diam.Message) {
		a := m.Answer(2001)
		if ci, ok := u32(m, codeConn); ok {
			a.AddAVP(diam.NewAVP(codeConn, 0x40, 0, datatype.Unsigned32(ci)))
		}
		if s, ok := u32(m, codeSeq); ok {
			a.AddAVP(diam.NewAVP(codeSeq, 0x40, 0, datatype.Unsigned32(s)))
		}
		a.WriteTo(conn)
	})
}

func runDefaultMux(c DCase) *ev.Failure {
	for drained := false; !drained; { // reports left over from earlier cases
		select {
		case <-diam.ErrorReports():
		default:
			drained = true
		}
	}
	lis := memnet.NewListener(4)
	srv := &diam.Server{} // no Handler, no Dict: the package defaults
	served := make(chan error, 1)
	go func() { served <- srv.Serve(lis) }()
	defer lis.Close()
	healthy, faulty := memnet.NewConn(), memnet.NewConn()
	faulty.Remote = memnet.Addr{Net: "tcp", Str: "10.9.8.66:40000"}
	defer func() {
		for _, mc := range []*memnet.Conn{healthy, faulty} {
			mc.FeedEOF()
			mc.WaitClosed(2 * time.Second)
			mc.Close()
		}
	}()
	lis.Push(healthy)
	lis.Push(faulty)
	seq := 0
	send := func(n int) *ev.Failure {
		for i := 0; i < n; i++ {
			seq++
			healthy.Feed(request(1, seq, false))
		}
		if miss, err := waitAnswers(healthy, 1, seq, promptDeadline); err != nil {
			return ev.Failf("answers-garbled", "healthy connection: %v", err)
		} else if miss > 0 {
			return ev.Failf("request-unanswered", "default mux: the healthy connection got no answer to request %d of %d within %v", miss, seq, promptDeadline)
		}
		return nil
	}
	if f := send(c.Before); f != nil {
		return f
	}
	faulty.Feed(garbage(c.Garbage))
	if !faulty.WaitClosed(promptDeadline) {
		return ev.Failf("faulty-conn-not-closed", "default mux: the connection that sent undecodable input was not closed within %v", promptDeadline)
	}
	select {
	case er := <-diam.ErrorReports():
		if er == nil || er.Error == nil {
			return ev.Failf("no-error-report", "default mux: an empty error report was offered")
		}
	case <-time.After(promptDeadline):
		return ev.Failf("no-error-report", "a Server without a Handler of its own (DefaultServeMux) received undecodable input (variant %d): the connection was closed but no error report arrived on diam.ErrorReports() within %v", c.Garbage, promptDeadline)
	}
	if f := send(c.After); f != nil {
		return f
	}
	select {
	case err := <-served:
		return ev.Failf("serve-returned", "default mux: Server.Serve returned (%v)", err)
	default:
	}
	return nil
}

var defaultMux = ev.Register(&ev.Prop[DCase]{
	ID: "C15", Name: "default-mux",
	Rule: "a Server with neither Handler nor Dict (DefaultServeMux, dict.Default): one connection sends undecodable input of each kind while a healthy connection sends requests before and after; the faulty connection must be closed, exactly one report must arrive on diam.ErrorReports(), the healthy connection must get every answer; every case is distinct by (variant, before, after)",
	Gen: func(t *rapid.T) DCase {
		return DCase{Garbage: rapid.IntRange(0, garbageVariants-1).Draw(t, "garbage"), Before: rapid.IntRange(0, 3).Draw(t, "before"), After: rapid.IntRange(1, 3).Draw(t, "after")}
	},
	Run:      runDefaultMux,
	Attempts: 3,
})

func TestC15DefaultMux(t *testing.T) { defaultMux.Check(t, 60, 3000) }
