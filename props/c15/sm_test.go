package c15

import (
	"fmt"
	"net"
	"testing"
	"time"

	"github.com/fiorix/go-diameter/v4/diam"
	"github.com/fiorix/go-diameter/v4/diam/datatype"
	"github.com/fiorix/go-diameter/v4/diam/dict"
	"github.com/fiorix/go-diameter/v4/diam/sm"
	"pgregory.net/rapid"

	"verif/internal/ev"
	"verif/internal/memnet"
	"verif/internal/refcodec"
)

// The same isolation when the server's handler is the library's own state machine (what most
// servers use): undecodable input on one connection is offered to the state machine's error
// reports with that connection, the connection is closed, and a peer on another connection goes
// on being served (its watchdog requests are answered).

type SMFaultCase struct {
	Variant   int  `json:"variant"`   // kind of undecodable input (garbage)
	Handshake bool `json:"handshake"` // the faulty peer completes the capabilities exchange first
	Before    int  `json:"before"`    // DWRs the healthy peer gets answered before the fault
	After     int  `json:"after"`     // ... and after it
}

func smCER(hbh uint32) []byte {
	return refcodec.EncodeMessage(refcodec.Header{Version: 1, Flags: 0x80, Code: 257, HopByHop: hbh, EndToEnd: hbh},
		[]*refcodec.Node{{Code: 264, Flags: 0x40, Payload: []byte("peer.example")}, {Code: 296, Flags: 0x40, Payload: []byte("example")},
			{Code: 257, Flags: 0x40, Payload: refcodec.Address(1, []byte{10, 0, 0, 2})}, {Code: 266, Flags: 0x40, Payload: refcodec.U32(1)},
			{Code: 269, Payload: []byte("p")}, {Code: 258, Flags: 0x40, Payload: refcodec.U32(4)}}, false)
}

func smDWR(hbh uint32) []byte {
	return refcodec.EncodeMessage(refcodec.Header{Version: 1, Flags: 0x80, Code: 280, HopByHop: hbh, EndToEnd: hbh},
		[]*refcodec.Node{{Code: 264, Flags: 0x40, Payload: []byte("peer.example")}, {Code: 296, Flags: 0x40, Payload: []byte("example")}}, false)
}

func runSMFault(c SMFaultCase) *ev.Failure {
	machine := sm.New(&sm.Settings{OriginHost: "srv.example", OriginRealm: "example", VendorID: 13, ProductName: "verif",
		HostIPAddresses: []datatype.Address{datatype.Address([]byte{10, 0, 0, 1})}})
	type rep struct {
		conn diam.Conn
		err  string
	}
	reps := make(chan rep, 64)
	stop := make(chan struct{})
	defer close(stop)
	go func() {
		for {
			select {
			case r := <-machine.ErrorReports():
				select {
				case reps <- rep{r.Conn, fmt.Sprint(r.Error)}:
				default:
				}
			case <-machine.HandshakeNotify():
			case <-stop:
				return
			}
		}
	}()
	lis := memnet.NewListener(2)
	srv := &diam.Server{Handler: machine, Dict: dict.Default}
	served := make(chan error, 1)
	go func() { served <- srv.Serve(lis) }()
	defer lis.Close()
	good, bad := memnet.NewConn(), memnet.NewConn()
	bad.Remote = memnet.Addr{Net: "tcp", Str: "10.6.6.6:6666"}
	lis.Push(good)
	lis.Push(bad)
	defer func() {
		for _, mc := range []*memnet.Conn{good, bad} {
			mc.FeedEOF()
			mc.WaitClosed(2 * time.Second)
			mc.Close()
		}
	}()
	exchange := func(mc *memnet.Conn, req []byte, what string) *ev.Failure {
		before := len(mc.Writes())
		mc.Feed(req)
		if !mc.WaitWrites(before+1, promptDeadline) || len(mc.Writes()) <= before {
			return ev.Failf("sm:request-unanswered", "%s got no answer within %v", what, promptDeadline)
		}
		return nil
	}
	if f := exchange(good, smCER(1), "the healthy peer's CER"); f != nil {
		return f
	}
	for i := 0; i < c.Before; i++ {
		if f := exchange(good, smDWR(uint32(100+i)), fmt.Sprintf("the healthy peer's DWR %d (before the fault)", i)); f != nil {
			return f
		}
	}
	if c.Handshake {
		if f := exchange(bad, smCER(2), "the faulty peer's CER"); f != nil {
			return f
		}
	}
	bad.Feed(garbage(c.Variant))
	if !bad.WaitClosed(promptDeadline) {
		return ev.Failf("sm:faulty-conn-not-closed", "undecodable input (variant %d) on a connection served with a state machine as handler: the transport was not closed within %v", c.Variant%garbageVariants, promptDeadline)
	}
	// the report: offered to the state machine's ErrorReports, naming the faulty connection
	deadline := time.After(promptDeadline)
	found := false
	for !found {
		select {
		case r := <-reps:
			if r.conn != nil && r.conn.RemoteAddr() != nil && r.conn.RemoteAddr().String() == "10.6.6.6:6666" {
				found = true
			}
		case <-deadline:
			return ev.Failf("sm:no-error-report", "undecodable input (variant %d, handshake first: %v) on a connection whose handler is an sm.StateMachine was not offered to the state machine's ErrorReports within %v", c.Variant%garbageVariants, c.Handshake, promptDeadline)
		}
	}
	for i := 0; i < c.After; i++ {
		if f := exchange(good, smDWR(uint32(200+i)), fmt.Sprintf("the healthy peer's DWR %d (after the fault on the other connection)", i)); f != nil {
			return f
		}
	}
	select {
	case err := <-served:
		return ev.Failf("sm:serve-returned", "Serve returned (%v) after undecodable input on one connection", err)
	default:
	}
	return nil
}

var smFaultProp = ev.Register(&ev.Prop[SMFaultCase]{
	ID: "C15", Name: "state-machine-handler",
	Rule: "Server.Serve with an sm.StateMachine as handler on an in-memory listener, two connections: a healthy peer (handshake, 0..2 DWRs before and 1..2 after) and a faulty one that, with or without a handshake of its own, sends undecodable input (9 variants). " +
		"Demanded: the faulty transport is closed, the input is offered to the state machine's ErrorReports with that connection, the healthy peer's requests are all answered, Serve keeps running. Every case is non-trivial",
	Gen: func(t *rapid.T) SMFaultCase {
		return SMFaultCase{Variant: rapid.IntRange(0, garbageVariants-1).Draw(t, "variant"), Handshake: rapid.Bool().Draw(t, "handshake"),
			Before: rapid.IntRange(0, 2).Draw(t, "before"), After: rapid.IntRange(1, 2).Draw(t, "after")}
	},
	Run: runSMFault,
	Classify: func(c SMFaultCase) (bool, []string) {
		return true, []string{fmt.Sprintf("garbage-variant:%d", c.Variant%garbageVariants), fmt.Sprintf("handshake-first:%v", c.Handshake)}
	},
})

func TestC15StateMachineHandler(t *testing.T) { smFaultProp.Check(t, 60, 2000) }

// A long run of temporary accept errors (a file-descriptor shortage lasting a second or two): the
// retry delay of the accept loop saturates, the loop itself goes on. Nine consecutive errors take
// the back-off past its cap (5 ms doubling to 640 ms, then 1 s).
type AcceptRunCase struct {
	Errors int  `json:"errors"`
	Anon   bool `json:"anon,omitempty"`   // the listener's Addr() is nil
	Kind   int  `json:"kind,omitempty"`   // which temporary error (acceptError)
	Before bool `json:"before,omitempty"` // a connection is accepted and served before the errors, and must still be served after them
}

func runAcceptRun(c AcceptRunCase) *ev.Failure {
	mux := diam.NewServeMux()
	mux.HandleFunc("ALL", func(cn diam.Conn, m *diam.Message) { m.Answer(2001).WriteTo(cn) })
	stop := make(chan struct{})
	defer close(stop)
	go func() {
		for {
			select {
			case <-mux.ErrorReports():
			case <-stop:
				return
			}
		}
	}()
	lis := memnet.NewListener(c.Errors + 3)
	var nl net.Listener = lis
	if c.Anon {
		nl = anonListener{lis}
	}
	srv := &diam.Server{Handler: mux, Dict: dict.Default}
	served := serveGuarded(srv, nl)
	defer lis.Close()
	ended := func(err error) *ev.Failure {
		f := serveEnded("accept-run:", err)
		f.Detail = fmt.Sprintf("after %d consecutive temporary accept errors (kind %d, listener without address: %v): %s", c.Errors, c.Kind%acceptErrKinds, c.Anon, f.Detail)
		return f
	}
	var old *memnet.Conn
	if c.Before {
		old = memnet.NewConn()
		lis.Push(old)
		defer func() { old.FeedEOF(); old.WaitClosed(2 * time.Second); old.Close() }()
		old.Feed(smDWR(5))
		if !old.WaitWrites(1, promptDeadline) || len(old.Writes()) == 0 {
			return ev.Failf("accept-run:connection-not-served", "the first connection got no answer within %v", promptDeadline)
		}
	}
	for i := 0; i < c.Errors; i++ {
		if c.Kind%acceptErrKinds == 0 {
			lis.PushErr(&memnet.TempError{Msg: "scripted temporary accept error (too many open files)"})
		} else {
			lis.PushErr(acceptError(c.Kind, nl.Addr()))
		}
	}
	mc := memnet.NewConn()
	lis.Push(mc)
	defer func() { mc.FeedEOF(); mc.WaitClosed(2 * time.Second); mc.Close() }()
	mc.Feed(smDWR(7))
	if !mc.WaitWrites(1, 15*time.Second) || len(mc.Writes()) == 0 {
		select {
		case err := <-served:
			return ended(err)
		default:
		}
		return ev.Failf("accept-run:connection-not-served", "a connection accepted after %d consecutive temporary accept errors got no answer within 15 s", c.Errors)
	}
	if old != nil {
		// the connection accepted before the errors is still served
		old.Feed(smDWR(6))
		if !old.WaitWrites(2, promptDeadline) || len(old.Writes()) < 2 {
			select {
			case err := <-served:
				return ended(err)
			default:
			}
			return ev.Failf("accept-run:connection-not-served", "a connection accepted before %d temporary accept errors got no answer within %v to a request sent after them", c.Errors, promptDeadline)
		}
		if closed, _ := old.Closed(); closed {
			return ev.Failf("accept-run:healthy-conn-closed", "a connection accepted before %d temporary accept errors was closed", c.Errors)
		}
	}
	select {
	case err := <-served:
		return ended(err)
	default:
	}
	return nil
}

var acceptRunProp = ev.Register(&ev.Prop[AcceptRunCase]{
	ID: "C15", Name: "accept-error-run",
	Rule: "Server.Serve on an in-memory listener that reports 1, 8, 9 or 11 consecutive temporary accept errors before the next connection; also short runs (1..3; thorough: 9) of each kind of temporary error (memnet's, a timeout, net.OpError with EMFILE / ECONNABORTED) on a listener with and without an address (Addr() nil), with and without a connection accepted before the errors; demanded: the next connection is served (its request answered), the earlier one is still served and open, and Serve has neither returned nor panicked. non-trivial = the run is long enough for the retry delay to reach its cap (9 or more), or the listener has no address, or the error is not memnet's plain one",
	Run:  runAcceptRun,
	Classify: func(c AcceptRunCase) (bool, []string) {
		return c.Errors >= 9 || c.Anon || c.Kind%acceptErrKinds != 0, []string{fmt.Sprintf("errors:%d", c.Errors), fmt.Sprintf("anon-listener:%v", c.Anon), fmt.Sprintf("kind:%d", c.Kind%acceptErrKinds)}
	},
})

func TestC15AcceptErrorRun(t *testing.T) {
	acceptRunProp.Enumerate(t, true, func(yield func(AcceptRunCase) bool) {
		for _, n := range []int{1, 8, 9, 11} {
			if !yield(AcceptRunCase{Errors: n}) {
				return
			}
		}
		for _, anon := range []bool{true, false} {
			for kind := 0; kind < acceptErrKinds; kind++ {
				for _, before := range []bool{false, true} {
					if !anon && kind == 0 && !before {
						continue // above
					}
					if !yield(AcceptRunCase{Errors: 1 + (kind+1)%3, Anon: anon, Kind: kind, Before: before}) {
						return
					}
				}
			}
		}
		if ev.Thorough() {
			for kind := 0; kind < acceptErrKinds; kind++ {
				if !yield(AcceptRunCase{Errors: 9, Anon: true, Kind: kind, Before: kind%2 == 0}) {
					return
				}
			}
		}
	})
}
