package c15

import (
	"fmt"
	"net"
	"sync"
	"testing"
	"time"

	"github.com/fiorix/go-diameter/v4/diam"
	"github.com/fiorix/go-diameter/v4/diam/datatype"
	"github.com/fiorix/go-diameter/v4/diam/dict"

	"verif/internal/ev"
	"verif/internal/memnet"
)

// Undecodable input of the kind "a command that exists - in another application": the header
// names a command code that the dictionary defines for some non-base application only, under an
// application id for which it is not defined. That connection is closed and reported like any
// other that sent an unknown command. The connections that USE this command in its own
// application - one that existed before the fault, one accepted after it - share the dictionary
// parser (dict.Default, or the server's own) with the faulty one and must go on being served.

type ForeignCmdCase struct {
	Cmd      int    `json:"cmd"`                 // index of cmdTable (1..)
	WrongApp int    `json:"wrong_app"`           // which of the two applications that do not define the command
	Dict     string `json:"dict"`                // default | private (Server.Dict / NewConn with a parser of its own)
	Handler  string `json:"handler"`             // all | named: the mux handler is registered as "ALL" or under the command's name
	Served   bool   `json:"served"`              // connections accepted by Server.Serve (else made with diam.NewConn)
	Anon     bool   `json:"anon,omitempty"`      // served: the listener's Addr() is nil
	Body     bool   `json:"body,omitempty"`      // the faulty header is followed by AVPs (a complete message) instead of standing alone
	Faulty   int    `json:"faulty"`              // connections that send the undecodable header, one after the other (1..2)
	Before   int    `json:"before"`              // requests the old healthy connection gets answered before the fault
	After    int    `json:"after"`               // ... and after it (>= 1)
	OtherCmd int    `json:"other_cmd,omitempty"` // a second healthy connection using another command of cmdTable (0: DWR)
}

func runForeignCmd(c ForeignCmdCase) *ev.Failure {
	cmd := cmdIndex(c.Cmd)
	if cmd == 0 {
		cmd = 1
	}
	ct := cmdTable[cmd]
	dp := dict.Default
	if c.Dict == "private" {
		var err error
		if dp, err = privateDict(); err != nil {
			return ev.Failf("harness-dict", "cannot build the private dictionary: %v", err)
		}
	}
	mux := diam.NewServeMux()
	answer := func(conn diam.Conn, m *diam.Message) {
		a := m.Answer(2001)
		if ci, ok := u32(m, codeConn); ok {
			a.AddAVP(diam.NewAVP(codeConn, 0x40, 0, datatype.Unsigned32(ci)))
		}
		if s, ok := u32(m, codeSeq); ok {
			a.AddAVP(diam.NewAVP(codeSeq, 0x40, 0, datatype.Unsigned32(s)))
		}
		a.WriteTo(conn)
	}
	if c.Handler == "named" {
		mux.HandleFunc(ct.Name, answer)
		mux.HandleFunc(cmdTable[cmdIndex(c.OtherCmd)].Name, answer)
	} else {
		mux.HandleFunc("ALL", answer)
	}
	rep := &reporter{ServeMux: mux}
	rep.cond = sync.NewCond(&rep.mu)
	stop := make(chan struct{})
	defer close(stop)
	go func() {
		for {
			select {
			case <-mux.ErrorReports():
			case <-stop:
				return
			}
		}
	}()

	var lis *memnet.Listener
	var served chan error
	if c.Served {
		lis = memnet.NewListener(c.Faulty + 4)
		var nl net.Listener = lis
		if c.Anon {
			nl = anonListener{lis}
		}
		served = serveGuarded(&diam.Server{Handler: rep, Dict: dp}, nl)
		defer lis.Close()
	}
	var all []*memnet.Conn
	defer func() {
		for _, mc := range all {
			mc.FeedEOF()
			mc.WaitClosed(2 * time.Second)
			mc.Close()
		}
	}()
	open := func(i int) (*memnet.Conn, *ev.Failure) {
		mc := memnet.NewConn()
		mc.Remote = memnet.Addr{Net: "tcp", Str: fmt.Sprintf("10.9.6.%d:40000", i+1)}
		all = append(all, mc)
		if c.Served {
			lis.Push(mc)
			return mc, nil
		}
		if _, err := diam.NewConn(mc, "", rep, dp); err != nil {
			return nil, ev.Failf("harness-conn", "%v", err)
		}
		return mc, nil
	}
	serveStopped := func() *ev.Failure {
		if served == nil {
			return nil
		}
		select {
		case err := <-served:
			served <- err
			return serveEnded("foreign-cmd:", err)
		default:
			return nil
		}
	}
	desc := fmt.Sprintf("command %d (%s of application %d) sent under application %d on another connection (dictionary: %s, handler: %s, served: %v)",
		ct.Code, ct.Name, ct.App, ct.WrongApps[c.WrongApp&1], c.Dict, c.Handler, c.Served)
	sent := map[*memnet.Conn]int{}
	exchange := func(mc *memnet.Conn, useCmd, tag, n int, what string) *ev.Failure {
		for i := 0; i < n; i++ {
			sent[mc]++
			mc.Feed(requestCmd(useCmd, tag, sent[mc], false))
			if miss, err := waitAnswers(mc, tag, sent[mc], promptDeadline); err != nil {
				return ev.Failf("foreign-cmd:answers-garbled", "%s: %v", what, err)
			} else if miss != 0 {
				if f := serveStopped(); f != nil {
					return f
				}
				closed, _ := mc.Closed()
				return ev.Failf("foreign-cmd:request-unanswered", "%s: no answer to its request %d (command %d, application %d) within %v (connection closed by the server: %v); %s",
					what, miss, cmdTable[cmdIndex(useCmd)].Code, cmdTable[cmdIndex(useCmd)].App, promptDeadline, closed, desc)
			}
		}
		if closed, _ := mc.Closed(); closed {
			return ev.Failf("foreign-cmd:healthy-conn-closed", "%s was closed by the server; %s", what, desc)
		}
		return nil
	}

	old, f := open(0)
	if f != nil {
		return f
	}
	other, f := open(1)
	if f != nil {
		return f
	}
	if f := exchange(old, cmd, 1, c.Before, "the healthy connection, before the fault"); f != nil {
		return f
	}
	if f := exchange(other, c.OtherCmd, 2, 1, "the second healthy connection, before the fault"); f != nil {
		return f
	}
	for i := 0; i < c.Faulty; i++ {
		bad, f := open(10 + i)
		if f != nil {
			return f
		}
		variant := 7
		if c.Body {
			variant = 8
		}
		b := garbageCmd(variant, cmd)
		// garbageCmd ties the wrong application to the variant; this scenario chooses it freely
		wrong := ct.WrongApps[c.WrongApp&1]
		b[8], b[9], b[10], b[11] = byte(wrong>>24), byte(wrong>>16), byte(wrong>>8), byte(wrong)
		bad.Feed(b)
		if !bad.WaitClosed(promptDeadline) {
			return ev.Failf("foreign-cmd:faulty-conn-not-closed", "faulty connection %d: transport not closed within %v; %s", i, promptDeadline, desc)
		}
		if !rep.waitFor(bad, promptDeadline) {
			return ev.Failf("foreign-cmd:no-error-report", "faulty connection %d: the undecodable header was not offered to the handler's ErrorReporter within %v; %s", i, promptDeadline, desc)
		}
	}
	if f := exchange(old, cmd, 1, c.After, "the healthy connection that existed before the fault"); f != nil {
		return f
	}
	if f := exchange(other, c.OtherCmd, 2, 1, "the second healthy connection"); f != nil {
		return f
	}
	fresh, f := open(20)
	if f != nil {
		return f
	}
	if f := exchange(fresh, cmd, 3, 2, "a connection opened after the fault"); f != nil {
		return f
	}
	return serveStopped()
}

var foreignCmdProp = ev.Register(&ev.Prop[ForeignCmdCase]{
	ID: "C15", Name: "command-of-another-application",
	Rule: "a ServeMux (handler registered as ALL or under the command's name) behind Server.Serve on an in-memory listener (with or without an address) or on connections made with diam.NewConn, with dict.Default or a dictionary parser of the server's own; a command that only a non-base application defines (CCR, Gx CCR, ULR, AAR, MAR, AIR): a healthy connection sends 0..2 requests with it in its own application, a second healthy connection uses DWR or another such command, then 1..2 connections send a header (bare, or followed by AVPs) with that command code under an application that does not define it (the base application, or another one). " +
		"Demanded: each faulty transport is closed and its input offered to the ErrorReporter with that connection; the healthy connections get every request sent afterwards answered and are not closed; a connection opened afterwards gets its requests with that command answered; Serve has neither returned nor panicked. Every case is non-trivial",
	Run: runForeignCmd,
	Classify: func(c ForeignCmdCase) (bool, []string) {
		cmd := cmdIndex(c.Cmd)
		return true, []string{fmt.Sprintf("command:%s/%d", cmdTable[cmd].Name, cmdTable[cmd].App), "dict:" + c.Dict, "handler:" + c.Handler,
			fmt.Sprintf("served:%v", c.Served), fmt.Sprintf("wrong-app:%d", cmdTable[cmd].WrongApps[c.WrongApp&1]), fmt.Sprintf("requests-before-the-fault:%d", c.Before)}
	},
	Attempts: 2,
})

func TestC15CommandOfAnotherApplication(t *testing.T) {
	foreignCmdProp.Enumerate(t, true, func(yield func(ForeignCmdCase) bool) {
		i := 0
		// the private dictionaries first: what a case does to its own parser ends with the case
		for _, d := range []string{"private", "default"} {
			for cmd := 1; cmd < len(cmdTable); cmd++ {
				for wrong := 0; wrong < 2; wrong++ {
					for _, h := range []string{"all", "named"} {
						for _, served := range []bool{true, false} {
							i++
							if !ev.Thorough() && d == "private" && i%2 == 0 {
								continue // building a parser takes time: half of them in the quick tier
							}
							c := ForeignCmdCase{Cmd: cmd, WrongApp: wrong, Dict: d, Handler: h, Served: served, Anon: served && i%3 == 0, Body: i%4 >= 2,
								Faulty: 1 + i%5/4, Before: i % 3, After: 1 + i%2}
							if i%3 == 1 {
								c.OtherCmd = 1 + (cmd+i)%(len(cmdTable)-1)
							}
							if !yield(c) {
								return
							}
						}
					}
				}
			}
		}
	})
}
