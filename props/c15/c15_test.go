// C15 - Faults on one connection stay on that connection.
//
// Server.Serve runs on a memnet.Listener. A Case scripts 2..5 connections
// with numbered requests, a global interleaving of "open connection / feed
// next item" actions, temporary accept errors between them, and for some
// connections one fault at a scripted position of their sequence: a request
// that makes the handler panic, bytes that cannot be decoded, or an abrupt
// disconnect (EOF or a reset, at a message boundary or inside a message).
package c15

import (
	"errors"
	"fmt"
	"io"
	"log"
	"net"
	"os"
	"runtime/debug"
	"sync"
	"syscall"
	"testing"
	"time"

	"github.com/fiorix/go-diameter/v4/diam"
	"github.com/fiorix/go-diameter/v4/diam/datatype"
	"github.com/fiorix/go-diameter/v4/diam/dict"
	"pgregory.net/rapid"

	"verif/internal/dicts"
	"verif/internal/ev"
	"verif/internal/gen"
	"verif/internal/memnet"
	"verif/internal/refcodec"
)

const (
	codeConn   = 258 // Auth-Application-Id, Unsigned32: connection tag
	codeSeq    = 278 // Origin-State-Id, Unsigned32: 1-based request number
	codeMarker = 266 // Vendor-Id, Unsigned32: present = the handler panics
	lateConn   = 99  // tag of the connection opened after everything else
)

const promptDeadline = 5 * time.Second

type CConn struct {
	N       int    `json:"n"`               // requests 1..N
	Fault   string `json:"fault,omitempty"` // "" | panic | garbage | eof | reset
	At      int    `json:"at,omitempty"`    // the fault comes after this many requests (0..N)
	Variant int    `json:"variant,omitempty"`
	Cut     int    `json:"cut,omitempty"` // eof/reset: bytes of request At+1 fed before the disconnect (0: at the boundary)
	// StuckWrite (panic / garbage, At >= 1): when the fault happens a Write of another goroutine
	// (an asynchronous answer, a server-initiated request) is stuck in this connection's
	// transport because the peer does not read. The connection must be closed all the same.
	StuckWrite bool `json:"stuck_write,omitempty"`
	// CloseNotify: the handler of this connection's first request asks for the CloseNotify
	// channel (from then on the library keeps a read outstanding while handlers run).
	CloseNotify bool `json:"close_notify,omitempty"`
	// Cmd: the command of this connection's requests, an index of cmdTable (0: Device-Watchdog of
	// the base application, as before; others: a command that only a non-base application defines).
	Cmd int `json:"cmd,omitempty"`
	// Access: read-only accessors of diam.Conn that every handler of this connection calls before
	// anything else (bit mask, see accNames in pipelined_test.go) - the handler that panics included.
	Access int `json:"access,omitempty"`
}

type Step struct {
	Conn int  `json:"conn"` // next action of this connection (open, then its items); -1: a temporary accept error
	Sync bool `json:"sync,omitempty"`
	// ErrKind (accept errors): which temporary error Accept returns, see acceptError
	ErrKind int `json:"err_kind,omitempty"`
}

type Case struct {
	Conns []CConn `json:"conns"`
	Steps []Step  `json:"steps"` // afterwards the remaining actions run connection by connection
	LateN int     `json:"late_n"`
	// AnonListener: the listener's Addr() returns nil (a listener that has no address to show;
	// Serve's own code for fatal accept errors allows for it).
	AnonListener bool `json:"anon_listener,omitempty"`
	// Cmd: the command of the connection opened after all faults, and the command code that the
	// "command of another application" kinds of undecodable input carry (index of cmdTable; 0: DWR
	// for the late connection, Credit-Control for the undecodable header).
	Cmd int `json:"cmd,omitempty"`
	// PrivateDict: the server gets a dictionary parser of its own (Server.Dict, loaded for this
	// case with the documents dict.Default is made of) instead of the shared dict.Default.
	PrivateDict bool `json:"private_dict,omitempty"`
}

// cmdTable: commands the healthy traffic can use. Entry 0 is the base application's watchdog
// request. The others exist in dict.Default only in the named application (not in the base
// application): sent under WrongApps[i] their header cannot be decoded.
var cmdTable = []struct {
	Name      string // the name a ServeMux handler is registered with
	Code, App uint32
	WrongApps [2]uint32
}{
	{"DWR", 280, 0, [2]uint32{0, 0}},
	{"CCR", 272, 4, [2]uint32{0, 16777251}},
	{"CCR", 272, 16777238, [2]uint32{0, 16777265}}, // Gx
	{"ULR", 316, 16777251, [2]uint32{0, 4}},        // S6a
	{"AAR", 265, 16777236, [2]uint32{0, 16777238}}, // Rx
	{"MAR", 303, 16777265, [2]uint32{0, 16777251}}, // SWx
	{"AIR", 318, 16777251, [2]uint32{0, 1}},        // S6a
}

func cmdIndex(i int) int {
	if i < 0 {
		i = -i
	}
	return i % len(cmdTable)
}

// privateDict builds a fresh parser holding what dict.Default holds.
func privateDict() (*dict.Parser, error) {
	emb, err := dicts.EmbeddedXML()
	if err != nil {
		return nil, err
	}
	var xmls []string
	for _, e := range emb {
		if e.Loaded {
			xmls = append(xmls, e.XML)
		}
	}
	return dicts.Load(xmls...)
}

// anonListener is a listener that has no address to show.
type anonListener struct{ *memnet.Listener }

func (anonListener) Addr() net.Addr { return nil }

const acceptErrKinds = 4

// acceptError returns a temporary accept error: the scripted one of memnet, a timeout, and what
// the net package returns from Accept when the process is out of file descriptors or the peer
// aborted the connection before it was accepted.
func acceptError(kind int, addr net.Addr) error {
	switch kind % acceptErrKinds {
	case 1:
		return &memnet.TimeoutError{} // Temporary() and Timeout()
	case 2:
		return &net.OpError{Op: "accept", Net: "tcp", Addr: addr, Err: os.NewSyscallError("accept4", syscall.EMFILE)}
	case 3:
		return &net.OpError{Op: "accept", Net: "tcp", Addr: addr, Err: syscall.ECONNABORTED} // temporary when it comes from accept
	}
	return &memnet.TempError{Msg: "scripted temporary accept error"}
}

// servePanic is what serveGuarded delivers when Serve did not return but panicked.
type servePanic struct {
	val   interface{}
	stack string
}

func (p *servePanic) Error() string {
	return fmt.Sprintf("panic in the goroutine running Serve: %v\n%s", p.val, p.stack)
}

// serveGuarded runs srv.Serve(l) in a goroutine of its own. A panic of that goroutine (in a real
// program: the end of the process and of every connection it serves) is delivered like a return.
func serveGuarded(srv *diam.Server, l net.Listener) chan error {
	ch := make(chan error, 1)
	go func() {
		defer func() {
			if r := recover(); r != nil {
				st := string(debug.Stack())
				if len(st) > 1500 {
					st = st[:1500] + "\n...(truncated)"
				}
				ch <- &servePanic{val: r, stack: st}
			}
		}()
		ch <- srv.Serve(l)
	}()
	return ch
}

// serveEnded turns what serveGuarded delivered into a failure.
func serveEnded(prefix string, err error) *ev.Failure {
	if p, ok := err.(*servePanic); ok {
		return ev.Failf(prefix+"serve-panicked", "the accept loop stopped: %v", p)
	}
	return ev.Failf(prefix+"serve-returned", "Server.Serve returned (%v) although the listener was not closed", err)
}

func request(conn, seq int, marked bool) []byte { return requestCmd(0, conn, seq, marked) }

// requestCmd is request with the command (and application) of cmdTable[cmd].
func requestCmd(cmd, conn, seq int, marked bool) []byte {
	ct := cmdTable[cmdIndex(cmd)]
	m := gen.Msg{Flags: 0x80, Code: ct.Code, App: ct.App, HbH: uint32(conn*100 + seq + 1), E2E: uint32(0xC1500000 + conn*100 + seq), AVPs: []*gen.AVP{
		{Code: codeConn, Flags: 0x40, V: gen.Val{T: gen.TUnsigned32, U: uint64(conn)}},
		{Code: codeSeq, Flags: 0x40, V: gen.Val{T: gen.TUnsigned32, U: uint64(seq)}},
	}}
	if marked {
		m.AVPs = append(m.AVPs, &gen.AVP{Code: codeMarker, Flags: 0x40, V: gen.Val{T: gen.TUnsigned32, U: 0xDEAD}})
	}
	return m.RefBytes()
}

const garbageVariants = 9

// garbage returns bytes that no Diameter decoder can accept as the next message.
func garbage(variant int) []byte { return garbageCmd(variant, 1) }

// garbageCmd is garbage; the "command of another application" variants carry the command code of
// cmdTable[cmd] (Credit-Control if cmd is 0).
func garbageCmd(variant, cmd int) []byte {
	hdr := func(length, code uint32) []byte {
		return refcodec.EncodeHeader(refcodec.Header{Version: 1, Length: length, Flags: 0x80, Code: code, HopByHop: 7, EndToEnd: 7})
	}
	if cmd = cmdIndex(cmd); cmd == 0 {
		cmd = 1
	}
	ct := cmdTable[cmd]
	switch variant % garbageVariants {
	case 7: // a command that exists, but not in the application the header names (the base application): header only
		return refcodec.EncodeHeader(refcodec.Header{Version: 1, Length: 20, Flags: 0x80, Code: ct.Code, App: ct.WrongApps[0], HopByHop: 7, EndToEnd: 7})
	case 8: // the same with another application that does not define the command, as a complete message with AVPs
		m := gen.Msg{Flags: 0x80, Code: ct.Code, App: ct.WrongApps[1], HbH: 7, E2E: 7, AVPs: []*gen.AVP{
			{Code: codeConn, Flags: 0x40, V: gen.Val{T: gen.TUnsigned32, U: 77}},
			{Code: codeSeq, Flags: 0x40, V: gen.Val{T: gen.TUnsigned32, U: 1}},
		}}
		return m.RefBytes()
	case 0: // declared message length below the header size
		return hdr(8, 280)
	case 1: // a command no dictionary knows
		return hdr(20, 0xFFFFFE)
	case 2: // an AVP whose declared length is shorter than an AVP header
		return append(hdr(28, 280), 0, 0, 1, 8, 0x40, 0, 0, 4)
	case 3: // an AVP that claims more bytes than the message has
		return append(hdr(32, 280), 0, 0, 1, 8, 0x40, 0, 0, 200, 1, 2, 3, 4)
	case 5: // a complete message whose grouped AVP holds a member that claims more bytes than the group has
		return append(hdr(40, 280), 0, 0, 1, 4, 0x40, 0, 0, 20, 0, 0, 1, 10, 0x40, 0, 0, 16, 0, 0, 0, 1)
	case 6: // a complete message whose grouped AVP ends inside the header of a second member
		return append(hdr(44, 280), 0, 0, 1, 4, 0x40, 0, 0, 24, 0, 0, 1, 10, 0x40, 0, 0, 12, 0, 0, 0, 1, 0, 0, 1, 10)
	default: // another protocol
		return []byte("GET /index.html HTTP/1.1\r\nHost: example\r\n\r\n")
	}
}

// ---------------------------------------------------------------------------
// script

type action struct {
	conn int
	kind string // open | request | panic | garbage | eof | reset | ignored-request | accepterr
	seq  int    // request number; accepterr: the kind of error
}

// actions lists what a connection does, in order.
func actions(ci int, c *CConn) []action {
	out := []action{{conn: ci, kind: "open"}}
	n := c.N
	at := c.At
	if c.Fault == "" || at > n {
		at = n
	}
	if at < 0 {
		at = 0
	}
	for s := 1; s <= at; s++ {
		out = append(out, action{conn: ci, kind: "request", seq: s})
	}
	switch c.Fault {
	case "panic", "garbage":
		out = append(out, action{conn: ci, kind: c.Fault, seq: at + 1})
		// what the peer sends after the fault is not answered by anybody
		for s := at + 2; s <= n; s++ {
			out = append(out, action{conn: ci, kind: "ignored-request", seq: s})
		}
	case "eof", "reset":
		out = append(out, action{conn: ci, kind: c.Fault, seq: at + 1})
	}
	return out
}

// timeline flattens the script into the order in which the harness acts.
func timeline(c *Case) []struct {
	action
	sync bool
} {
	var out []struct {
		action
		sync bool
	}
	acts := make([][]action, len(c.Conns))
	for i := range c.Conns {
		acts[i] = actions(i, &c.Conns[i])
	}
	next := make([]int, len(c.Conns))
	emit := func(a action, sync bool) {
		out = append(out, struct {
			action
			sync bool
		}{a, sync})
	}
	for _, s := range c.Steps {
		if s.Conn == -1 {
			emit(action{conn: -1, kind: "accepterr", seq: s.ErrKind}, false)
			continue
		}
		if s.Conn < 0 || s.Conn >= len(c.Conns) || next[s.Conn] >= len(acts[s.Conn]) {
			continue
		}
		emit(acts[s.Conn][next[s.Conn]], s.Sync)
		next[s.Conn]++
	}
	for i := range c.Conns {
		for ; next[i] < len(acts[i]); next[i]++ {
			emit(acts[i][next[i]], false)
		}
	}
	return out
}

// ---------------------------------------------------------------------------
// runner

// reporter is the server's Handler: the ServeMux, plus an ErrorReporter that
// sees every report the moment it is offered (the mux's own channel holds one
// report and drops the rest).
type reporter struct {
	*diam.ServeMux
	mu      sync.Mutex
	cond    *sync.Cond
	offered []*diam.ErrorReport
}

func (r *reporter) Error(er *diam.ErrorReport) {
	r.mu.Lock()
	r.offered = append(r.offered, er)
	r.cond.Broadcast()
	r.mu.Unlock()
	r.ServeMux.Error(er)
}

func (r *reporter) waitFor(nc *memnet.Conn, timeout time.Duration) bool {
	deadline := time.Now().Add(timeout)
	timer := time.AfterFunc(timeout, func() { r.mu.Lock(); r.cond.Broadcast(); r.mu.Unlock() })
	defer timer.Stop()
	r.mu.Lock()
	defer r.mu.Unlock()
	for {
		for _, er := range r.offered {
			if er != nil && er.Conn != nil && er.Conn.Connection() == nc && er.Error != nil {
				return true
			}
		}
		if time.Now().After(deadline) {
			return false
		}
		r.cond.Wait()
	}
}

var _ diam.ErrorReporter = (*reporter)(nil)

func u32(m *diam.Message, code uint32) (int, bool) {
	a, err := m.FindAVP(code, 0)
	if err != nil || a == nil {
		return 0, false
	}
	v, ok := a.Data.(datatype.Unsigned32)
	return int(v), ok
}

// answered parses what the server wrote to mc and returns the set of request
// numbers of connection tag that have an answer there.
func answered(mc *memnet.Conn, tag int) (map[int]bool, int, error) {
	w := mc.Written()
	msgs, _, err := refcodec.SplitMessages(w)
	if err != nil {
		return nil, len(w), err
	}
	got := map[int]bool{}
	for _, b := range msgs {
		h, err := refcodec.DecodeHeader(b)
		if err != nil {
			return nil, len(w), err
		}
		recs, err := refcodec.Frame(b[refcodec.HeaderLen:])
		if err != nil {
			return nil, len(w), fmt.Errorf("answer does not frame: %v", err)
		}
		c, s := -1, -1
		for _, r := range recs {
			if len(r.Payload) == 4 {
				v := int(r.Payload[0])<<24 | int(r.Payload[1])<<16 | int(r.Payload[2])<<8 | int(r.Payload[3])
				switch r.Code {
				case codeConn:
					c = v
				case codeSeq:
					s = v
				}
			}
		}
		if c == tag && s >= 1 && h.HopByHop == uint32(tag*100+s+1) && h.EndToEnd == uint32(0xC1500000+tag*100+s) {
			got[s] = true
		}
	}
	return got, len(w), nil
}

// waitAnswers waits until mc carries the answers to requests 1..upto of tag.
func waitAnswers(mc *memnet.Conn, tag, upto int, timeout time.Duration) (missing int, err error) {
	deadline := time.Now().Add(timeout)
	for {
		got, n, err := answered(mc, tag)
		if err != nil {
			return 0, err
		}
		missing = 0
		for s := 1; s <= upto; s++ {
			if !got[s] {
				missing = s
				break
			}
		}
		if missing == 0 {
			return 0, nil
		}
		left := time.Until(deadline)
		if closed, _ := mc.Closed(); closed || left <= 0 {
			return missing, nil
		}
		mc.WaitWritten(n+1, left)
	}
}

func runCase(c Case) *ev.Failure {
	nconn := len(c.Conns)
	mux := diam.NewServeMux()
	var connMu sync.Mutex
	connOf := map[int]diam.Conn{}
	mux.HandleFunc("ALL", func(conn diam.Conn, m *diam.Message) {
		if ci, ok := u32(m, codeConn); ok && ci >= 0 && ci < nconn && c.Conns[ci].Access != 0 {
			lookAt(conn, c.Conns[ci].Access)
		}
		if _, marked := u32(m, codeMarker); marked {
			if ci, _ := u32(m, codeConn); ci%2 == 1 {
				// a panic whose value is nil: with the semantics of the Go versions the library's
				// go.mod names (go 1.20; this test binary sets GODEBUG panicnil=1) recover() returns nil for it
				var none interface{}
				panic(none)
			}
			panic("scripted handler panic")
		}
		a := m.Answer(2001)
		if ci, ok := u32(m, codeConn); ok {
			connMu.Lock()
			connOf[ci] = conn
			connMu.Unlock()
			if s, ok := u32(m, codeSeq); ok && s == 1 && ci >= 0 && ci < nconn && c.Conns[ci].CloseNotify {
				if cn, ok := conn.(diam.CloseNotifier); ok {
					_ = cn.CloseNotify()
				}
			}
			a.AddAVP(diam.NewAVP(codeConn, 0x40, 0, datatype.Unsigned32(ci)))
		}
		if s, ok := u32(m, codeSeq); ok {
			a.AddAVP(diam.NewAVP(codeSeq, 0x40, 0, datatype.Unsigned32(s)))
		}
		a.WriteTo(conn)
	})
	rep := &reporter{ServeMux: mux}
	rep.cond = sync.NewCond(&rep.mu)

	// drain the mux's channel continuously
	var chanMu sync.Mutex
	chanCond := sync.NewCond(&chanMu)
	var fromChan []*diam.ErrorReport
	stop := make(chan struct{})
	var bg sync.WaitGroup
	bg.Add(1)
	go func() {
		defer bg.Done()
		for {
			select {
			case er := <-mux.ErrorReports():
				chanMu.Lock()
				fromChan = append(fromChan, er)
				chanCond.Broadcast()
				chanMu.Unlock()
			case <-stop:
				return
			}
		}
	}()

	lis := memnet.NewListener(len(c.Conns) + len(c.Steps) + 4)
	var nl net.Listener = lis
	if c.AnonListener {
		nl = anonListener{lis}
	}
	dp := dict.Default
	if c.PrivateDict {
		var err error
		if dp, err = privateDict(); err != nil {
			close(stop)
			bg.Wait()
			return ev.Failf("harness-dict", "cannot build the private dictionary: %v", err)
		}
	}
	srv := &diam.Server{Handler: rep, Dict: dp}
	served := serveGuarded(srv, nl)

	conns := make([]*memnet.Conn, nconn)
	for i := range conns {
		conns[i] = memnet.NewConn()
		conns[i].Remote = memnet.Addr{Net: "tcp", Str: fmt.Sprintf("10.9.8.%d:40000", i+1)}
	}
	late := memnet.NewConn()
	late.Remote = memnet.Addr{Net: "tcp", Str: "10.9.9.9:40000"}

	serveReturned := func() *ev.Failure {
		select {
		case err := <-served:
			served <- err
			return serveEnded("", err)
		default:
			return nil
		}
	}
	healthy := func(i int) bool { return c.Conns[i].Fault == "" }
	sent := make([]int, nconn) // requests fed so far on healthy connections

	unstick := make(chan struct{})
	run := func() *ev.Failure {
		for _, a := range timeline(&c) {
			switch a.kind {
			case "accepterr":
				lis.PushErr(acceptError(a.seq, nl.Addr()))
			case "open":
				lis.Push(conns[a.conn])
			case "request", "ignored-request":
				conns[a.conn].Feed(requestCmd(c.Conns[a.conn].Cmd, a.conn, a.seq, false))
				if healthy(a.conn) {
					sent[a.conn] = a.seq
					if a.sync {
						if f := serveReturned(); f != nil {
							return f
						}
						if miss, err := waitAnswers(conns[a.conn], a.conn, a.seq, promptDeadline); err != nil {
							return ev.Failf("answers-garbled", "healthy connection %d: %v", a.conn, err)
						} else if miss != 0 {
							if f := serveReturned(); f != nil {
								return f
							}
							return ev.Failf("request-unanswered", "healthy connection %d: no answer to request %d within %v (waited right after sending it)", a.conn, miss, promptDeadline)
						}
					}
				}
			case "panic", "garbage":
				if cc := c.Conns[a.conn]; cc.StuckWrite && a.seq >= 2 {
					// the answers to the requests so far are out; the next write gets stuck
					if miss, _ := waitAnswers(conns[a.conn], a.conn, a.seq-1, promptDeadline); miss == 0 {
						connMu.Lock()
						dc := connOf[a.conn]
						connMu.Unlock()
						in := make(chan struct{}, 1)
						conns[a.conn].WriteHook = func(b []byte, accept func([]byte)) (int, error) {
							select {
							case in <- struct{}{}:
							default:
							}
							<-unstick
							return 0, errors.New("write: broken pipe")
						}
						go dc.Write(request(a.conn, 9000, false))
						select {
						case <-in:
						case <-time.After(promptDeadline):
							return ev.Failf("harness-write", "connection %d: the server-side Write did not reach the transport", a.conn)
						}
					}
				}
				if a.kind == "panic" {
					conns[a.conn].Feed(requestCmd(c.Conns[a.conn].Cmd, a.conn, a.seq, true))
				} else {
					conns[a.conn].Feed(garbageCmd(c.Conns[a.conn].Variant, c.Cmd))
				}
			case "eof", "reset":
				if cut := c.Conns[a.conn].Cut; cut > 0 {
					r := requestCmd(c.Conns[a.conn].Cmd, a.conn, a.seq, false)
					if cut >= len(r) {
						cut = len(r) - 1
					}
					conns[a.conn].Feed(r[:cut])
				}
				if a.kind == "eof" {
					conns[a.conn].FeedEOF()
				} else {
					conns[a.conn].FeedErr(errors.New("read: connection reset by peer"))
				}
			}
			switch a.kind {
			case "panic", "garbage", "eof", "reset":
				if a.sync && !conns[a.conn].WaitClosed(promptDeadline) {
					if f := serveReturned(); f != nil {
						return f
					}
					return ev.Failf("faulty-conn-not-closed", "connection %d: transport not closed within %v of the %s fault", a.conn, promptDeadline, a.kind)
				}
			}
		}

		// every healthy connection has all its answers
		for i := range c.Conns {
			if !healthy(i) {
				continue
			}
			if miss, err := waitAnswers(conns[i], i, sent[i], promptDeadline); err != nil {
				return ev.Failf("answers-garbled", "healthy connection %d: %v", i, err)
			} else if miss != 0 {
				if f := serveReturned(); f != nil {
					return f
				}
				return ev.Failf("request-unanswered", "healthy connection %d: no answer to request %d of %d within %v", i, miss, sent[i], promptDeadline)
			}
			if closed, _ := conns[i].Closed(); closed {
				return ev.Failf("healthy-conn-closed", "healthy connection %d was closed by the server", i)
			}
		}
		// every faulty connection is closed; undecodable input was reported
		reportable := 0
		for i := range c.Conns {
			f := c.Conns[i].Fault
			if f == "" {
				continue
			}
			if !conns[i].WaitClosed(promptDeadline) {
				if f := serveReturned(); f != nil {
					return f
				}
				return ev.Failf("faulty-conn-not-closed", "connection %d: transport not closed within %v of the %s fault", i, promptDeadline, f)
			}
			if f == "garbage" || f == "reset" || (f == "eof" && c.Conns[i].Cut > 0) {
				reportable++
			}
			if f == "garbage" && !rep.waitFor(conns[i], promptDeadline) {
				return ev.Failf("no-error-report", "connection %d: undecodable input (variant %d) was not offered to the handler's ErrorReporter within %v", i, c.Conns[i].Variant%garbageVariants, promptDeadline)
			}
		}
		// the channel of the ServeMux holds one report: with a single report in
		// the whole case nothing can have displaced it
		if reportable == 1 {
			for i := range c.Conns {
				if c.Conns[i].Fault != "garbage" {
					continue
				}
				deadline := time.Now().Add(promptDeadline)
				timer := time.AfterFunc(promptDeadline, func() { chanMu.Lock(); chanCond.Broadcast(); chanMu.Unlock() })
				chanMu.Lock()
				found := false
				for {
					for _, er := range fromChan {
						if er != nil && er.Conn != nil && er.Conn.Connection() == conns[i] {
							found = true
						}
					}
					if found || time.Now().After(deadline) {
						break
					}
					chanCond.Wait()
				}
				chanMu.Unlock()
				timer.Stop()
				if !found {
					return ev.Failf("no-error-report", "connection %d: the only error report of the case never arrived on ServeMux.ErrorReports()", i)
				}
			}
		}
		// the application can still register handlers on the server's mux (a fault on one
		// connection must not leave the dispatcher locked for everybody else)
		regDone := make(chan struct{})
		go func() {
			mux.HandleFunc("ZZR", func(diam.Conn, *diam.Message) {})
			close(regDone)
		}()
		select {
		case <-regDone:
		case <-time.After(promptDeadline):
			return ev.Failf("mux-blocked-after-fault", "after the faults of the case, registering a handler on the server's ServeMux did not return within %v: the dispatcher is locked and no connection can be served any more", promptDeadline)
		}
		// a connection opened after all faults is accepted and served
		lis.Push(late)
		for s := 1; s <= c.LateN; s++ {
			late.Feed(requestCmd(c.Cmd, lateConn, s, false))
		}
		if miss, err := waitAnswers(late, lateConn, c.LateN, promptDeadline); err != nil {
			return ev.Failf("answers-garbled", "late connection: %v", err)
		} else if miss != 0 {
			if f := serveReturned(); f != nil {
				return f
			}
			return ev.Failf("late-conn-not-served", "a connection opened after all faults got no answer to request %d of %d within %v", miss, c.LateN, promptDeadline)
		}
		return serveReturned()
	}
	fail := run()
	close(unstick)

	// shut down: no goroutine survives the case
	all := append(append([]*memnet.Conn{}, conns...), late)
	lis.Close()
	select {
	case <-served:
	case <-time.After(promptDeadline):
		if fail == nil {
			fail = ev.Failf("harness-serve", "Serve did not return within %v of closing the listener", promptDeadline)
		}
	}
	for _, mc := range all {
		mc.FeedEOF()
	}
	for i, mc := range all {
		if fail == nil && !mc.WaitClosed(promptDeadline) {
			fail = ev.Failf("harness-conn-not-closed", "connection %d was not closed within %v of EOF at the end of the case", i, promptDeadline)
		}
		mc.Close()
	}
	close(stop)
	bg.Wait()
	return fail
}

// ---------------------------------------------------------------------------
// generator and classification

func genCase(t *rapid.T) Case {
	var c Case
	nc := rapid.IntRange(2, 5).Draw(t, "conns")
	// half of the cases: part of the traffic uses a command of a non-base application
	if rapid.Bool().Draw(t, "foreign-command-traffic") {
		c.Cmd = rapid.IntRange(1, len(cmdTable)-1).Draw(t, "cmd")
	}
	c.PrivateDict = rapid.IntRange(0, 3).Draw(t, "private-dict") == 0
	c.AnonListener = rapid.IntRange(0, 2).Draw(t, "anon-listener") == 0
	for i := 0; i < nc; i++ {
		cc := CConn{N: rapid.IntRange(1, 6).Draw(t, "n")}
		if c.Cmd != 0 && rapid.IntRange(0, 2).Draw(t, "conn-uses-cmd") != 0 {
			cc.Cmd = c.Cmd
		}
		cc.Fault = rapid.SampledFrom([]string{"", "panic", "garbage", "", "eof", "reset", ""}).Draw(t, "fault")
		cc.CloseNotify = rapid.IntRange(0, 2).Draw(t, "close-notify") == 0
		if cc.Fault != "" {
			cc.At = rapid.IntRange(0, cc.N).Draw(t, "at")
			switch cc.Fault {
			case "garbage":
				cc.Variant = rapid.IntRange(0, garbageVariants-1).Draw(t, "variant")
				if c.Cmd != 0 && rapid.Bool().Draw(t, "command-of-another-application") {
					cc.Variant = rapid.IntRange(7, 8).Draw(t, "foreign-variant")
				}
				cc.StuckWrite = cc.At >= 1 && rapid.IntRange(0, 2).Draw(t, "stuck-write") == 0
			case "panic":
				cc.StuckWrite = cc.At >= 1 && rapid.IntRange(0, 2).Draw(t, "stuck-write") == 0
			case "eof", "reset":
				if rapid.Bool().Draw(t, "mid-message") {
					cc.Cut = rapid.IntRange(1, 43).Draw(t, "cut")
				}
			}
		}
		if rapid.Bool().Draw(t, "handlers-call-accessors") {
			cc.Access = rapid.SampledFrom([]int{accConnection, accAll &^ accCloseNotify, accLocalAddr | accRemoteAddr, accTLS | accDictionary | accContext}).Draw(t, "accessors")
		}
		c.Conns = append(c.Conns, cc)
	}
	anyHealthy := false
	for _, cc := range c.Conns {
		if cc.Fault == "" {
			anyHealthy = true
		}
	}
	if !anyHealthy {
		i := rapid.IntRange(0, nc-1).Draw(t, "healthy")
		c.Conns[i] = CConn{N: c.Conns[i].N, Cmd: c.Conns[i].Cmd, Access: c.Conns[i].Access}
	}
	ns := rapid.IntRange(6, 48).Draw(t, "steps")
	errs := 0
	for i := 0; i < ns; i++ {
		s := Step{Conn: rapid.IntRange(-1, nc-1).Draw(t, "conn")}
		if s.Conn == -1 {
			// accept errors are rare and few: Serve sleeps 5, 10, 20 ms after them
			if errs >= 3 || rapid.IntRange(0, 2).Draw(t, "keep-accept-error") != 0 {
				s.Conn = rapid.IntRange(0, nc-1).Draw(t, "conn-instead")
			} else {
				errs++
				s.ErrKind = rapid.IntRange(0, acceptErrKinds-1).Draw(t, "accept-error-kind")
			}
		}
		if s.Conn >= 0 {
			s.Sync = rapid.Bool().Draw(t, "sync")
		}
		c.Steps = append(c.Steps, s)
	}
	c.LateN = rapid.IntRange(1, 2).Draw(t, "late")
	return c
}

func classify(c Case) (bool, []string) {
	var cl []string
	seen := map[string]bool{}
	add := func(s string) {
		if !seen[s] {
			seen[s] = true
			cl = append(cl, s)
		}
	}
	add(fmt.Sprintf("conns:%d", len(c.Conns)))
	if c.PrivateDict {
		add("dict:private")
	} else {
		add("dict:default")
	}
	if c.Cmd != 0 {
		add("late-conn-command:" + cmdTable[cmdIndex(c.Cmd)].Name)
	}
	nf := 0
	for _, cc := range c.Conns {
		if cc.Fault == "" {
			if cc.Cmd != 0 {
				add("healthy-conn-command:" + cmdTable[cmdIndex(cc.Cmd)].Name)
				for _, fc := range c.Conns {
					if fc.Fault == "garbage" && fc.Variant%garbageVariants >= 7 && cmdIndex(cc.Cmd) == cmdIndex(c.Cmd) {
						add("healthy-conn-uses-the-command-of-the-undecodable-header")
					}
				}
			}
			continue
		}
		nf++
		add("fault:" + cc.Fault)
		switch {
		case cc.At == 0:
			add("fault-before-first-request")
		case cc.At >= cc.N:
			add("fault-after-last-request")
		default:
			add("fault-mid-sequence")
		}
		if cc.Fault == "garbage" {
			add(fmt.Sprintf("garbage-variant:%d", cc.Variant%garbageVariants))
		}
		if (cc.Fault == "eof" || cc.Fault == "reset") && cc.Cut > 0 {
			add("disconnect-mid-message")
		}
		if cc.CloseNotify && cc.Fault != "" && cc.At >= 2 {
			add("fault-with-closenotify-active:" + cc.Fault)
		}
		if cc.Access != 0 && (cc.At >= 1 || cc.Fault == "panic") {
			add("fault-after-handlers-called-accessors:" + cc.Fault)
			if cc.Access&accConnection != 0 {
				add("fault-after-handlers-called-Connection():" + cc.Fault)
			}
		}
		if cc.StuckWrite && (cc.Fault == "panic" || cc.Fault == "garbage") && cc.At >= 1 {
			add("fault-while-a-write-is-stuck:" + cc.Fault)
		}
	}
	add(fmt.Sprintf("faulty-conns:%d", nf))
	tl := timeline(&c)
	healthy := func(i int) bool { return c.Conns[i].Fault == "" }
	// a fault ordered between two requests of a healthy connection
	between := false
	reqBefore := map[int]bool{}
	faultAfterReq := map[int]bool{}
	opened := 0
	for _, a := range tl {
		switch a.kind {
		case "open":
			opened++
		case "request":
			if healthy(a.conn) {
				if faultAfterReq[a.conn] {
					between = true
				}
				reqBefore[a.conn] = true
			}
		case "panic", "garbage", "eof", "reset", "accepterr":
			for ci := range reqBefore {
				faultAfterReq[ci] = true
			}
			if a.kind == "accepterr" {
				add("accept-error")
				add(fmt.Sprintf("accept-error-kind:%d", a.seq%acceptErrKinds))
				if c.AnonListener {
					add("accept-error-on-a-listener-without-address")
				}
				if opened < len(c.Conns) {
					add("accept-error-before-an-open")
				}
			} else if a.sync {
				add("fault-awaited-before-continuing")
			}
		}
		if a.kind == "request" && a.sync && healthy(a.conn) {
			add("answer-awaited-before-continuing")
		}
	}
	if between {
		add("fault-between-two-requests-of-a-healthy-conn")
	}
	return len(c.Conns) >= 2 && between, cl
}

var prop = ev.Register(&ev.Prop[Case]{
	ID: "C15", Name: "isolation",
	Rule: "Server.Serve on a memnet.Listener; 2..5 connections with 1..6 numbered requests (1 in 3 connections: the first handler requests CloseNotify; 1 in 2: every handler first calls read-only accessors of diam.Conn - Connection, or LocalAddr/RemoteAddr, or TLS/Dictionary/Context, or all of them); faults: a marked request whose handler panics (with a string, or - on odd-numbered connections - with a nil value under GODEBUG panicnil=1), undecodable bytes (9 variants, two of them complete messages with a malformed member inside a grouped AVP), either of them optionally while a server-side Write of another goroutine is stuck in that connection's transport, EOF / reset at a message boundary or inside a message, at position 0..N of the connection's sequence; 0..3 temporary accept errors (4 kinds: memnet's, a timeout, net.OpError with EMFILE / ECONNABORTED), in 1 case of 3 on a listener whose Addr() is nil; in half of the cases part of the connections and the late connection send a command that only a non-base application defines (CCR, Gx CCR, ULR, AAR, MAR, AIR) and the undecodable input is then often a header carrying that command code under an application that does not define it (variants 7, 8); in 1 case of 4 the server has a dictionary parser of its own instead of dict.Default; a scripted global interleaving of open / feed actions, each optionally awaited (answer received / faulty transport closed) before the script continues; at the end every healthy connection must hold the answer to each of its requests, every faulty transport must be closed, undecodable input must have been offered to the ErrorReporter with that connection, a connection opened afterwards must be served and Serve must neither have returned nor panicked; non-trivial = a fault (or accept error) is scripted between two requests of a healthy connection",
	Gen:  genCase, Run: runCase, Classify: classify, Attempts: 5,
})

func TestMain(m *testing.M) {
	log.SetOutput(io.Discard)
	os.Exit(m.Run())
}

func TestC15Isolation(t *testing.T) { prop.Check(t, 300, 15000) }
func TestC15Keep(t *testing.T)      { ev.RunKeep(t, "C15") }
func TestReplay(t *testing.T)       { ev.Replay(t) }

// The scripted accept errors are temporary ones (a harness precondition, not a demand on the library).
func TestC15HarnessAcceptErrors(t *testing.T) {
	for k := 0; k < acceptErrKinds; k++ {
		ne, ok := acceptError(k, nil).(net.Error)
		if !ok || !ne.Temporary() {
			t.Fatalf("harness: accept error kind %d is not a temporary net.Error", k)
		}
	}
}
