package c15

import (
	"crypto/ecdsa"
	"crypto/elliptic"
	"crypto/rand"
	"crypto/tls"
	"crypto/x509"
	"crypto/x509/pkix"
	"fmt"
	"io"
	"math/big"
	"net"
	"sync"
	"testing"
	"time"

	"github.com/fiorix/go-diameter/v4/diam"
	"github.com/fiorix/go-diameter/v4/diam/datatype"
	"github.com/fiorix/go-diameter/v4/diam/dict"
	"pgregory.net/rapid"

	"verif/internal/ev"
	"verif/internal/memnet"
	"verif/internal/refcodec"
)

// The same isolation on a TLS listener: what Accept hands to Server.Serve is
// a *tls.Conn whose handshake has not run yet (as with tls.NewListener /
// ListenAndServeTLS). A peer that stalls in the middle of the handshake, one
// that sends something that is not TLS, and one that hangs up during the
// handshake are faults of their own connection only: connections accepted
// afterwards complete their handshake and are served.
//
// All transports are in memory: faulty peers are scripted memnet.Conns,
// healthy peers are real tls.Clients over net.Pipe.

type TConn struct {
	Kind string `json:"kind"`          // healthy | stall | junk | hangup | panic (a handshaken TLS connection whose second request makes the handler panic)
	Cut  int    `json:"cut,omitempty"` // stall / hangup: bytes of a TLS record delivered before the silence / the EOF
	N    int    `json:"n,omitempty"`   // healthy: requests
}

type TLSCase struct {
	Conns []TConn `json:"conns"` // opened in this order; a healthy one is served completely before the next is opened
}

var (
	tlsCertOnce sync.Once
	tlsCert     tls.Certificate
	tlsCertErr  error
)

func serverCert() (tls.Certificate, error) {
	tlsCertOnce.Do(func() {
		key, err := ecdsa.GenerateKey(elliptic.P256(), rand.Reader)
		if err != nil {
			tlsCertErr = err
			return
		}
		tmpl := &x509.Certificate{SerialNumber: big.NewInt(1), Subject: pkix.Name{CommonName: "verif"}, NotBefore: time.Now().Add(-time.Hour),
			NotAfter: time.Now().Add(24 * time.Hour), KeyUsage: x509.KeyUsageDigitalSignature, ExtKeyUsage: []x509.ExtKeyUsage{x509.ExtKeyUsageServerAuth}}
		der, err := x509.CreateCertificate(rand.Reader, tmpl, tmpl, &key.PublicKey, key)
		if err != nil {
			tlsCertErr = err
			return
		}
		tlsCert = tls.Certificate{Certificate: [][]byte{der}, PrivateKey: key}
	})
	return tlsCert, tlsCertErr
}

// partialRecord is the beginning of a TLS handshake record that announces 512 bytes.
func partialRecord(cut int) []byte {
	rec := append([]byte{0x16, 0x03, 0x01, 0x02, 0x00, 0x01, 0x00, 0x01, 0xfc, 0x03, 0x03}, make([]byte, 200)...)
	if cut > len(rec) {
		cut = len(rec)
	}
	return rec[:cut]
}

func readAnswer(c net.Conn) (conn, seq int, err error) {
	h := make([]byte, 20)
	if _, err = io.ReadFull(c, h); err != nil {
		return
	}
	hd, err := refcodec.DecodeHeader(h)
	if err != nil || hd.Length < 20 {
		return 0, 0, fmt.Errorf("bad answer header % x", h)
	}
	body := make([]byte, int(hd.Length)-20)
	if _, err = io.ReadFull(c, body); err != nil {
		return
	}
	recs, err := refcodec.Frame(body)
	if err != nil {
		return
	}
	conn, seq = -1, -1
	for _, r := range recs {
		if len(r.Payload) == 4 {
			v := int(refcodec.Get32(r.Payload))
			switch r.Code {
			case codeConn:
				conn = v
			case codeSeq:
				seq = v
			}
		}
	}
	return
}

func runTLSCase(c TLSCase) *ev.Failure {
	cert, err := serverCert()
	if err != nil {
		return ev.Failf("harness-tls", "%v", err)
	}
	cfg := &tls.Config{Certificates: []tls.Certificate{cert}}
	mux := diam.NewServeMux()
	mux.HandleFunc("ALL", func(conn diam.Conn, m *diam.Message) {
		if _, marked := u32(m, codeMarker); marked {
			panic("scripted handler panic on a TLS connection")
		}
		a := m.Answer(2001)
		if ci, ok := u32(m, codeConn); ok {
			a.AddAVP(diam.NewAVP(codeConn, 0x40, 0, datatype.Unsigned32(ci)))
		}
		if s, ok := u32(m, codeSeq); ok {
			a.AddAVP(diam.NewAVP(codeSeq, 0x40, 0, datatype.Unsigned32(s)))
		}
		a.WriteTo(conn)
	})
	stop := make(chan struct{})
	var bg sync.WaitGroup
	bg.Add(1)
	go func() {
		defer bg.Done()
		for {
			select {
			case <-mux.ErrorReports():
			case <-stop:
				return
			}
		}
	}()
	lis := memnet.NewListener(len(c.Conns) + 2)
	srv := &diam.Server{Handler: mux, Dict: dict.Default}
	served := make(chan error, 1)
	go func() { served <- srv.Serve(lis) }()

	var scripted []*memnet.Conn
	var pipes []net.Conn
	healthy := func(tag, n int, what string) *ev.Failure {
		cEnd, sEnd := net.Pipe()
		pipes = append(pipes, cEnd, sEnd)
		cEnd.SetDeadline(time.Now().Add(promptDeadline))
		lis.Push(tls.Server(sEnd, cfg))
		tc := tls.Client(cEnd, &tls.Config{InsecureSkipVerify: true})
		if err := tc.Handshake(); err != nil {
			return ev.Failf("tls-conn-not-served", "%s: its TLS handshake did not complete within %v (%v): the server is not accepting / serving new connections", what, promptDeadline, err)
		}
		werr := make(chan error, 1)
		go func() {
			for s := 1; s <= n; s++ {
				if _, err := tc.Write(request(tag, s, false)); err != nil {
					werr <- err
					return
				}
			}
			werr <- nil
		}()
		for s := 1; s <= n; s++ {
			ci, sq, err := readAnswer(tc)
			if err != nil {
				return ev.Failf("request-unanswered", "%s: no answer to request %d of %d within %v (%v)", what, s, n, promptDeadline, err)
			}
			if ci != tag || sq != s {
				return ev.Failf("answers-garbled", "%s: answer %d carries connection tag %d seq %d", what, s, ci, sq)
			}
		}
		<-werr
		return nil
	}
	run := func() *ev.Failure {
		for i, tc := range c.Conns {
			switch tc.Kind {
			case "healthy":
				if f := healthy(i, tc.N, fmt.Sprintf("healthy TLS connection %d (opened after %d others)", i, i)); f != nil {
					return f
				}
			case "panic":
				// a TLS connection like the healthy ones (no client certificate): one request answered,
				// then one whose handler panics - that connection ends, nothing else does
				cEnd, sEnd := net.Pipe()
				pipes = append(pipes, cEnd, sEnd)
				cEnd.SetDeadline(time.Now().Add(promptDeadline))
				lis.Push(tls.Server(sEnd, cfg))
				pc := tls.Client(cEnd, &tls.Config{InsecureSkipVerify: true})
				if err := pc.Handshake(); err != nil {
					return ev.Failf("tls-conn-not-served", "TLS connection %d: handshake did not complete within %v (%v)", i, promptDeadline, err)
				}
				go pc.Write(request(i, 1, false))
				if _, _, err := readAnswer(pc); err != nil {
					return ev.Failf("request-unanswered", "TLS connection %d: no answer to its first request (%v)", i, err)
				}
				go pc.Write(request(i, 2, true))
				if _, _, err := readAnswer(pc); err == nil {
					return ev.Failf("faulty-conn-not-closed", "TLS connection %d: the request whose handler panics was answered", i)
				}
			default:
				mc := memnet.NewConn()
				mc.Remote = memnet.Addr{Net: "tcp", Str: fmt.Sprintf("10.9.7.%d:40000", i+1)}
				scripted = append(scripted, mc)
				switch tc.Kind {
				case "stall":
					mc.Feed(partialRecord(tc.Cut))
				case "junk":
					mc.Feed([]byte("GET /index.html HTTP/1.1\r\nHost: example\r\n\r\n"))
				case "hangup":
					mc.Feed(partialRecord(tc.Cut))
					mc.FeedEOF()
				}
				lis.Push(tls.Server(mc, cfg))
			}
		}
		if f := healthy(lateConn, 2, "a TLS connection opened after all faults"); f != nil {
			return f
		}
		select {
		case err := <-served:
			served <- err
			return ev.Failf("serve-returned", "Server.Serve returned (%v) although the listener was not closed", err)
		default:
		}
		// peers that sent junk or hung up: their connection is closed
		k := 0
		for _, tc := range c.Conns {
			if tc.Kind == "healthy" || tc.Kind == "panic" {
				continue
			}
			mc := scripted[k]
			k++
			if (tc.Kind == "junk" || tc.Kind == "hangup") && !mc.WaitClosed(promptDeadline) {
				return ev.Failf("faulty-conn-not-closed", "a TLS connection whose handshake failed (%s) was not closed within %v", tc.Kind, promptDeadline)
			}
		}
		return nil
	}
	fail := run()

	lis.Close()
	select {
	case <-served:
	case <-time.After(promptDeadline):
		if fail == nil {
			fail = ev.Failf("harness-serve", "Serve did not return within %v of closing the listener", promptDeadline)
		}
	}
	for _, mc := range scripted {
		mc.FeedEOF()
	}
	for _, mc := range scripted {
		if fail == nil && !mc.WaitClosed(promptDeadline) {
			fail = ev.Failf("faulty-conn-not-closed", "a TLS connection stalled in its handshake was not closed within %v of the peer's EOF", promptDeadline)
		}
		mc.Close()
	}
	for _, p := range pipes {
		p.Close()
	}
	close(stop)
	bg.Wait()
	return fail
}

var tlsProp = ev.Register(&ev.Prop[TLSCase]{
	ID: "C15", Name: "tls-accept",
	Rule: "Server.Serve on a listener that hands out *tls.Conn before the handshake (in-memory transports): 1..5 connections in sequence, each a healthy TLS client (1..3 requests, answered before the next opens), a peer that sends 0..211 bytes of a handshake record and falls silent, a peer that sends non-TLS bytes, a peer that hangs up inside the record, or a handshaken TLS client (no client certificate) whose second request makes the handler panic; every healthy connection and one opened after all others must complete its handshake and get its answers within 5 s, failed handshakes must leave their transport closed, Serve must not return; non-trivial = a stalled or failed handshake precedes a healthy connection",
	Gen: func(t *rapid.T) TLSCase {
		var c TLSCase
		n := rapid.IntRange(1, 5).Draw(t, "conns")
		for i := 0; i < n; i++ {
			tc := TConn{Kind: rapid.SampledFrom([]string{"healthy", "stall", "stall", "junk", "hangup", "panic"}).Draw(t, "kind")}
			switch tc.Kind {
			case "healthy":
				tc.N = rapid.IntRange(1, 3).Draw(t, "n")
			case "stall", "hangup":
				tc.Cut = rapid.SampledFrom([]int{0, 1, 5, 6, 11, 60, 211}).Draw(t, "cut")
			}
			c.Conns = append(c.Conns, tc)
		}
		return c
	},
	Run: runTLSCase,
	Classify: func(c TLSCase) (bool, []string) {
		var cl []string
		seen := map[string]bool{}
		fault := false
		for _, tc := range c.Conns {
			if !seen[tc.Kind] {
				seen[tc.Kind] = true
				cl = append(cl, "tls-peer:"+tc.Kind)
			}
			if tc.Kind != "healthy" {
				fault = true
			}
		}
		return fault, cl // the connection opened at the end is healthy
	},
	Attempts: 3,
})

func TestC15TLSAccept(t *testing.T) { tlsProp.Check(t, 120, 4000) }
