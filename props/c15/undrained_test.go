package c15

import (
	"fmt"
	"testing"
	"time"

	"github.com/fiorix/go-diameter/v4/diam"
	"github.com/fiorix/go-diameter/v4/diam/dict"

	"verif/internal/ev"
	"verif/internal/memnet"
	"verif/internal/refcodec"
)

// An application that never reads the ErrorReports channel: the report about undecodable input on
// one connection is OFFERED and stays pending. Whatever else the library wants to report
// afterwards - from the serving goroutine of a HEALTHY connection: a message without a handler,
// a second faulty peer - must not stop that healthy connection from being served.

type UndrainedFaultCase struct {
	Variant int  `json:"variant"` // kind of undecodable input on the faulty connections
	Served  bool `json:"served"`  // connections accepted by Server.Serve (else made with NewConn)
	Faulty  int  `json:"faulty"`  // faulty connections before the healthy one speaks (1..3)
}

func runUndrainedFault(c UndrainedFaultCase) *ev.Failure {
	mux := diam.NewServeMux() // ErrorReports never read
	mux.HandleFunc("DWR", func(cn diam.Conn, m *diam.Message) { m.Answer(2001).WriteTo(cn) })
	var lis *memnet.Listener
	if c.Served {
		lis = memnet.NewListener(c.Faulty + 1)
		srv := &diam.Server{Handler: mux, Dict: dict.Default}
		go srv.Serve(lis)
		defer lis.Close()
	}
	open := func() (*memnet.Conn, *ev.Failure) {
		mc := memnet.NewConn()
		if c.Served {
			lis.Push(mc)
			return mc, nil
		}
		if _, err := diam.NewConn(mc, "", mux, dict.Default); err != nil {
			return nil, ev.Failf("harness-conn", "%v", err)
		}
		return mc, nil
	}
	good, f := open()
	if f != nil {
		return f
	}
	var all = []*memnet.Conn{good}
	defer func() {
		for _, mc := range all {
			mc.FeedEOF()
			mc.WaitClosed(2 * time.Second)
			mc.Close()
		}
	}()
	desc := fmt.Sprintf("nobody reads ErrorReports; %d connection(s) sent undecodable input (variant %d)", c.Faulty, c.Variant%garbageVariants)
	for i := 0; i < c.Faulty; i++ {
		bad, f := open()
		if f != nil {
			return f
		}
		all = append(all, bad)
		bad.Feed(garbage(c.Variant + i))
		if !bad.WaitClosed(promptDeadline) {
			return ev.Failf("undrained:faulty-conn-not-closed", "%s: faulty connection %d was not closed within %v", desc, i, promptDeadline)
		}
	}
	// the healthy connection: a message nobody handles (reported, if there is room), then requests with a handler
	good.Feed(refcodec.EncodeMessage(refcodec.Header{Version: 1, Flags: 0x80, Code: 271, HopByHop: 5, EndToEnd: 5},
		[]*refcodec.Node{{Code: 263, Flags: 0x40, Payload: []byte("s;1")}}, false))
	for i := 0; i < 2; i++ {
		before := len(good.Writes())
		good.Feed(smDWR(uint32(300 + i)))
		if !good.WaitWrites(before+1, promptDeadline) || len(good.Writes()) <= before {
			return ev.Failf("undrained:healthy-connection-stalled", "%s; the healthy connection then sent a request nobody handles and watchdog request %d: no answer within %v", desc, i, promptDeadline)
		}
	}
	return nil
}

var undrainedFaultProp = ev.Register(&ev.Prop[UndrainedFaultCase]{
	ID: "C15", Name: "error-reports-nobody-reads",
	Rule: "a ServeMux whose ErrorReports channel nobody reads, 1..3 faulty connections (undecodable input, 9 variants) and a healthy one, accepted by Serve or made with NewConn; after the faults the healthy peer sends a request without a handler and two watchdog requests. Demanded: every faulty transport closed, both watchdog requests answered. Every case is non-trivial",
	Run:  runUndrainedFault,
	Classify: func(c UndrainedFaultCase) (bool, []string) {
		return true, []string{fmt.Sprintf("served:%v", c.Served), fmt.Sprintf("faulty:%d", c.Faulty)}
	},
})

func TestC15ErrorReportsNobodyReads(t *testing.T) {
	undrainedFaultProp.Enumerate(t, true, func(yield func(UndrainedFaultCase) bool) {
		for _, served := range []bool{true, false} {
			for faulty := 1; faulty <= 3; faulty++ {
				for v := 0; v < garbageVariants; v += ev.Pick(3, 1) {
					if !yield(UndrainedFaultCase{Variant: v, Served: served, Faulty: faulty}) {
						return
					}
				}
			}
		}
	})
}
