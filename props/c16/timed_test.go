package c16

// Part 5 of C16: answers that are due late, on servers with timeouts.
//
// "It is written to the transport stream the request arrived on": a Server's
// ReadTimeout limits how long the library waits for the next request and its
// WriteTimeout how long one write may take; neither says anything about how
// long a handler may take to produce its answer. So on a connection served by
// a diam.Server with any combination of the two timeouts (zero / non-zero), a
// handler that answers only after a delay LONGER than the ReadTimeout - a
// plain handler using m.Answer(rc), or the state machine's CEA / DWA path
// behind a slow front handler - must still get its answer onto the transport,
// with the mirrored header. Likewise a request that arrives after a pause
// longer than the WriteTimeout that followed the previous answer.
//
// Timing: the only clocks are time.Sleep in the handler / the feeder (lower
// bounds) and generous bounded waits. With a ReadTimeout every request is
// queued on the in-memory connection before the server starts, so no read of
// the library ever waits; the WriteTimeouts are 5 s (600 ms in the few pause
// cases, where the library arms it immediately before the write).

import (
	"fmt"
	"strings"
	"sync"
	"testing"
	"time"

	"github.com/fiorix/go-diameter/v4/diam"
	"github.com/fiorix/go-diameter/v4/diam/dict"
	"pgregory.net/rapid"

	"verif/internal/ev"
	"verif/internal/memnet"
	"verif/internal/refcodec"
)

// TimedCase is one connection served by a diam.Server over an in-memory listener.
type TimedCase struct {
	ReadTimeoutMs  int `json:"read_timeout_ms"`  // Server.ReadTimeout (0: none)
	WriteTimeoutMs int `json:"write_timeout_ms"` // Server.WriteTimeout (0: none)
	// SM: a server state machine behind a front handler that delays some requests before handing
	// them on (CER, then DWRs). Otherwise Reqs: a plain handler answering with m.Answer(rc).
	SM   *SMCase `json:"sm,omitempty"`
	Reqs []HReq  `json:"reqs,omitempty"`
	// Slow[k]: the answer to the k-th request is produced only DelayMs after the request was
	// handed to the handler. DelayMs exceeds ReadTimeoutMs.
	Slow    []bool `json:"slow"`
	DelayMs int    `json:"delay_ms"`
	// PauseMs > 0 (ReadTimeoutMs == 0 only): request k > 0 is sent PauseMs after the answer to
	// request k-1 was seen on the transport; PauseMs exceeds WriteTimeoutMs.
	PauseMs int `json:"pause_ms,omitempty"`
}

// slowFront delays the k-th message before handing it to the inner handler;
// error reports pass through.
type slowFront struct {
	inner diam.Handler
	slow  []bool
	delay time.Duration
	mu    sync.Mutex
	n     int
}

func (s *slowFront) ServeDIAM(c diam.Conn, m *diam.Message) {
	s.mu.Lock()
	k := s.n
	s.n++
	s.mu.Unlock()
	if k < len(s.slow) && s.slow[k] {
		time.Sleep(s.delay)
	}
	s.inner.ServeDIAM(c, m)
}

func (s *slowFront) Error(r *diam.ErrorReport) {
	if er, ok := s.inner.(diam.ErrorReporter); ok {
		er.Error(r)
	}
}

func (s *slowFront) ErrorReports() <-chan *diam.ErrorReport {
	return s.inner.(diam.ErrorReporter).ErrorReports()
}

// waitMessages waits until at least n whole messages were written to mc.
func waitMessages(mc *memnet.Conn, n int, timeout time.Duration) bool {
	deadline := time.Now().Add(timeout)
	for {
		msgs, _, _ := refcodec.SplitMessages(mc.Written())
		if len(msgs) >= n {
			return true
		}
		if closed, _ := mc.Closed(); closed || time.Now().After(deadline) {
			msgs, _, _ = refcodec.SplitMessages(mc.Written())
			return len(msgs) >= n
		}
		time.Sleep(time.Millisecond)
	}
}

func (c *TimedCase) config() string {
	return fmt.Sprintf("Server{ReadTimeout: %dms, WriteTimeout: %dms}", c.ReadTimeoutMs, c.WriteTimeoutMs)
}

func runTimed(c TimedCase) *ev.Failure {
	if c.PauseMs > 0 && c.ReadTimeoutMs > 0 {
		return ev.Failf("harness-case", "a pause between requests needs ReadTimeout 0 (the library would rightly give up on the idle connection)")
	}
	if c.ReadTimeoutMs > 0 && c.DelayMs <= c.ReadTimeoutMs {
		return ev.Failf("harness-case", "the delay (%d ms) must exceed the ReadTimeout (%d ms)", c.DelayMs, c.ReadTimeoutMs)
	}
	var (
		reqs   []Req
		images [][]byte
		names  []string
		codes  []uint32
		rcs    []uint32
		inner  diam.Handler
		d      *drain
		hmu    sync.Mutex
		herr   []string
	)
	if c.SM != nil {
		reqs, images, names = c.SM.requests()
		for i := range reqs {
			if i == 0 {
				codes = append(codes, codeCER)
			} else {
				codes = append(codes, codeDWR)
			}
			rcs = append(rcs, 1)
		}
		machine := c.SM.machine()
		d = startDrain(machine.ErrorReports())
		inner = machine
	} else {
		mux := diam.NewServeMux()
		d = startDrain(mux.ErrorReports())
		mux.HandleFunc("ALL", func(conn diam.Conn, m *diam.Message) {
			fail := func(s string) { hmu.Lock(); herr = append(herr, s); hmu.Unlock() }
			if len(m.AVP) != 1 || m.AVP[0].Code != viaAVP {
				fail(fmt.Sprintf("request without the instruction AVP: %v", m))
				return
			}
			p := m.AVP[0].Data.Serialize()
			if len(p) != 8 {
				fail(fmt.Sprintf("instruction AVP of %d bytes", len(p)))
				return
			}
			a := m.Answer(refcodec.Get32(p[4:]))
			var err error
			if p[0] == 1 {
				var b []byte
				if b, err = a.Serialize(); err == nil {
					_, err = conn.Write(b)
				}
			} else {
				_, err = a.WriteTo(conn)
			}
			if err != nil {
				fail(fmt.Sprintf("writing the answer to the request with hop-by-hop id %#x: %v", m.Header.HopByHopID, err))
			}
		})
		inner = mux
		for i := range c.Reqs {
			r := &c.Reqs[i]
			cmd := requestCmds()[r.CmdIdx%len(requestCmds())]
			rq := r.Req
			rq.App = cmd.App
			reqs, names, codes, rcs = append(reqs, rq), append(names, "answer"), append(codes, cmd.Code), append(rcs, r.RC)
			images = append(images, r.image())
		}
	}
	defer d.end()
	if len(reqs) == 0 {
		return nil
	}
	delay := time.Duration(c.DelayMs) * time.Millisecond
	front := &slowFront{inner: inner, slow: c.Slow, delay: delay}
	mc := memnet.NewConn()
	lis := memnet.NewListener(1)
	srv := &diam.Server{Handler: front, Dict: dict.Default,
		ReadTimeout: time.Duration(c.ReadTimeoutMs) * time.Millisecond, WriteTimeout: time.Duration(c.WriteTimeoutMs) * time.Millisecond}
	defer lis.Close()
	defer mc.Close()
	herrText := func() string {
		hmu.Lock()
		defer hmu.Unlock()
		if len(herr) == 0 {
			return ""
		}
		return "; the handler reports: " + strings.Join(herr, " | ")
	}
	describe := func(k int) string {
		how := "answered at once"
		if k < len(c.Slow) && c.Slow[k] {
			how = fmt.Sprintf("answered %d ms after it was handed to the handler", c.DelayMs)
		}
		if c.PauseMs > 0 && k > 0 {
			how += fmt.Sprintf(", sent %d ms after the previous answer was seen", c.PauseMs)
		}
		return how
	}
	if c.PauseMs == 0 {
		// everything is there before the server starts: none of its reads ever waits
		for _, img := range images {
			mc.Feed(img)
		}
		mc.FeedEOF()
		go srv.Serve(lis)
		lis.Push(mc)
	} else {
		go srv.Serve(lis)
		lis.Push(mc)
		for k, img := range images {
			if k > 0 {
				if !waitMessages(mc, k, waitFor) {
					break // reported below: fewer answers than requests
				}
				time.Sleep(time.Duration(c.PauseMs) * time.Millisecond)
			}
			mc.Feed(img)
		}
		waitMessages(mc, len(images), waitFor)
		mc.FeedEOF()
	}
	if !mc.WaitClosed(waitFor + time.Duration(len(reqs))*delay) {
		return ev.Failf("harness-no-close", "%s: the connection was not closed within %v of the end of input%s", c.config(), waitFor, d.text())
	}
	msgs, tail, err := refcodec.SplitMessages(mc.Written())
	if err != nil || len(tail) != 0 {
		return ev.Failf("timed-output-malformed", "%s: what was written to the connection does not split into messages: %v, %d trailing bytes", c.config(), err, len(tail))
	}
	kind := "handler"
	if c.SM != nil {
		kind = "state-machine"
	}
	if len(msgs) != len(reqs) {
		// which request has no answer: the answers of this scenario come in request order
		missing := len(msgs)
		for i, img := range msgs {
			if h, err := refcodec.DecodeHeader(img); err == nil && i < len(reqs) && (h.HopByHop != reqs[i].HbH || h.Code != codes[i]) {
				missing = i
				break
			}
		}
		what := ""
		if missing < len(reqs) {
			what = fmt.Sprintf("; request %d (command %d, hop-by-hop id %#x, %s) has no answer on the connection it arrived on", missing, codes[missing], reqs[missing].HbH, describe(missing))
		}
		return ev.Failf("timed-answer-not-written:"+kind, "%s, %s: %d requests arrived on the connection and %d answers were written to it%s%s%s", c.config(), kind, len(reqs), len(msgs), what, herrText(), d.text())
	}
	for i, img := range msgs {
		if f := checkAnswerImage(names[i], i, reqs[i], codes[i], img, d.text(), true, rcs[i] != 0); f != nil {
			f.Detail = c.config() + ", request " + describe(i) + ": " + f.Detail
			return f
		}
	}
	if t := herrText(); t != "" {
		return ev.Failf("harness-handler", "%s%s", c.config(), t)
	}
	return nil
}

func genTimed(t *rapid.T) TimedCase {
	var c TimedCase
	// the four combinations of the two timeouts
	combo := rapid.SampledFrom([]int{1, 1, 1, 0, 2, 3}).Draw(t, "timeouts") // bit 0: read, bit 1: write
	if combo&1 != 0 {
		c.ReadTimeoutMs = rapid.IntRange(30, 50).Draw(t, "read-timeout-ms")
	}
	if combo&2 != 0 {
		c.WriteTimeoutMs = 5000
	}
	c.DelayMs = c.ReadTimeoutMs + rapid.IntRange(15, 25).Draw(t, "delay-over-read-timeout-ms")
	if c.ReadTimeoutMs == 0 {
		c.DelayMs = rapid.IntRange(20, 40).Draw(t, "delay-ms")
	}
	n := 0
	if rapid.IntRange(0, 2).Draw(t, "state-machine") == 0 {
		s := genSMBase(t)
		s.Kind = rapid.SampledFrom([]string{cerOKAuth, cerOKAcct, cerOKAuth, cerUnsupported}).Draw(t, "cer-kind")
		if s.accepted() && len(s.DWRs) == 0 {
			s.DWRs = append(s.DWRs, genReq(t, "dwr"))
		}
		if !s.accepted() {
			s.DWRs = nil
		}
		if len(s.DWRs) > 3 {
			s.DWRs = s.DWRs[:3]
		}
		c.SM = &s
		n = 1 + len(s.DWRs)
	} else {
		n = rapid.IntRange(1, 4).Draw(t, "requests")
		for i := 0; i < n; i++ {
			l := fmt.Sprintf("req%d", i)
			r := HReq{Req: genReq(t, l), CmdIdx: rapid.IntRange(0, len(requestCmds())-1).Draw(t, l+"-cmd")}
			r.App, r.State = 0, 0
			r.RC = rapid.SampledFrom(resultCodes).Draw(t, l+"-rc")
			r.Via = rapid.SampledFrom([]string{"WriteTo", "WriteTo", "Write"}).Draw(t, l+"-via")
			c.Reqs = append(c.Reqs, r)
		}
	}
	// one or two slow answers per connection (each costs the delay)
	c.Slow = make([]bool, n)
	c.Slow[rapid.IntRange(0, n-1).Draw(t, "slow")] = true
	if n > 1 && rapid.Bool().Draw(t, "second-slow") {
		c.Slow[rapid.IntRange(0, n-1).Draw(t, "slow2")] = true
	}
	if c.ReadTimeoutMs == 0 && n > 1 && rapid.IntRange(0, 3).Draw(t, "pause") == 0 {
		// a request that comes after a pause longer than the write timeout of the previous answer
		c.WriteTimeoutMs = 600
		c.PauseMs = 700
		if n > 2 {
			if c.SM != nil {
				c.SM.DWRs = c.SM.DWRs[:1]
			} else {
				c.Reqs = c.Reqs[:2]
			}
			c.Slow = c.Slow[:2]
		}
	}
	return c
}

func classifyTimed(c TimedCase) (bool, []string) {
	cl := map[string]bool{}
	switch {
	case c.ReadTimeoutMs > 0 && c.WriteTimeoutMs > 0:
		cl["read-and-write-timeout"] = true
	case c.ReadTimeoutMs > 0:
		cl["read-timeout-only"] = true
	case c.WriteTimeoutMs > 0:
		cl["write-timeout-only"] = true
	default:
		cl["no-timeouts"] = true
	}
	slow := 0
	for _, s := range c.Slow {
		if s {
			slow++
		}
	}
	cl[fmt.Sprintf("slow-answers:%d", slow)] = true
	if c.SM != nil {
		cl["state-machine"] = true
		cl["cer:"+c.SM.Kind] = true
		if len(c.Slow) > 0 && c.Slow[0] {
			cl["slow-cea"] = true
		}
		for i := 1; i < len(c.Slow); i++ {
			if c.Slow[i] {
				cl["slow-dwa"] = true
			}
		}
	} else {
		cl["handler"] = true
		for _, r := range c.Reqs {
			cl["via:"+r.Via] = true
		}
	}
	if c.PauseMs > 0 {
		cl["request-after-a-pause-longer-than-the-write-timeout"] = true
	}
	return (c.ReadTimeoutMs > 0 || c.WriteTimeoutMs > 0) && (slow > 0 || c.PauseMs > 0), keys(cl)
}

var timedProp = ev.Register(&ev.Prop[TimedCase]{
	ID: "C16", Name: "timed",
	Rule: "a connection served by a diam.Server over an in-memory listener with the four combinations of ReadTimeout (0 / 30..50 ms) and WriteTimeout (0 / 5 s): 1..4 requests answered by a plain handler with m.Answer(rc) through WriteTo or Serialize + Write, or a CER (accepted / rejected) and 1..3 DWRs answered by a server state machine behind a front handler; one or two of the requests are answered only after a delay that EXCEEDS the ReadTimeout (15..25 ms more; all requests are queued before the server starts, so that no read of the library ever waits). " +
		"1 in 4 of the cases without ReadTimeout: WriteTimeout 600 ms and the second request is sent 700 ms after the first answer was seen. Demanded: one answer per request on the connection, in order, each with the command code, application id, both identifiers, R cleared, P unchanged and (state machine, rc != 0) a Result-Code. " +
		"non-trivial = some timeout is set and some answer is slow or some request comes after the pause; distinct by case",
	Gen: genTimed, Run: runTimed, Classify: classifyTimed, Attempts: 3,
})

func TestC16Timed(t *testing.T) { timedProp.Check(t, 24, 600) }

// The four timeout combinations, hand-written: a slow plain answer, and a slow CEA followed by a slow DWA.
func TestC16TimedCanonical(t *testing.T) {
	req := func(hbh uint32, via string) HReq {
		return HReq{Req: Req{HbH: hbh, E2E: hbh ^ 0xffff, Flags: rFlag | pFlag}, CmdIdx: 0, RC: 2001, Via: via}
	}
	for _, to := range [][2]int{{40, 0}, {0, 0}, {0, 5000}, {40, 5000}} {
		delay := to[0] + 20
		timedProp.One(t, TimedCase{ReadTimeoutMs: to[0], WriteTimeoutMs: to[1], DelayMs: delay,
			Reqs: []HReq{req(0xb1, "WriteTo"), req(0, "Write"), req(0xb3, "WriteTo")}, Slow: []bool{true, false, true}})
		timedProp.One(t, TimedCase{ReadTimeoutMs: to[0], WriteTimeoutMs: to[1], DelayMs: delay,
			SM:   &SMCase{Kind: cerOKAuth, CER: Req{HbH: 0xc1, E2E: 0, Flags: rFlag}, DWRs: []Req{{HbH: 0, E2E: 0xd2, Flags: rFlag}, {HbH: 0xc3, E2E: 0xd3, Flags: rFlag | pFlag}}},
			Slow: []bool{true, false, true}})
	}
}
