// C16 - Answers mirror the request they answer.
//
// Part 1 (this file): Message.Answer on requests obtained through the message
// API, decoded from the wire, or read from a stream of an in-memory SCTP
// association. Parts 2 to 4 (sm_test.go): the CEA / DWA a state machine puts
// on the wire, and the transport stream answers are written to (requests one
// after the other or interleaved in chunks over several streams; the client
// side). Part 5 (timed_test.go): answers that are due later than a Server's
// ReadTimeout / after a pause longer than its WriteTimeout.
package c16

import (
	"bytes"
	"fmt"
	"io"
	"log"
	"testing"

	"github.com/fiorix/go-diameter/v4/diam"
	"github.com/fiorix/go-diameter/v4/diam/datatype"
	"pgregory.net/rapid"

	"verif/internal/ev"
	"verif/internal/gen"
	"verif/internal/memnet"
	"verif/internal/refcodec"
)

func init() { log.SetOutput(io.Discard) }

const (
	rFlag          = 0x80
	pFlag          = 0x40
	resultCodeAVP  = 268
	avpMFlag       = 0x40
	avpVFlag       = 0x80
	reqAVPCode     = 0x00fffff1 // defined by no dictionary: carried as Unknown
	arbitraryID    = 0x5ea84a95
	routeNew       = "new"  // diam.NewMessage as it is (zero ids are replaced by the constructor: the request then HAS those ids)
	routeSet       = "set"  // diam.NewMessage, then the identifiers are stored in the header
	routeWire      = "wire" // decoded by diam.ReadMessage from a reference wire image
	routeSCTP      = "sctp" // read by diam.ReadMessage from stream Stream of an in-memory SCTP association
	invalidStreamU = ^uint(0)
)

var boundaryIDs = []uint32{0, 1, 1 << 31, 0xffffffff, arbitraryID}
var resultCodes = []uint32{0, 2001, 1, 5012, 0xffffffff, 1 << 31, 1001, 3002}

// AnswerCase is one request header and the result code asked for.
type AnswerCase struct {
	Dict    gen.DictChoice `json:"dict"`
	Route   string         `json:"route"`
	Code    uint32         `json:"code"`
	App     uint32         `json:"app"`
	Flags   uint8          `json:"flags"`
	HbH     uint32         `json:"hbh"`
	E2E     uint32         `json:"e2e"`
	RC      uint32         `json:"rc"`
	Stream  uint16         `json:"stream"`
	ReqAVPs int            `json:"req_avps"`
}

func (c *AnswerCase) refRequest() []byte {
	var nodes []*refcodec.Node
	for i := 0; i < c.ReqAVPs; i++ {
		nodes = append(nodes, &refcodec.Node{Code: reqAVPCode + uint32(i), Flags: 0, Payload: []byte(fmt.Sprintf("request-avp-%d", i))})
	}
	return refcodec.EncodeMessage(refcodec.Header{Version: 1, Flags: c.Flags, Code: c.Code, App: c.App, HopByHop: c.HbH, EndToEnd: c.E2E}, nodes, false)
}

// want describes the header an answer must mirror.
type want struct {
	code, app, hbh, e2e uint32
	flags               uint8
}

func idSig(prefix string, wanted uint32) string {
	if wanted == 0 {
		return prefix + "-zero-id"
	}
	return prefix + "-id"
}

// checkMirror compares an answer header (as decoded by the reference codec or
// copied from the library's struct) with the request's.
func checkMirror(prefix, where string, w want, code, app, hbh, e2e uint32, flags uint8) *ev.Failure {
	if code != w.code {
		return ev.Failf(prefix+"-command", "%s: command code %d, the request has %d", where, code, w.code)
	}
	if app != w.app {
		return ev.Failf(prefix+"-application", "%s: application id %d, the request has %d", where, app, w.app)
	}
	if hbh != w.hbh {
		return ev.Failf(idSig(prefix, w.hbh), "%s: hop-by-hop id %#08x, the request has %#08x (end-to-end: answer %#08x, request %#08x)", where, hbh, w.hbh, e2e, w.e2e)
	}
	if e2e != w.e2e {
		return ev.Failf(idSig(prefix, w.e2e), "%s: end-to-end id %#08x, the request has %#08x", where, e2e, w.e2e)
	}
	if flags&rFlag != 0 {
		return ev.Failf(prefix+"-r-bit", "%s: flags %#02x still carry the request bit (request flags %#02x)", where, flags, w.flags)
	}
	if flags&pFlag != w.flags&pFlag {
		return ev.Failf(prefix+"-p-bit", "%s: flags %#02x, request flags %#02x: the proxiable bit changed", where, flags, w.flags)
	}
	return nil
}

// findResultCode looks for a top-level Result-Code in a framed body.
func findResultCode(recs []*refcodec.Record) (idx int, r *refcodec.Record) {
	for i, x := range recs {
		if x.Code == resultCodeAVP {
			return i, x
		}
	}
	return -1, nil
}

func runAnswer(c AnswerCase) *ev.Failure {
	p, _, err := c.Dict.Load()
	if err != nil {
		return ev.Failf("harness-dict", "%v", err)
	}
	var m *diam.Message
	switch c.Route {
	case routeNew, routeSet:
		m = diam.NewMessage(c.Code, c.Flags, c.App, c.HbH, c.E2E, p)
		if c.Route == routeSet {
			m.Header.HopByHopID, m.Header.EndToEndID = c.HbH, c.E2E
		}
		for i := 0; i < c.ReqAVPs; i++ {
			m.NewAVP(reqAVPCode+uint32(i), 0, 0, datatype.OctetString(fmt.Sprintf("request-avp-%d", i)))
		}
	case routeWire:
		m, err = diam.ReadMessage(bytes.NewReader(c.refRequest()), p)
		if err != nil {
			return ev.Failf("harness-read", "the reference image of the request was rejected: %v", err)
		}
	case routeSCTP:
		be := memnet.NewSCTP()
		be.Feed(memnet.Chunk{Stream: c.Stream, Data: c.refRequest()})
		be.FeedEOF()
		m, err = diam.ReadMessage(diam.NewVerifSCTPConn(be), p)
		be.Close()
		if err != nil {
			return ev.Failf("harness-read", "the reference image of the request was rejected on stream %d: %v", c.Stream, err)
		}
		if m.MessageStream() != uint(c.Stream) {
			return ev.Failf("request-stream", "request fed on stream %d reports stream %d", c.Stream, m.MessageStream())
		}
	default:
		return ev.Failf("harness-case", "unknown route %q", c.Route)
	}
	// the request as it is in front of Answer
	w := want{code: m.Header.CommandCode, app: m.Header.ApplicationID, hbh: m.Header.HopByHopID, e2e: m.Header.EndToEndID, flags: m.Header.CommandFlags}
	if c.Route != routeNew && (w.hbh != c.HbH || w.e2e != c.E2E) || w.code != c.Code || w.app != c.App || w.flags != c.Flags {
		return ev.Failf("harness-request", "the request does not have the header of the case: %+v", *m.Header)
	}
	reqStream := m.MessageStream()

	a := m.Answer(c.RC)
	if a == nil || a.Header == nil {
		return ev.Failf("answer-nil", "Answer(%d) returned no message", c.RC)
	}
	where := fmt.Sprintf("Answer(%d) of a request (%s) with flags %#02x, ids %#x/%#x", c.RC, c.Route, w.flags, w.hbh, w.e2e)
	if f := checkMirror("answer", where, w, a.Header.CommandCode, a.Header.ApplicationID, a.Header.HopByHopID, a.Header.EndToEndID, a.Header.CommandFlags); f != nil {
		return f
	}
	// Result-Code: first AVP iff a result code was asked for
	if c.RC != 0 {
		if len(a.AVP) == 0 || a.AVP[0] == nil || a.AVP[0].Code != resultCodeAVP {
			return ev.Failf("answer-result-code", "%s: the first AVP is not Result-Code (%d AVPs)", where, len(a.AVP))
		}
		r := a.AVP[0]
		v, ok := r.Data.(datatype.Unsigned32)
		if !ok || uint32(v) != c.RC || r.Flags&avpMFlag == 0 || r.Flags&avpVFlag != 0 || r.VendorID != 0 {
			return ev.Failf("answer-result-code", "%s: Result-Code AVP is %v (flags %#02x vendor %d), want Unsigned32 %d with the M flag", where, r.Data, r.Flags, r.VendorID, c.RC)
		}
	} else {
		for i, x := range a.AVP {
			if x != nil && x.Code == resultCodeAVP && x.VendorID == 0 {
				return ev.Failf("answer-result-code-unasked", "%s: no result code was asked for but AVP %d is a Result-Code (%v)", where, i, x.Data)
			}
		}
	}
	if a.MessageStream() != reqStream {
		return ev.Failf("answer-stream", "%s: the request reports stream %d, its answer stream %d", where, int(reqStream), int(a.MessageStream()))
	}
	// the same, observed on the wire image of the answer
	b, err := a.Serialize()
	if err != nil {
		return ev.Failf("answer-serialize", "%s: Serialize: %v", where, err)
	}
	h, err := refcodec.DecodeHeader(b)
	if err != nil || int(h.Length) != len(b) {
		return ev.Failf("answer-serialize", "%s: wire image of %d bytes, header %+v (%v)", where, len(b), h, err)
	}
	if f := checkMirror("answer", where+" [wire image]", w, h.Code, h.App, h.HopByHop, h.EndToEnd, h.Flags); f != nil {
		return f
	}
	recs, err := refcodec.Frame(b[20:])
	if err != nil {
		return ev.Failf("answer-serialize", "%s: body of the wire image does not frame: %v", where, err)
	}
	i, r := findResultCode(recs)
	if c.RC != 0 {
		if i != 0 || r.Flags&avpMFlag == 0 || r.Flags&avpVFlag != 0 || len(r.Payload) != 4 || refcodec.Get32(r.Payload) != c.RC {
			return ev.Failf("answer-result-code", "%s: wire image: Result-Code at index %d: %+v", where, i, r)
		}
	} else if i >= 0 {
		return ev.Failf("answer-result-code-unasked", "%s: wire image carries a Result-Code at index %d although none was asked for", where, i)
	}
	// the owner of this answer may go on editing it (downgrade the result, add AVPs): that must
	// not reach the answers built later, for this or any other request
	if c.RC != 0 && len(a.AVP) > 0 {
		a.AVP[0].Data = datatype.Unsigned32(c.RC ^ 0x5a5a5a5a)
		a.AVP[0].Flags = 0
	}
	return nil
}

// feasibleRoutes lists the ways a request with this header can be obtained.
// The decoding routes need the command in the dictionary with a rule list
// for the direction the R bit names (ReadMessage rejects the others).
func feasibleRoutes(cat *gen.Catalog, code, app uint32, flags uint8) []string {
	routes := []string{routeSet, routeNew}
	dc, err := cat.P.FindCommand(app, code)
	if err == nil && dc != nil {
		if flags&rFlag != 0 && len(dc.Request.Rule) > 0 || flags&rFlag == 0 && len(dc.Answer.Rule) > 0 {
			routes = append(routes, routeWire, routeSCTP)
		}
	}
	return routes
}

func genAnswer(t *rapid.T) AnswerCase {
	c := AnswerCase{Dict: gen.PickDict(t)}
	_, cat, err := c.Dict.Load()
	if err != nil {
		t.Fatalf("harness: %v", err)
	}
	if len(cat.Cmds) > 0 {
		c.Flags, c.Code, c.App, c.HbH, c.E2E = cat.Header(t)
	} else {
		c.Flags, c.Code, c.App = rapid.Byte().Draw(t, "flags"), rapid.Uint32Range(0, 1<<24-1).Draw(t, "code"), gen.U32(t, "app")
	}
	if rapid.IntRange(0, 3).Draw(t, "request-proper") != 0 {
		c.Flags |= rFlag
	}
	if rapid.IntRange(0, 5).Draw(t, "undefined-command") == 0 {
		c.Code = rapid.Uint32Range(0, 1<<24-1).Draw(t, "code")
	}
	id := func(label string) uint32 {
		if rapid.Bool().Draw(t, label+"-boundary") {
			return rapid.SampledFrom(boundaryIDs).Draw(t, label)
		}
		return rapid.Uint32().Draw(t, label)
	}
	c.HbH, c.E2E = id("hbh"), id("e2e")
	if rapid.Bool().Draw(t, "rc-listed") {
		c.RC = rapid.SampledFrom(resultCodes).Draw(t, "rc")
	} else {
		c.RC = gen.U32(t, "rc")
	}
	c.Route = rapid.SampledFrom(feasibleRoutes(cat, c.Code, c.App, c.Flags)).Draw(t, "route")
	if c.Route == routeSCTP {
		c.Stream = drawStream(t, "stream")
	}
	c.ReqAVPs = rapid.IntRange(0, 2).Draw(t, "request-avps")
	return c
}

func classifyAnswer(c AnswerCase) (bool, []string) {
	cl := []string{"route:" + c.Route, "dict:" + c.Dict.Name}
	switch {
	case c.HbH == 0 && c.E2E == 0:
		cl = append(cl, "both-ids-zero")
	case c.HbH == 0 || c.E2E == 0:
		cl = append(cl, "one-id-zero")
	}
	if c.HbH == 0xffffffff || c.E2E == 0xffffffff || c.HbH == 1<<31 || c.E2E == 1<<31 {
		cl = append(cl, "id-2^31-or-2^32-1")
	}
	if c.RC == 0 {
		cl = append(cl, "rc=0")
	} else {
		cl = append(cl, "rc!=0")
	}
	if c.Flags&rFlag != 0 {
		cl = append(cl, "R-set")
	} else {
		cl = append(cl, "R-clear")
	}
	if c.Flags&pFlag != 0 {
		cl = append(cl, "P-set")
	}
	if c.Flags&0x3f != 0 {
		cl = append(cl, "other-flag-bits")
	}
	if c.Route == routeSCTP && c.Stream != 0 {
		cl = append(cl, "stream>0")
	}
	if c.ReqAVPs > 0 {
		cl = append(cl, "request-has-avps")
	}
	// every header is a case of its own; the ones with the R bit are requests proper
	return c.Flags&rFlag != 0, cl
}

var answerProp = ev.Register(&ev.Prop[AnswerCase]{
	ID: "C16", Name: "answer",
	Rule: "request header = command/application of the dictionary (dict.Default, the embedded per-file configurations, generated dictionaries; sometimes an undefined command), any flag byte, " +
		"hop-by-hop and end-to-end id each from {0, 1, 2^31, 2^32-1, arbitrary} or random, 0..2 AVPs; obtained through NewMessage (as it is / ids stored afterwards), ReadMessage from a reference image, " +
		"or ReadMessage from stream 0..15 of an in-memory SCTP association; result code from {0, 2001, 1, 5012, 2^32-1, ...} or random. Demanded of Answer(rc), on the struct and on its serialised image " +
		"read by the reference codec: same command code, application id, both ids; R cleared; P unchanged; first AVP Result-Code (M, Unsigned32 rc) iff rc != 0, no Result-Code otherwise; same MessageStream(). " +
		"non-trivial = the request carries the R bit",
	Gen: genAnswer, Run: runAnswer, Classify: classifyAnswer,
})

// The 25 id pairs x 256 flag bytes, exhaustively; command, result code and
// route rotate.
func enumerateIDsFlags(yield func(AnswerCase) bool) {
	d := gen.DictChoice{Name: "default"}
	_, cat, err := d.Load()
	if err != nil {
		panic(err)
	}
	n := 0
	for _, h := range boundaryIDs {
		for _, e := range boundaryIDs {
			for f := 0; f < 256; f++ {
				cmd := cat.Cmds[n%len(cat.Cmds)]
				c := AnswerCase{Dict: d, Code: cmd.Code, App: cmd.App, Flags: uint8(f), HbH: h, E2E: e,
					RC: resultCodes[(n/3)%len(resultCodes)], ReqAVPs: n % 3, Stream: uint16(n % 16)}
				routes := feasibleRoutes(cat, c.Code, c.App, c.Flags)
				// prefer the decoding routes when they exist, the API route every fourth time
				c.Route = routes[len(routes)-1-(n/5)%2]
				if n%4 == 3 || len(routes) == 2 {
					c.Route = routeSet
				}
				if c.Route != routeSCTP {
					c.Stream = 0
				}
				n++
				if !yield(c) {
					return
				}
			}
		}
	}
}

// Every command / application of every embedded dictionary configuration.
func enumerateCommands(yield func(AnswerCase) bool) {
	n := 0
	for _, name := range gen.EmbeddedNames() {
		d := gen.DictChoice{Name: name}
		_, cat, err := d.Load()
		if err != nil {
			panic(err)
		}
		for _, cmd := range cat.Cmds {
			for _, f := range []uint8{0x80, 0xc0, 0x90, 0x00, 0x40} {
				for _, ids := range [][2]uint32{{0, 0}, {0, arbitraryID}, {arbitraryID, 0}, {0xffffffff, 1}} {
					for _, rc := range []uint32{0, 2001} {
						c := AnswerCase{Dict: d, Code: cmd.Code, App: cmd.App, Flags: f, HbH: ids[0], E2E: ids[1], RC: rc, ReqAVPs: n % 2}
						routes := feasibleRoutes(cat, c.Code, c.App, c.Flags)
						c.Route = routes[n%len(routes)]
						if c.Route == routeSCTP {
							c.Stream = uint16(n % 16)
						}
						n++
						if !yield(c) {
							return
						}
					}
				}
			}
		}
	}
}

func TestC16AnswerIDsFlagsExhaustive(t *testing.T) { answerProp.Enumerate(t, true, enumerateIDsFlags) }
func TestC16AnswerEveryCommand(t *testing.T)       { answerProp.Enumerate(t, true, enumerateCommands) }
func TestC16AnswerRandom(t *testing.T)             { answerProp.Check(t, 3000, 200000) }
func TestC16Keep(t *testing.T)                     { ev.RunKeep(t, "C16") }
func TestReplay(t *testing.T)                      { ev.Replay(t) }

// drawStream: every inbound stream number - the ones two default peers negotiate (0..15) and,
// because an association may be set up with more streams, the rest of the 16-bit range.
func drawStream(t *rapid.T, label string) uint16 {
	if rapid.IntRange(0, 2).Draw(t, label+"-high") == 0 {
		return rapid.SampledFrom([]uint16{16, 17, 31, 32, 100, 255, 256, 32767, 32768, 65534, 65535}).Draw(t, label)
	}
	return uint16(rapid.IntRange(0, 15).Draw(t, label))
}
