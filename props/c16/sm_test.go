package c16

// Parts 2 and 3 of C16: answers observed on the transport.
//
//   sm-wire  a server state machine behind diam.NewConn over an in-memory
//            TCP-style connection: the CEA (success and error) and the DWAs
//            it writes, parsed with the reference codec.
//   stream   the same state machine, or a plain handler answering with
//            m.Answer(rc), over the in-memory SCTP backend: every answer must
//            be recorded on the stream its request arrived on.

import (
	"fmt"
	"io"
	"net"
	"strings"
	"sync"
	"testing"
	"time"

	"github.com/fiorix/go-diameter/v4/diam"
	"github.com/fiorix/go-diameter/v4/diam/datatype"
	"github.com/fiorix/go-diameter/v4/diam/dict"
	"github.com/fiorix/go-diameter/v4/diam/sm"
	"pgregory.net/rapid"

	"verif/internal/ev"
	"verif/internal/gen"
	"verif/internal/memnet"
	"verif/internal/refcodec"
)

const (
	waitFor = 10 * time.Second

	cerOKAuth      = "ok-auth-4"
	cerOKAcct      = "ok-acct-3"
	cerNoHost      = "reject-no-origin-host"
	cerUnsupported = "reject-unsupported-application"
	cerVFlagApp    = "reject-application-avp-with-v-flag" // Auth-Application-Id carrying the V flag and a vendor id: not the AVP the CER grammar names
	cerVFlagMember = "reject-vsa-member-with-v-flag"      // the same inside a Vendor-Specific-Application-Id group

	codeCER = 257
	codeDWR = 280
)

// Req is the generated part of a request header.
type Req struct {
	HbH    uint32 `json:"hbh"`
	E2E    uint32 `json:"e2e"`
	Flags  uint8  `json:"flags"` // always carries R
	App    uint32 `json:"app"`
	State  uint32 `json:"origin_state_id"` // 0: no Origin-State-Id AVP
	Stream uint16 `json:"stream"`          // SCTP scenarios
	Split  int    `json:"split"`           // > 0: the request arrives in two pieces, the first of Split bytes
}

// SMCase is one connection served by a state machine.
type SMCase struct {
	Kind     string `json:"kind"` // which CER
	Inband   bool   `json:"inband_security_0"`
	CER      Req    `json:"cer"`
	DWRs     []Req  `json:"dwrs"`
	HostIPs  bool   `json:"settings_host_ips"` // Settings.HostIPAddresses set (otherwise taken from the local address)
	Firmware bool   `json:"settings_firmware"`
}

func str(code uint32, flags uint8, s string) *refcodec.Node {
	return &refcodec.Node{Code: code, Flags: flags, Payload: []byte(s)}
}
func u32(code uint32, flags uint8, v uint32) *refcodec.Node {
	return &refcodec.Node{Code: code, Flags: flags, Payload: refcodec.U32(v)}
}

func (c *SMCase) accepted() bool { return c.Kind == cerOKAuth || c.Kind == cerOKAcct }

func (c *SMCase) cerBytes() []byte {
	var n []*refcodec.Node
	if c.Kind != cerNoHost {
		n = append(n, str(264, 0x40, "peer.example.org"))
	}
	n = append(n, str(296, 0x40, "example.org"),
		&refcodec.Node{Code: 257, Flags: 0x40, Payload: refcodec.Address(1, []byte{10, 9, 8, 7})},
		u32(266, 0x40, 99), str(269, 0, "verif-peer"))
	if c.CER.State != 0 {
		n = append(n, u32(278, 0x40, c.CER.State))
	}
	switch c.Kind {
	case cerOKAuth, cerNoHost:
		n = append(n, u32(258, 0x40, 4))
	case cerOKAcct:
		n = append(n, u32(259, 0x40, 3))
	case cerUnsupported:
		n = append(n, u32(258, 0x40, 999999))
	case cerVFlagApp:
		n = append(n, &refcodec.Node{Code: 258, Flags: 0xc0, Vendor: 10415, Payload: refcodec.U32(4)})
	case cerVFlagMember:
		n = append(n, &refcodec.Node{Code: 260, Flags: 0x40, Group: true, Children: []*refcodec.Node{
			{Code: 258, Flags: 0xc0, Vendor: 10415, Payload: refcodec.U32(4)}, u32(266, 0x40, 10415)}})
	}
	if c.Inband {
		n = append(n, u32(299, 0x40, 0))
	}
	return refcodec.EncodeMessage(refcodec.Header{Version: 1, Flags: c.CER.Flags, Code: codeCER, App: c.CER.App,
		HopByHop: c.CER.HbH, EndToEnd: c.CER.E2E}, n, false)
}

func dwrBytes(r Req) []byte {
	n := []*refcodec.Node{str(264, 0x40, "peer.example.org"), str(296, 0x40, "example.org")}
	if r.State != 0 {
		n = append(n, u32(278, 0x40, r.State))
	}
	return refcodec.EncodeMessage(refcodec.Header{Version: 1, Flags: r.Flags, Code: codeDWR, App: r.App, HopByHop: r.HbH, EndToEnd: r.E2E}, n, false)
}

// requests lists (header, image) of everything the peer sends, in order.
func (c *SMCase) requests() (reqs []Req, images [][]byte, names []string) {
	reqs, images, names = append(reqs, c.CER), append(images, c.cerBytes()), append(names, "cea")
	if c.accepted() {
		for _, d := range c.DWRs {
			reqs, images, names = append(reqs, d), append(images, dwrBytes(d)), append(names, "dwa")
		}
	}
	return
}

func (c *SMCase) machine() *sm.StateMachine {
	s := &sm.Settings{OriginHost: "srv.verif", OriginRealm: "verif", VendorID: 13, ProductName: "verif-sm"}
	if c.HostIPs {
		s.HostIPAddresses = []datatype.Address{datatype.Address(net.ParseIP("192.0.2.1"))}
	}
	if c.Firmware {
		s.FirmwareRevision = 7
	}
	return sm.New(s)
}

// drain consumes an ErrorReports channel until stopped and keeps the texts.
type drain struct {
	mu   sync.Mutex
	msgs []string
	stop chan struct{}
	wg   sync.WaitGroup
}

func startDrain(ch <-chan *diam.ErrorReport) *drain {
	d := &drain{stop: make(chan struct{})}
	d.wg.Add(1)
	go func() {
		defer d.wg.Done()
		for {
			select {
			case r := <-ch:
				d.mu.Lock()
				d.msgs = append(d.msgs, fmt.Sprint(r.Error))
				d.mu.Unlock()
			case <-d.stop:
				return
			}
		}
	}()
	return d
}

func (d *drain) end() { close(d.stop); d.wg.Wait() }
func (d *drain) text() string {
	d.mu.Lock()
	defer d.mu.Unlock()
	if len(d.msgs) == 0 {
		return ""
	}
	return "; error reports: " + strings.Join(d.msgs, " | ")
}

// checkAnswerImage verifies one answer found on the transport against the
// request it answers.
func checkAnswerImage(name string, n int, r Req, code uint32, img []byte, reports string, ids, resultCode bool) *ev.Failure {
	where := fmt.Sprintf("%s no. %d on the wire, answering a request with flags %#02x, application %d, ids %#x/%#x", strings.ToUpper(name), n, r.Flags, r.App, r.HbH, r.E2E)
	h, err := refcodec.DecodeHeader(img)
	if err != nil {
		return ev.Failf(name+"-malformed", "%s: %v", where, err)
	}
	w := want{code: code, app: r.App, hbh: r.HbH, e2e: r.E2E, flags: r.Flags}
	if !ids {
		w.hbh, w.e2e = h.HopByHop, h.EndToEnd
	}
	if f := checkMirror(name, where, w, h.Code, h.App, h.HopByHop, h.EndToEnd, h.Flags); f != nil {
		f.Detail += reports
		return f
	}
	if !resultCode {
		return nil
	}
	recs, err := refcodec.Frame(img[20:])
	if err != nil {
		return ev.Failf(name+"-malformed", "%s: body does not frame: %v", where, err)
	}
	if i, _ := findResultCode(recs); i < 0 {
		return ev.Failf(name+"-result-code", "%s: no Result-Code AVP among its %d AVPs", where, len(recs))
	}
	return nil
}

func runSM(c SMCase) *ev.Failure {
	reqs, images, names := c.requests()
	machine := c.machine()
	d := startDrain(machine.ErrorReports())
	defer d.end()
	mc := memnet.NewConn()
	if _, err := diam.NewConn(mc, "", machine, dict.Default); err != nil {
		mc.Close()
		return ev.Failf("harness-conn", "NewConn: %v", err)
	}
	for i, img := range images {
		if s := reqs[i].Split; s > 0 && s < len(img) {
			mc.Feed(img[:s], img[s:])
		} else {
			mc.Feed(img)
		}
	}
	mc.FeedEOF()
	if !mc.WaitClosed(waitFor) {
		mc.Close()
		return ev.Failf("harness-no-close", "the connection was not closed within %v of the end of input%s", waitFor, d.text())
	}
	msgs, tail, err := refcodec.SplitMessages(mc.Written())
	if err != nil || len(tail) != 0 {
		return ev.Failf("sm-output-malformed", "what the state machine wrote does not split into messages: %v, %d trailing bytes", err, len(tail))
	}
	if len(msgs) != len(reqs) {
		return ev.Failf("harness-no-answer", "%d requests were sent (CER %s, %d DWRs) and %d messages were written%s", len(reqs), c.Kind, len(reqs)-1, len(msgs), d.text())
	}
	for i, img := range msgs {
		code := uint32(codeDWR)
		if i == 0 {
			code = codeCER
		}
		if f := checkAnswerImage(names[i], i, reqs[i], code, img, d.text(), true, true); f != nil {
			return f
		}
	}
	return nil
}

var otherApps = []uint32{4, 3, 1, 16777251, 16777238, 0xffffffff, 999}

func genReq(t *rapid.T, label string) Req {
	r := Req{Flags: rFlag}
	if rapid.Bool().Draw(t, label+"-P") {
		r.Flags |= pFlag
	}
	if rapid.IntRange(0, 2).Draw(t, label+"-T") == 0 {
		r.Flags |= 0x10
	}
	if rapid.IntRange(0, 7).Draw(t, label+"-reserved") == 0 {
		r.Flags |= uint8(rapid.IntRange(1, 15).Draw(t, label+"-reserved-bits"))
	}
	id := func(l string) uint32 {
		if rapid.Bool().Draw(t, l+"-boundary") {
			return rapid.SampledFrom(boundaryIDs).Draw(t, l)
		}
		return rapid.Uint32().Draw(t, l)
	}
	r.HbH, r.E2E = id(label+"-hbh"), id(label+"-e2e")
	if rapid.IntRange(0, 3).Draw(t, label+"-other-app") == 0 {
		r.App = rapid.SampledFrom(otherApps).Draw(t, label+"-app")
	}
	if rapid.IntRange(0, 2).Draw(t, label+"-state") == 0 {
		r.State = rapid.Uint32Range(1, 0xffffffff).Draw(t, label+"-state-id")
	}
	return r
}

func genSMBase(t *rapid.T) SMCase {
	c := SMCase{Kind: rapid.SampledFrom([]string{cerOKAuth, cerOKAuth, cerOKAcct, cerOKAcct, cerNoHost, cerUnsupported, cerVFlagApp, cerVFlagMember}).Draw(t, "cer-kind")}
	c.Inband = rapid.IntRange(0, 2).Draw(t, "inband") == 0
	c.HostIPs = rapid.Bool().Draw(t, "host-ips")
	c.Firmware = rapid.IntRange(0, 3).Draw(t, "firmware") == 0
	c.CER = genReq(t, "cer")
	if c.accepted() {
		n := rapid.IntRange(0, 4).Draw(t, "dwrs")
		for i := 0; i < n; i++ {
			c.DWRs = append(c.DWRs, genReq(t, fmt.Sprintf("dwr%d", i)))
		}
	}
	return c
}

func genSM(t *rapid.T) SMCase {
	c := genSMBase(t)
	if rapid.IntRange(0, 3).Draw(t, "split") == 0 {
		c.CER.Split = rapid.IntRange(1, 40).Draw(t, "cer-split")
	}
	return c
}

func reqClasses(prefix string, r Req, cl map[string]bool) {
	if r.HbH == 0 || r.E2E == 0 {
		cl[prefix+"-zero-id"] = true
	}
	if r.HbH == 0xffffffff || r.E2E == 0xffffffff || r.HbH == 1<<31 || r.E2E == 1<<31 {
		cl[prefix+"-id-2^31-or-2^32-1"] = true
	}
	if r.Flags&pFlag != 0 {
		cl[prefix+"-P"] = true
	}
	if r.Flags&0x10 != 0 {
		cl[prefix+"-T"] = true
	}
	if r.Flags&0x0f != 0 {
		cl[prefix+"-reserved-bits"] = true
	}
	if r.App != 0 {
		cl[prefix+"-app!=0"] = true
	}
}

func keys(m map[string]bool) []string {
	var out []string
	for k := range m {
		out = append(out, k)
	}
	// deterministic order
	for i := 1; i < len(out); i++ {
		for j := i; j > 0 && out[j] < out[j-1]; j-- {
			out[j], out[j-1] = out[j-1], out[j]
		}
	}
	return out
}

func classifySM(c SMCase) (bool, []string) {
	cl := map[string]bool{"cer:" + c.Kind: true}
	reqClasses("cer", c.CER, cl)
	for _, d := range c.DWRs {
		reqClasses("dwr", d, cl)
	}
	cl[fmt.Sprintf("dwrs:%d", len(c.DWRs))] = true
	if c.Inband {
		cl["inband-security-0"] = true
	}
	if c.HostIPs {
		cl["settings-host-ips"] = true
	}
	return true, keys(cl)
}

var smProp = ev.Register(&ev.Prop[SMCase]{
	ID: "C16", Name: "sm-wire",
	Rule: "server state machine (sm.New) behind diam.NewConn over an in-memory connection; the peer sends a CER that must be accepted (Auth-Application-Id 4 / Acct-Application-Id 3, optional Inband-Security-Id 0, " +
		"optional Origin-State-Id) or rejected (no Origin-Host / unsupported application only), then 0..4 DWRs after an accepted one; every request has generated ids ({0, 1, 2^31, 2^32-1, arbitrary} or random), " +
		"R plus generated P, T and reserved flag bits, application id 0 or another one. Demanded of every message the library wrote (k-th answer <-> k-th request), read with the reference codec: " +
		"one answer per request; command code, application id and both ids of the request; R cleared; P unchanged; a Result-Code AVP present. non-trivial = every scenario (each is a distinct exchange)",
	Gen: genSM, Run: runSM, Classify: classifySM, Attempts: 5,
})

// ---------------------------------------------------------------------------
// part 3: the transport stream

// StreamCase is one SCTP association: either a state machine (SM != nil) or
// a plain handler answering every request with Answer(rc).
type StreamCase struct {
	SM   *SMCase `json:"sm,omitempty"`
	Reqs []HReq  `json:"reqs,omitempty"`
	// Pinned: the application called SetWriterStream(n) on the association earlier (it steers the
	// raw Write adaptor); answers written with WriteTo name their stream explicitly and must still
	// go to the stream of their request.
	Pinned *uint16 `json:"pinned,omitempty"`
	// Late (plain handler only): the handler keeps the requests; the application answers them, in
	// order, from another goroutine after the reader has moved on to later requests.
	Late bool `json:"late,omitempty"`
	// Concurrent (with Late): the kept requests carry distinct hop-by-hop ids and are answered all at
	// once, each from a goroutine of its own; a recorded write is paired with its request by that id.
	Concurrent bool `json:"concurrent,omitempty"`
	// Retry (plain handler only): answers are written with WriteToWithRetry and the transport
	// fails the first attempt of every write with a temporary error.
	Retry bool `json:"retry,omitempty"`
	// WriteTimeoutMs > 0: the association is served by a Server with that WriteTimeout.
	WriteTimeoutMs int `json:"write_timeout_ms,omitempty"`
	// ReadTimeout: the association is served by a Server with a ReadTimeout (5 s, never reached here).
	ReadTimeout bool `json:"read_timeout,omitempty"`
	// Arrival (non-empty: the requests are on pairwise distinct streams and carry distinct hop-by-hop
	// ids): the requests do not arrive one after the other but interleaved, in chunks. A request whose
	// Split is > 0 arrives in two chunks (Split 20: the header, then the body), the others in one;
	// Arrival lists request indices, the k-th occurrence of i standing for the k-th chunk of request
	// i. While the rest of one request is outstanding, whole requests (or beginnings) of other
	// streams arrive; the library sets them aside per stream and serves them afterwards, in an order
	// of its own - every recorded write is paired with its request by the hop-by-hop id.
	Arrival []int `json:"arrival,omitempty"`
}

// HReq is one request for the plain handler.
type HReq struct {
	Req
	CmdIdx int    `json:"cmd"` // index into the request commands of dict.Default
	RC     uint32 `json:"rc"`
	Via    string `json:"via"` // WriteTo | Write
	// Bare: the request is a header without any AVP (20 bytes); the handler answers it with
	// Answer(2001) through WriteTo.
	Bare bool `json:"bare,omitempty"`
}

var (
	reqCmdsOnce sync.Once
	reqCmds     []gen.Cmd
)

func requestCmds() []gen.Cmd {
	reqCmdsOnce.Do(func() {
		for _, c := range gen.NewCatalog(dict.Default).Cmds {
			if c.HasReq {
				reqCmds = append(reqCmds, c)
			}
		}
	})
	return reqCmds
}

const viaAVP = 0x00fffff7 // undefined code: tells the handler how to write the answer and which rc to use

func (r *HReq) image() []byte {
	cmd := requestCmds()[r.CmdIdx%len(requestCmds())]
	via := byte(0)
	if r.Via == "Write" {
		via = 1
	}
	p := append([]byte{via, 0, 0, 0}, refcodec.U32(r.RC)...)
	if r.Bare {
		return refcodec.EncodeMessage(refcodec.Header{Version: 1, Flags: r.Flags, Code: cmd.Code, App: cmd.App, HopByHop: r.HbH, EndToEnd: r.E2E}, nil, false)
	}
	return refcodec.EncodeMessage(refcodec.Header{Version: 1, Flags: r.Flags, Code: cmd.Code, App: cmd.App, HopByHop: r.HbH, EndToEnd: r.E2E},
		[]*refcodec.Node{{Code: viaAVP, Flags: 0, Payload: p}}, false)
}

func feedSCTP(be *memnet.SCTP, r Req, img []byte) {
	if r.Split > 0 && r.Split < len(img) {
		be.Feed(memnet.Chunk{Stream: r.Stream, Data: img[:r.Split]}, memnet.Chunk{Stream: r.Stream, Data: img[r.Split:]})
	} else {
		be.Feed(memnet.Chunk{Stream: r.Stream, Data: img})
	}
}

// sctpChunks: the chunks one request arrives in.
func sctpChunks(r Req, img []byte) []memnet.Chunk {
	if r.Split > 0 && r.Split < len(img) {
		return []memnet.Chunk{{Stream: r.Stream, Data: img[:r.Split]}, {Stream: r.Stream, Data: img[r.Split:]}}
	}
	return []memnet.Chunk{{Stream: r.Stream, Data: img}}
}

// feedArrival feeds the chunks of all requests in the order the case prescribes.
func feedArrival(be *memnet.SCTP, reqs []Req, images [][]byte, arrival []int) *ev.Failure {
	chunks := make([][]memnet.Chunk, len(reqs))
	streams, ids := map[uint16]bool{}, map[uint32]bool{}
	for i, r := range reqs {
		chunks[i] = sctpChunks(r, images[i])
		if streams[r.Stream] || ids[r.HbH] {
			return ev.Failf("harness-case", "interleaved arrival needs pairwise distinct streams and hop-by-hop ids (request %d: stream %d, id %#x)", i, r.Stream, r.HbH)
		}
		streams[r.Stream], ids[r.HbH] = true, true
	}
	next := make([]int, len(reqs))
	for _, i := range arrival {
		if i < 0 || i >= len(reqs) || next[i] >= len(chunks[i]) {
			return ev.Failf("harness-case", "arrival %v does not list the chunks of the %d requests", arrival, len(reqs))
		}
		be.Feed(chunks[i][next[i]])
		next[i]++
	}
	for i := range reqs {
		if next[i] != len(chunks[i]) {
			return ev.Failf("harness-case", "arrival %v does not list the chunks of the %d requests", arrival, len(reqs))
		}
	}
	return nil
}

func runStream(c StreamCase) *ev.Failure {
	be := memnet.NewSCTP()
	interleaved := len(c.Arrival) > 0
	type keptReq struct {
		conn diam.Conn
		m    *diam.Message
		rc   uint32
	}
	var kept []keptReq
	var (
		reqs    []Req
		names   []string
		codes   []uint32
		handler diam.Handler
		d       *drain
		hmu     sync.Mutex
		herr    []string
	)
	switch {
	case c.SM != nil:
		var images [][]byte
		reqs, images, names = c.SM.requests()
		machine := c.SM.machine()
		d = startDrain(machine.ErrorReports())
		handler = machine
		if interleaved {
			if f := feedArrival(be, reqs, images, c.Arrival); f != nil {
				return f
			}
		}
		for i, img := range images {
			if !interleaved {
				feedSCTP(be, reqs[i], img)
			}
			if i == 0 {
				codes = append(codes, codeCER)
			} else {
				codes = append(codes, codeDWR)
			}
		}
	default:
		mux := diam.NewServeMux()
		d = startDrain(mux.ErrorReports())
		bare := map[uint32]bool{} // hop-by-hop ids of the requests sent without any AVP
		for _, r := range c.Reqs {
			if r.Bare {
				bare[r.HbH] = true
			}
		}
		mux.HandleFunc("ALL", func(conn diam.Conn, m *diam.Message) {
			var err error
			fail := func(s string) { hmu.Lock(); herr = append(herr, s); hmu.Unlock() }
			var p []byte
			if len(m.AVP) == 0 && bare[m.Header.HopByHopID] {
				p = append([]byte{0, 0, 0, 0}, refcodec.U32(2001)...)
			} else {
				if len(m.AVP) != 1 || m.AVP[0].Code != viaAVP {
					fail(fmt.Sprintf("request without the instruction AVP: %v", m))
					return
				}
				p = m.AVP[0].Data.Serialize()
			}
			if len(p) != 8 {
				fail(fmt.Sprintf("instruction AVP of %d bytes", len(p)))
				return
			}
			if m.Header.EndToEndID&4 != 0 {
				// a relay forwards the request to another peer first, on a stream of that association
				m.WriteToStream(io.Discard, m.MessageStream()+7)
			}
			if c.Late {
				hmu.Lock()
				kept = append(kept, keptReq{conn, m, refcodec.Get32(p[4:])})
				hmu.Unlock()
				return
			}
			a := m.Answer(refcodec.Get32(p[4:]))
			if c.Retry {
				_, err = a.WriteToWithRetry(conn, 2)
			} else if p[0] == 1 && c.Pinned == nil {
				var b []byte
				if b, err = a.Serialize(); err == nil {
					_, err = conn.Write(b)
				}
			} else {
				_, err = a.WriteTo(conn)
			}
			if err != nil {
				fail(fmt.Sprintf("writing the answer: %v", err))
			}
		})
		handler = mux
		var images [][]byte
		for i := range c.Reqs {
			r := &c.Reqs[i]
			cmd := requestCmds()[r.CmdIdx%len(requestCmds())]
			rq := r.Req
			rq.App = cmd.App
			reqs, names = append(reqs, rq), append(names, "answer")
			codes = append(codes, cmd.Code)
			if interleaved {
				images = append(images, r.image())
			} else {
				feedSCTP(be, r.Req, r.image())
			}
		}
		if interleaved {
			if f := feedArrival(be, reqs, images, c.Arrival); f != nil {
				return f
			}
		}
	}
	defer d.end()
	plain := c.SM == nil
	if plain && c.Retry {
		be.WriteFault = func(call int, _ uint16) error {
			if call%2 == 0 {
				return &memnet.TempError{Msg: "scripted temporary error"}
			}
			return nil
		}
	}
	late := plain && c.Late
	if !late {
		be.FeedEOF()
	}
	sc := diam.NewVerifSCTPConn(be)
	if c.Pinned != nil {
		sc.SetWriterStream(uint(*c.Pinned))
	}
	if c.WriteTimeoutMs > 0 || c.ReadTimeout {
		lis := memnet.NewListener(1)
		srv := &diam.Server{Handler: handler, Dict: dict.Default, WriteTimeout: time.Duration(c.WriteTimeoutMs) * time.Millisecond}
		if c.ReadTimeout {
			srv.ReadTimeout = 5 * time.Second
		}
		go srv.Serve(lis)
		defer lis.Close()
		lis.Push(sc)
	} else if _, err := diam.NewConn(sc, "", handler, dict.Default); err != nil {
		be.Close()
		return ev.Failf("harness-conn", "NewConn: %v", err)
	}
	if late {
		// wait until every request was handed to the handler and the reader is idle again
		deadline := time.Now().Add(waitFor)
		for {
			hmu.Lock()
			n := len(kept)
			hmu.Unlock()
			if n == len(reqs) {
				break
			}
			if interleaved && be.IsClosed() {
				// the loop gave up on the association before it had served every request
				return ev.Failf("answer-interleaved-missing", "%d requests arrived interleaved on %d streams (chunk order %v), %d reached the handler before the library closed the association%s", len(reqs), len(reqs), c.Arrival, n, d.text())
			}
			if time.Now().After(deadline) {
				be.Close()
				return ev.Failf("harness-no-dispatch", "%d requests were delivered, %d reached the handler within %v%s", len(reqs), n, waitFor, d.text())
			}
			time.Sleep(time.Millisecond)
		}
		be.WaitParked(waitFor)
		answer := func(k keptReq) {
			a := k.m.Answer(k.rc)
			var err error
			if c.Retry {
				_, err = a.WriteToWithRetry(k.conn, 2)
			} else {
				_, err = a.WriteTo(k.conn)
			}
			if err != nil {
				hmu.Lock()
				herr = append(herr, fmt.Sprintf("writing a late answer: %v", err))
				hmu.Unlock()
			}
		}
		if c.Concurrent {
			var wg sync.WaitGroup
			start := make(chan struct{})
			for _, k := range kept {
				wg.Add(1)
				go func(k keptReq) { defer wg.Done(); <-start; answer(k) }(k)
			}
			close(start)
			wg.Wait()
		} else {
			for _, k := range kept {
				answer(k)
			}
		}
		be.FeedEOF()
	}
	if !be.WaitClosed(waitFor) {
		be.Close()
		return ev.Failf("harness-no-close", "the association was not closed within %v of the end of input%s", waitFor, d.text())
	}
	hmu.Lock()
	defer hmu.Unlock()
	if len(herr) > 0 {
		return ev.Failf("harness-handler", "%s", strings.Join(herr, " | "))
	}
	writes := be.Writes()
	if interleaved && len(writes) != len(reqs) {
		return ev.Failf("answer-interleaved-missing", "%d requests arrived interleaved on %d streams (chunk order %v) and %d answers were written%s", len(reqs), len(reqs), c.Arrival, len(writes), d.text())
	}
	if len(writes) != len(reqs) {
		return ev.Failf("harness-no-answer", "%d requests were delivered and %d writes recorded%s", len(reqs), len(writes), d.text())
	}
	byHbH := map[uint32]int{}
	paired := late && c.Concurrent || interleaved
	if paired {
		for i, r := range reqs {
			byHbH[r.HbH] = i
		}
	}
	answered := map[int]bool{}
	for i, w := range writes {
		h, err := refcodec.DecodeHeader(w.Data)
		if err != nil || int(h.Length) != len(w.Data) {
			return ev.Failf("harness-no-answer", "write %d is not one whole message: %d bytes, header %+v, %v", i, len(w.Data), h, err)
		}
		if paired {
			// the answers were written at the same time (or the requests were served in an order the
			// library chose among the ones it had set aside), so their order is free: pair by hop-by-hop id
			j, ok := byHbH[h.HopByHop]
			if !ok || answered[j] {
				return ev.Failf("answer-unpaired", "write %d carries hop-by-hop id %#x: no request, or a second answer to one request%s", i, h.HopByHop, d.text())
			}
			answered[j] = true
			i = j
		}
		// state machine: the full mirror as in sm-wire. Plain handler: command, application, R and P only
		// here - the identifiers and the Result-Code of Answer(rc) are the subject of the "answer" test.
		if f := checkAnswerImage(names[i], i, reqs[i], codes[i], w.Data, d.text(), c.SM != nil, c.SM != nil); f != nil {
			return f
		}
		if w.Stream != reqs[i].Stream {
			how := ""
			if c.SM == nil {
				how = " (handler: Answer + " + c.Reqs[i].Via + ")"
			}
			return ev.Failf(names[i]+"-stream", "request %d (command %d) arrived on stream %d, its answer%s was written to stream %d", i, codes[i], reqs[i].Stream, how, w.Stream)
		}
	}
	return nil
}

func genStream(t *rapid.T) StreamCase {
	c := genStreamBase(t)
	if rapid.IntRange(0, 3).Draw(t, "pinned-writer-stream") == 0 {
		p := uint16(rapid.IntRange(0, 20).Draw(t, "pinned"))
		c.Pinned = &p
	}
	if c.SM == nil {
		c.Late = rapid.IntRange(0, 2).Draw(t, "late-answers") == 0
		c.Retry = rapid.IntRange(0, 2).Draw(t, "retry-after-temporary-error") == 0
		if c.Late && !c.Retry && rapid.IntRange(0, 1).Draw(t, "answers-at-once") == 0 {
			// many answers in flight at once: the requests of the case are repeated over the streams
			c.Concurrent = true
			n := rapid.IntRange(8, 96).Draw(t, "in-flight")
			stride := rapid.IntRange(1, 7).Draw(t, "stride")
			base := c.Reqs
			c.Reqs = nil
			for i := 0; i < n; i++ {
				r := base[i%len(base)]
				r.HbH = 0x51000000 + uint32(i)
				r.Stream = uint16((int(r.Stream) + i/len(base)*stride) % 16)
				r.Split = 0
				c.Reqs = append(c.Reqs, r)
			}
		}
	}
	if rapid.IntRange(0, 3).Draw(t, "write-timeout") == 0 {
		c.WriteTimeoutMs = rapid.IntRange(1, 50).Draw(t, "write-timeout-ms")
	}
	c.ReadTimeout = rapid.IntRange(0, 3).Draw(t, "read-timeout") == 0
	if !c.Concurrent && rapid.IntRange(0, 2).Draw(t, "interleaved-arrival") == 0 {
		interleave(t, &c)
	}
	return c
}

// interleave turns the case into one whose requests arrive interleaved on three or more streams:
// distinct streams and hop-by-hop ids, most requests in two chunks (header, then body), and an
// arrival order in which whole requests of other streams come between the chunks of one request.
func interleave(t *rapid.T, c *StreamCase) {
	var reqs []*Req
	if c.SM != nil {
		if !c.SM.accepted() {
			return
		}
		for i := 0; len(c.SM.DWRs) < 2; i++ {
			c.SM.DWRs = append(c.SM.DWRs, genReq(t, fmt.Sprintf("extra-dwr%d", i)))
		}
		reqs = append(reqs, &c.SM.CER)
		for i := range c.SM.DWRs {
			reqs = append(reqs, &c.SM.DWRs[i])
		}
	} else {
		want := rapid.IntRange(3, 8).Draw(t, "interleaved-requests")
		base := len(c.Reqs)
		for i := 0; len(c.Reqs) < want; i++ {
			c.Reqs = append(c.Reqs, c.Reqs[i%base])
		}
		for i := range c.Reqs {
			reqs = append(reqs, &c.Reqs[i].Req)
		}
	}
	used := map[uint16]bool{}
	var tokens []int
	for i, r := range reqs {
		r.HbH = 0x52000000 + uint32(i)
		if c.SM == nil && rapid.Bool().Draw(t, "nearby-stream") {
			r.Stream = uint16(rapid.IntRange(0, 15).Draw(t, "stream"))
		}
		for used[r.Stream] {
			r.Stream++
		}
		used[r.Stream] = true
		switch rapid.IntRange(0, 4).Draw(t, "chunking") {
		case 0:
			r.Split = 0
		case 1:
			r.Split = rapid.IntRange(1, 35).Draw(t, "split-at")
		default:
			r.Split = 20 // the header, then the body
		}
		if c.SM == nil && rapid.IntRange(0, 3).Draw(t, "bare-header") == 0 {
			// a request that is a header only: whole, or cut inside the header
			c.Reqs[i].Bare = true
			if r.Split >= 20 {
				r.Split = 0
			}
		}
		tokens = append(tokens, i)
		if r.Split > 0 {
			tokens = append(tokens, i)
		}
	}
	if c.SM != nil || rapid.Bool().Draw(t, "bracket") {
		// one request is outstanding while all the others arrive
		x := 0
		if c.SM == nil {
			x = rapid.IntRange(0, len(reqs)-1).Draw(t, "outstanding")
		}
		if reqs[x].Split == 0 {
			reqs[x].Split = 20
			if c.SM == nil && c.Reqs[x].Bare {
				reqs[x].Split = rapid.IntRange(1, 19).Draw(t, "bare-split-at")
			}
		}
		var rest []int
		for i, r := range reqs {
			if i == x {
				continue
			}
			rest = append(rest, i)
			if r.Split > 0 {
				rest = append(rest, i)
			}
		}
		c.Arrival = append([]int{x}, rapid.Permutation(rest).Draw(t, "arrival")...)
		// (state machine: sometimes the rest of the CER comes earlier than last)
		at := len(c.Arrival)
		if rapid.IntRange(0, 3).Draw(t, "bracket-closes-early") == 0 {
			at = rapid.IntRange(1, len(c.Arrival)).Draw(t, "bracket-closes-at")
		}
		c.Arrival = append(c.Arrival[:at], append([]int{x}, c.Arrival[at:]...)...)
		return
	}
	c.Arrival = rapid.Permutation(tokens).Draw(t, "arrival")
}

func genStreamBase(t *rapid.T) StreamCase {
	stream := func(r *Req, label string) {
		r.Stream = drawStream(t, label+"-stream")
		if rapid.IntRange(0, 3).Draw(t, label+"-split") == 0 {
			r.Split = rapid.IntRange(1, 27).Draw(t, label+"-split-at")
		}
	}
	if rapid.IntRange(0, 2).Draw(t, "state-machine") == 0 {
		s := genSMBase(t)
		stream(&s.CER, "cer")
		for i := range s.DWRs {
			stream(&s.DWRs[i], fmt.Sprintf("dwr%d", i))
		}
		return StreamCase{SM: &s}
	}
	var c StreamCase
	n := rapid.IntRange(1, 6).Draw(t, "requests")
	for i := 0; i < n; i++ {
		l := fmt.Sprintf("req%d", i)
		r := HReq{Req: genReq(t, l), CmdIdx: rapid.IntRange(0, len(requestCmds())-1).Draw(t, l+"-cmd")}
		r.App, r.State = 0, 0 // the application comes with the command
		r.RC = rapid.SampledFrom(resultCodes).Draw(t, l+"-rc")
		r.Via = rapid.SampledFrom([]string{"WriteTo", "WriteTo", "Write"}).Draw(t, l+"-via")
		stream(&r.Req, l)
		c.Reqs = append(c.Reqs, r)
	}
	return c
}

func classifyStream(c StreamCase) (bool, []string) {
	cl := map[string]bool{}
	var streams []uint16
	if c.SM != nil {
		cl["state-machine"] = true
		cl["cer:"+c.SM.Kind] = true
		cl[fmt.Sprintf("dwrs:%d", len(c.SM.DWRs))] = true
		streams = append(streams, c.SM.CER.Stream)
		if c.SM.accepted() {
			for _, d := range c.SM.DWRs {
				streams = append(streams, d.Stream)
			}
		}
	} else {
		cl["handler"] = true
		for _, r := range c.Reqs {
			streams = append(streams, r.Stream)
			cl["via:"+r.Via] = true
			if r.RC == 0 {
				cl["rc=0"] = true
			}
			if r.HbH == 0 || r.E2E == 0 {
				cl["zero-id"] = true
			}
		}
		if c.Concurrent {
			cl["answers-in-flight-at-once"] = true
		}
	}
	nonzero, changes := false, false
	for i, s := range streams {
		if s != 0 {
			nonzero = true
		}
		if i > 0 && s != streams[i-1] {
			changes = true
		}
	}
	if nonzero {
		cl["stream>0"] = true
	}
	if changes {
		cl["stream-changes-between-requests"] = true
	}
	if len(c.Arrival) > 0 {
		cl["requests-interleaved-in-chunks"] = true
		// the most streams that deliver something while one request is outstanding
		first, last := map[int]int{}, map[int]int{}
		for pos, i := range c.Arrival {
			if _, ok := first[i]; !ok {
				first[i] = pos
			}
			last[i] = pos
		}
		most := 0
		for i := range first {
			others := map[int]bool{}
			for _, j := range c.Arrival[first[i]:last[i]] {
				if j != i {
					others[j] = true
				}
			}
			if len(others) > most {
				most = len(others)
			}
		}
		if most >= 2 {
			cl["a-request-outstanding-while->=2-other-streams-deliver"] = true
		}
	}
	if c.ReadTimeout {
		cl["server-with-read-timeout"] = true
	}
	if c.WriteTimeoutMs > 0 {
		cl["server-with-write-timeout"] = true
	}
	// on stream 0 alone the default stream would do
	return nonzero, keys(cl)
}

var streamProp = ev.Register(&ev.Prop[StreamCase]{
	ID: "C16", Name: "stream",
	Rule: "an in-memory SCTP association served by diam.NewConn: either 1..6 requests (any request command of dict.Default, generated ids and flags), each on a stream 0..15, whole or in two pieces, answered by a handler (which first forwards some of them with WriteToStream to another writer and stream, as a relay does) " +
		"with m.Answer(rc) written through WriteTo(conn) or through Serialize + conn.Write; or a server state machine receiving a CER (accepted / rejected) and DWRs, each on its own stream; 1 in 4 cases each the association is served by a Server with a WriteTimeout and / or a ReadTimeout. " +
		"Demanded: the k-th write recorded by the backend is the answer to the k-th request and carries that request's stream number (state machine: also the mirrored header as in sm-wire). " +
		"1 in 3 cases (3..8 requests, or CER + >= 2 DWRs) the requests arrive INTERLEAVED: on pairwise distinct streams, most in two chunks (header, then body; or cut anywhere; 1 in 4 of the handler's requests is a bare 20-byte header), in a drawn chunk order in which whole requests and beginnings of other streams arrive while the rest of one request is outstanding (often: one request brackets all the others); the library serves the set-aside requests in an order of its own, so each answer is paired with its request by a distinct hop-by-hop id and must be recorded on that request's stream, every request answered once. " +
		"Late answers: the handler keeps the requests and the application answers them afterwards, in order or (8..96 requests with distinct hop-by-hop ids) all at once from a goroutine each; then every request has exactly one answer, paired by that id, on its stream. " +
		"non-trivial = some request arrives on a stream other than 0",
	Gen: genStream, Run: runStream, Classify: classifyStream, Attempts: 5,
})

// concStreamProp: the stream cases with answers in flight at once only; it also runs under the race detector.
var concStreamProp = ev.Register(&ev.Prop[StreamCase]{
	ID: "C16", Name: "stream-concurrent",
	Rule: "the stream test restricted to its cases with 8..96 late answers written at once, each from its own goroutine, over one in-memory SCTP association (also run with -race). " +
		"Demanded: every request has exactly one answer, paired by hop-by-hop id, on the request's stream. non-trivial = requests on at least two streams",
	Gen: func(t *rapid.T) StreamCase {
		for {
			if c := genStream(t); c.Concurrent {
				return c
			}
		}
	},
	Run: runStream,
	Classify: func(c StreamCase) (bool, []string) {
		streams := map[uint16]bool{}
		for _, r := range c.Reqs {
			streams[r.Stream] = true
		}
		return len(streams) > 1, []string{fmt.Sprintf("streams:%d", len(streams)), fmt.Sprintf("in-flight>=%d", len(c.Reqs)/32*32)}
	},
	Attempts: 5,
})

// One request outstanding (header delivered, body not yet) while whole requests arrive on two
// and on four other streams: plain handler and state machine (hand-written regression cases).
func TestC16StreamInterleavedCanonical(t *testing.T) {
	h := func(i int, stream uint16, split int) HReq {
		return HReq{Req: Req{HbH: 0x52000000 + uint32(i), E2E: 0x1000 + uint32(i)*8, Flags: rFlag, Stream: stream, Split: split}, CmdIdx: i, RC: 2001, Via: "WriteTo"}
	}
	streamProp.One(t, StreamCase{Reqs: []HReq{h(0, 3, 20), h(1, 5, 0), h(2, 7, 0)}, Arrival: []int{0, 1, 2, 0}})
	streamProp.One(t, StreamCase{Reqs: []HReq{h(0, 9, 20), h(1, 0, 0), h(2, 65535, 20), h(3, 4, 0), h(4, 2, 7)}, Arrival: []int{0, 2, 1, 4, 3, 2, 4, 0}})
	streamProp.One(t, StreamCase{Reqs: []HReq{h(0, 3, 20), h(1, 5, 0), h(2, 7, 0)}, Arrival: []int{0, 2, 1, 0}, Late: true})
	// the requests that are set aside are headers only
	b := func(i int, stream uint16, split int) HReq { r := h(i, stream, split); r.Bare = true; return r }
	streamProp.One(t, StreamCase{Reqs: []HReq{h(0, 3, 20), b(1, 5, 0), b(2, 7, 0)}, Arrival: []int{0, 1, 2, 0}})
	streamProp.One(t, StreamCase{Reqs: []HReq{b(0, 8, 4), b(1, 5, 0), h(2, 7, 0), b(3, 6, 19)}, Arrival: []int{0, 3, 1, 2, 3, 0}})
	d := func(i int, stream uint16, split int, state uint32) Req {
		return Req{HbH: 0x52000000 + uint32(i), E2E: uint32(i), Flags: rFlag, Stream: stream, Split: split, State: state}
	}
	streamProp.One(t, StreamCase{SM: &SMCase{Kind: cerOKAuth, CER: d(0, 1, 20, 0), DWRs: []Req{d(1, 6, 0, 0), d(2, 11, 0, 77), d(3, 0, 20, 0)}}, Arrival: []int{0, 2, 1, 3, 0, 3}})
	streamProp.One(t, StreamCase{SM: &SMCase{Kind: cerOKAcct, CER: d(0, 0, 0, 5), DWRs: []Req{d(1, 2, 20, 9), d(2, 3, 0, 0), d(3, 4, 0, 0)}}, Arrival: []int{0, 1, 3, 2, 1}})
}

func TestC16ConcurrentAnswers(t *testing.T) { concStreamProp.Check(t, 150, 6000) }
func TestC16StateMachineWire(t *testing.T)  { smProp.Check(t, 2000, 60000) }
func TestC16Stream(t *testing.T)            { streamProp.Check(t, 300, 10000) }

// ---------------------------------------------------------------------------
// part 4: the client side of a multi-stream association

// ClientDWACase: a connection made by sm.Client (watchdog on or off, WatchdogStream set) over an
// in-memory SCTP association; the peer sends watchdog requests of its own on several streams.
type ClientDWACase struct {
	Watchdog       bool     `json:"watchdog"`
	WatchdogStream uint     `json:"watchdog_stream"`
	CEAStream      uint16   `json:"cea_stream"`
	DWRStreams     []uint16 `json:"dwr_streams"`
}

func runClientDWA(c ClientDWACase) *ev.Failure {
	be := memnet.NewSCTP()
	sc := diam.NewVerifSCTPConn(be)
	defer func() { be.FeedEOF(); be.WaitClosed(2 * time.Second); be.Close() }()
	machine := sm.New(&sm.Settings{OriginHost: "cli.example", OriginRealm: "example", VendorID: 13, ProductName: "verif",
		HostIPAddresses: []datatype.Address{datatype.Address([]byte{10, 0, 0, 9})}})
	d := startDrain(machine.ErrorReports())
	defer d.end()
	cli := &sm.Client{Handler: machine, RetransmitInterval: 3 * time.Second, EnableWatchdog: c.Watchdog, WatchdogInterval: 30 * time.Second, WatchdogStream: c.WatchdogStream,
		AuthApplicationID: []*diam.AVP{diam.NewAVP(258, 0x40, 0, datatype.Unsigned32(4))}}
	go func() {
		// the peer: answers the CER on the stream chosen for the case
		if !be.WaitWrites(1, 5*time.Second) {
			return
		}
		ws := be.Writes()
		if len(ws) == 0 {
			return
		}
		h, err := refcodec.DecodeHeader(ws[0].Data)
		if err != nil {
			return
		}
		be.Feed(memnet.Chunk{Stream: c.CEAStream, Data: refcodec.EncodeMessage(refcodec.Header{Version: 1, Code: 257, HopByHop: h.HopByHop, EndToEnd: h.EndToEnd},
			[]*refcodec.Node{{Code: 268, Flags: 0x40, Payload: refcodec.U32(2001)}, {Code: 264, Flags: 0x40, Payload: []byte("srv.example")},
				{Code: 296, Flags: 0x40, Payload: []byte("example")}, {Code: 257, Flags: 0x40, Payload: refcodec.Address(1, []byte{10, 0, 0, 1})},
				{Code: 266, Flags: 0x40, Payload: refcodec.U32(13)}, {Code: 269, Payload: []byte("peer")},
				{Code: 258, Flags: 0x40, Payload: refcodec.U32(4)}}, false)})
	}()
	if _, err := cli.NewConn(sc, "peer"); err != nil {
		return ev.Failf("harness-handshake", "handshake over the in-memory association failed: %v%s", err, d.text())
	}
	base := len(be.Writes())
	for i, s := range c.DWRStreams {
		be.Feed(memnet.Chunk{Stream: s, Data: refcodec.EncodeMessage(refcodec.Header{Version: 1, Flags: 0x80, Code: 280, HopByHop: uint32(0x7700 + i), EndToEnd: uint32(0x7800 + i)},
			[]*refcodec.Node{{Code: 264, Flags: 0x40, Payload: []byte("srv.example")}, {Code: 296, Flags: 0x40, Payload: []byte("example")}}, false)})
	}
	if !be.WaitWrites(base+len(c.DWRStreams), waitFor) {
		return ev.Failf("harness-no-answer", "the peer sent %d watchdog requests, the client wrote %d messages within %v%s", len(c.DWRStreams), len(be.Writes())-base, waitFor, d.text())
	}
	seen := map[int]bool{}
	for _, w := range be.Writes()[base:] {
		h, err := refcodec.DecodeHeader(w.Data)
		if err != nil || h.Code != 280 || h.Flags&0x80 != 0 {
			continue // (a DWR of the client's own watchdog)
		}
		i := int(h.HopByHop) - 0x7700
		if i < 0 || i >= len(c.DWRStreams) || h.EndToEnd != uint32(0x7800+i) {
			return ev.Failf("dwa-header", "the client wrote a DWA with identifiers %#x / %#x that answers none of the peer's requests", h.HopByHop, h.EndToEnd)
		}
		seen[i] = true
		if w.Stream != c.DWRStreams[i] {
			return ev.Failf("dwa-stream", "a connection made by sm.Client (watchdog enabled: %v, WatchdogStream %d): the peer's DWR %d arrived on stream %d, the DWA was written to stream %d", c.Watchdog, c.WatchdogStream, i, c.DWRStreams[i], w.Stream)
		}
	}
	if len(seen) != len(c.DWRStreams) {
		return ev.Failf("harness-no-answer", "%d of the peer's %d watchdog requests were answered%s", len(seen), len(c.DWRStreams), d.text())
	}
	return nil
}

var clientDWAProp = ev.Register(&ev.Prop[ClientDWACase]{
	ID: "C16", Name: "client-dwa-stream",
	Rule: "a connection made by sm.Client (watchdog off / on with WatchdogStream 0..3, interval 30 s so that none of its own requests interferes) over an in-memory SCTP association; the CEA arrives on stream 0..3; the peer then sends 1..4 watchdog requests on streams 0..15. Demanded: one DWA per request with its identifiers, written to the stream the request arrived on. non-trivial = some request arrives on another stream than WatchdogStream",
	Gen: func(t *rapid.T) ClientDWACase {
		c := ClientDWACase{Watchdog: rapid.IntRange(0, 2).Draw(t, "watchdog") != 0, WatchdogStream: uint(rapid.IntRange(0, 3).Draw(t, "watchdog-stream")),
			CEAStream: uint16(rapid.IntRange(0, 3).Draw(t, "cea-stream"))}
		n := rapid.IntRange(1, 4).Draw(t, "dwrs")
		for i := 0; i < n; i++ {
			c.DWRStreams = append(c.DWRStreams, drawStream(t, fmt.Sprintf("dwr%d-stream", i)))
		}
		return c
	},
	Run: runClientDWA,
	Classify: func(c ClientDWACase) (bool, []string) {
		nt := false
		for _, s := range c.DWRStreams {
			nt = nt || uint(s) != c.WatchdogStream
		}
		return nt, []string{fmt.Sprintf("watchdog:%v", c.Watchdog)}
	},
})

func TestC16ClientDWAStream(t *testing.T) { clientDWAProp.Check(t, 120, 4000) }
