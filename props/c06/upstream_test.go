package c06

import (
	"sync"

	"github.com/fiorix/go-diameter/v4/diam"
	"github.com/fiorix/go-diameter/v4/diam/datatype"
	"github.com/fiorix/go-diameter/v4/diam/dict"
	"github.com/fiorix/go-diameter/v4/diam/sm"

	"verif/internal/memnet"
	"verif/internal/refcodec"
)

// "advertise": a relay announces upstream the applications a downstream peer asked for. sm.Client
// takes them as []*diam.AVP (AuthApplicationID / AcctApplicationID / VendorSpecificApplicationID),
// so the relay hands it the AVPs of the message it KEPT (the peer's CER, or any kept message that
// carries Auth- / Acct- / Vendor-Specific-Application-Id AVPs - with or without the M bit, of any
// width) and dials: the client builds its own CER from them and writes it. Dialling (twice: the
// first CER is turned down by the scripted peer, the second accepted) is something that "happens
// later" and a write: the kept message must be what it was. The harness only reads the kept message.

var (
	supportedOnce sync.Once
	supportedApp  map[string]map[uint32]bool // the applications sm.New takes from dict.Default
)

func supported(typ string, id uint32) bool {
	supportedOnce.Do(func() {
		supportedApp = map[string]map[uint32]bool{"auth": {}, "acct": {}}
		for _, a := range sm.PrepareSupportedApps(dict.Default) {
			if supportedApp[a.AppType] != nil {
				supportedApp[a.AppType][a.ID] = true
			}
		}
	})
	return supportedApp[typ][id]
}

// collectApps gathers the application AVPs of a list: the Auth- / Acct-Application-Id AVPs that a
// Client accepts as configuration (Unsigned32, an application the local state machine supports -
// anything else is refused by Client before it builds a CER), every Vendor-Specific-Application-Id
// group, and (a relay that flattens) the application ids inside those groups.
func collectApps(avps []*diam.AVP, auth, acct, vsa *[]*diam.AVP, depth int) {
	for _, a := range avps {
		if a == nil {
			continue
		}
		switch d := a.Data.(type) {
		case datatype.Unsigned32:
			if a.Code == 258 && supported("auth", uint32(d)) {
				*auth = append(*auth, a)
			}
			if a.Code == 259 && supported("acct", uint32(d)) {
				*acct = append(*acct, a)
			}
		case *diam.GroupedAVP:
			if d == nil {
				continue
			}
			if a.Code == 260 {
				*vsa = append(*vsa, a)
			}
			if depth < 3 {
				collectApps(d.AVP, auth, acct, vsa, depth+1)
			}
		}
	}
}

// advertiseUpstream reports whether a client was dialled with AVPs of the message.
func advertiseUpstream(m *diam.Message) bool {
	var auth, acct, vsa []*diam.AVP
	collectApps(m.AVP, &auth, &acct, &vsa, 0)
	if len(auth)+len(acct)+len(vsa) == 0 {
		return false
	}
	cli := &sm.Client{
		Handler: sm.New(&sm.Settings{OriginHost: "relay.example", OriginRealm: "example", VendorID: 13, ProductName: "verif-relay",
			HostIPAddresses: []datatype.Address{datatype.Address([]byte{10, 0, 0, 9})}}),
		Dict:                        dict.Default,
		AuthApplicationID:           auth,
		AcctApplicationID:           acct,
		VendorSpecificApplicationID: vsa,
	}
	for attempt := 0; attempt < 2; attempt++ {
		mc := memnet.NewConn()
		result := uint32(5010) // the first attempt is turned down, the relay dials again
		if attempt == 1 {
			result = 2001
		}
		// the scripted peer answers inside the transport's Write, i.e. before the client starts waiting
		mc.WriteHook = func(b []byte, accept func([]byte)) (int, error) {
			accept(b)
			if h, err := refcodec.DecodeHeader(b); err == nil && h.Code == 257 && h.Flags&0x80 != 0 {
				mc.Feed(refcodec.EncodeMessage(refcodec.Header{Version: 1, Code: 257, HopByHop: h.HopByHop, EndToEnd: h.EndToEnd}, []*refcodec.Node{
					{Code: 268, Flags: 0x40, Payload: refcodec.U32(result)}, {Code: 264, Flags: 0x40, Payload: []byte("up.example")},
					{Code: 296, Flags: 0x40, Payload: []byte("example")}, {Code: 257, Flags: 0x40, Payload: refcodec.Address(1, []byte{10, 9, 8, 7})},
					{Code: 266, Flags: 0x40, Payload: refcodec.U32(99)}, {Code: 269, Payload: []byte("up")},
					{Code: 258, Flags: 0x40, Payload: refcodec.U32(4)}, {Code: 259, Flags: 0x40, Payload: refcodec.U32(3)}}, false))
			}
			return len(b), nil
		}
		// whether the handshake succeeds is C12's business: here only the kept message matters
		if c, err := cli.NewConn(mc, "upstream"); err == nil && c != nil {
			c.Close()
		}
		mc.Close()
	}
	return true
}
