// C06 - A decoded message never changes after it has been returned.
package c06

import (
	"bytes"
	"fmt"
	"net"
	"sync"
	"testing"
	"time"

	"github.com/fiorix/go-diameter/v4/diam"
	"github.com/fiorix/go-diameter/v4/diam/datatype"
	"github.com/fiorix/go-diameter/v4/diam/dict"
	"pgregory.net/rapid"

	"verif/internal/ev"
	"verif/internal/gen"
	"verif/internal/memnet"
	"verif/internal/refcodec"
)

type Step struct {
	Odd  []byte `json:"odd,omitempty"` // retain-odd: the wire image
	Kind string `json:"kind"`          // retain | read | read-goroutine | read-conn | write | conn-retain | conn-read
	// conn-retain / conn-read use ONE connection that lives as long as the case: the message is
	// delivered in a single segment and (conn-retain) kept by the handler while the connection
	// goes on receiving.
	Msg gen.Msg `json:"msg"`
}

type Case struct {
	Dict  gen.DictChoice `json:"dict"`
	Steps []Step         `json:"steps"`
}

var sliceTypes = []string{gen.TAddress, gen.TAddress, gen.TIPv4, gen.TIPv6, gen.TOctetString, gen.TUTF8String}

func sliceBacked(avps []*gen.AVP) bool {
	found := false
	gen.Walk(avps, 1, func(a *gen.AVP, _ int) {
		switch a.V.T {
		case gen.TAddress, gen.TUnknown, gen.TIPv4, gen.TIPv6, gen.TOctetString:
			found = true
		}
	})
	return found
}

func bodyLen(m *gen.Msg) int { return len(m.RefBytes()) - 20 }

func genCase(t *rapid.T) Case {
	c := Case{Dict: gen.DictChoice{Name: "default"}}
	if rapid.Bool().Draw(t, "generated-dict") {
		f := gen.CodecDict(t)
		c.Dict = gen.DictChoice{Name: "generated", Gen: &f}
	}
	_, cat, err := c.Dict.Load()
	if err != nil {
		t.Fatalf("harness: %v", err)
	}
	var types []string
	for _, ty := range sliceTypes {
		if len(cat.EntriesFor(0, ty)) > 0 {
			types = append(types, ty)
		}
	}
	n := rapid.IntRange(2, 12).Draw(t, "steps")
	allBig := rapid.IntRange(0, 11).Draw(t, "all-big") == 0 // a whole history of bodies above the 64 KiB read chunk
	if allBig {
		n = rapid.IntRange(2, 5).Draw(t, "big-steps")
	}
	// one size class per case most of the time: the pooled buffer is shared by equal-sized reads
	for i := 0; i < n; i++ {
		kind := "retain"
		if i > 0 {
			kind = rapid.SampledFrom([]string{"retain", "read", "read", "read-goroutine", "read-conn", "write", "conn-retain", "conn-retain", "conn-read", "conn-read", "retain-odd", "reserialize", "unmarshal", "answer", "inspect", "echo", "marshal-echo", "buf-retain", "buf-read", "buf-read", "scribble", "retain-again", "scribble", "forward", "relay", "relay", "find-append", "advertise"}).Draw(t, "kind")
		}
		var m gen.Msg
		m.Flags, m.Code, m.App, m.HbH, m.E2E = cat.Header(t)
		m.App = 0
		if _, err := cat.P.FindCommand(0, m.Code); err != nil {
			for _, cm := range cat.Cmds {
				if cm.App == 0 && cm.HasReq {
					m.Code, m.Flags = cm.Code, 0x80
					break
				}
			}
		}
		maxBytes := 60
		switch rapid.IntRange(0, 9).Draw(t, "big") {
		case 0, 1:
			maxBytes = 1500
		case 2:
			maxBytes = 70000 // bodies above the 64 KiB read chunk
		}
		if allBig {
			maxBytes = 70000
		}
		m.AVPs = cat.Tree(t, 0, gen.TreeOpts{MaxTop: rapid.IntRange(1, 6).Draw(t, "top"), MaxDepth: 3, OnlyTypes: types, WithGroups: true, Val: gen.ValueOpts{MaxBytes: maxBytes}})
		if maxBytes == 70000 {
			// make sure the body really is above 64 KiB, and keeps a view-typed value
			big := make([]byte, 66000+i)
			for k := range big {
				big[k] = byte(k + i)
			}
			m.AVPs = append(m.AVPs, &gen.AVP{Code: 3000007, V: gen.Val{T: gen.TUnknown, B: big}},
				&gen.AVP{Code: 3000008, V: gen.Val{T: gen.TUnknown, B: []byte{byte(i), 1, 2, 3, 4, 5}}})
		}
		st := Step{Kind: kind, Msg: m}
		if kind == "retain-odd" {
			st.Odd = oddWire(t, cat)
		}
		c.Steps = append(c.Steps, st)
	}
	return c
}

// oddWire draws a message the decoder accepts leniently although it is not in canonical form
// (fixed-width AVPs of other widths, an IPv4-mapped address under family 2, IPv4/IPv6-typed
// AVPs of other lengths): its re-encoding differs from the bytes received.
// oddNode draws one AVP of a non-canonical message: a leaf whose declared length is not the one the
// library would produce for its value, an application-id AVP as a sloppy peer sends it (without
// the M bit, with other bits, of another width), or a group (Failed-AVP / a Grouped AVP of the
// generated dictionary / Vendor-Specific-Application-Id, with or without the M bit) of such AVPs.
func oddNode(t *rapid.T, cat *gen.Catalog, depth int) *refcodec.Node {
	max := 9
	if depth >= 2 {
		max = 7
	}
	switch rapid.IntRange(0, max).Draw(t, "odd-kind") {
	case 5, 6: // an IPv4- / IPv6-typed AVP (generated dictionaries have them) of another length
		var es []gen.Entry
		for _, ty := range []string{gen.TIPv4, gen.TIPv6} {
			es = append(es, cat.EntriesFor(0, ty)...)
		}
		if len(es) == 0 {
			return &refcodec.Node{Code: 264, Flags: 0x40, Payload: []byte("host.example")}
		}
		e := es[rapid.IntRange(0, len(es)-1).Draw(t, "ip-entry")]
		nd := &refcodec.Node{Code: e.Code, Flags: 0x40, Vendor: e.Vendor, Payload: rapid.SliceOfN(rapid.Byte(), 0, 20).Draw(t, "ip-odd")}
		if e.Vendor != 0 {
			nd.Flags |= 0x80
		}
		return nd
	case 0:
		return &refcodec.Node{Code: 278, Flags: 0x40, Payload: rapid.SliceOfN(rapid.Byte(), 0, 11).Draw(t, "u32-odd")}
	case 1:
		mapped := append([]byte{0, 0, 0, 0, 0, 0, 0, 0, 0, 0, 0xff, 0xff}, rapid.SliceOfN(rapid.Byte(), 4, 4).Draw(t, "ip4")...)
		return &refcodec.Node{Code: 257, Flags: 0x40, Payload: refcodec.Address(2, mapped)}
	case 2:
		return &refcodec.Node{Code: 55, Flags: 0x40, Payload: rapid.SliceOfN(rapid.Byte(), 0, 9).Draw(t, "time-odd")}
	case 3:
		return &refcodec.Node{Code: 257, Flags: 0x40, Payload: refcodec.Address(8, rapid.SliceOfN(rapid.Byte(), 2, 2).Draw(t, "e164-2"))}
	case 7: // Auth- / Acct-Application-Id of an application the state machine knows, as a sloppy peer sends it
		nd := &refcodec.Node{Code: 258, Payload: refcodec.U32(4), Flags: rapid.SampledFrom([]uint8{0, 0, 0x40, 0x20}).Draw(t, "app-flags")}
		if rapid.Bool().Draw(t, "acct") {
			nd.Code, nd.Payload = 259, refcodec.U32(3)
		}
		if rapid.IntRange(0, 5).Draw(t, "app-wide") == 0 {
			nd.Payload = append(make([]byte, 4), nd.Payload...)
		}
		return nd
	case 8, 9: // a group of such AVPs
		nd := &refcodec.Node{Code: 279, Flags: 0x40, Group: true}
		var es []gen.Entry
		for _, e := range cat.EntriesFor(0, gen.TGrouped) {
			if e.Vendor == 0 {
				es = append(es, e)
			}
		}
		if len(es) > 0 {
			nd.Code = es[rapid.IntRange(0, len(es)-1).Draw(t, "group-entry")].Code
		}
		if rapid.IntRange(0, 2).Draw(t, "vsa") == 0 {
			nd.Code, nd.Flags = 260, rapid.SampledFrom([]uint8{0, 0x40}).Draw(t, "vsa-flags")
			nd.Children = append(nd.Children, &refcodec.Node{Code: 266, Flags: nd.Flags, Payload: refcodec.U32(10415)})
		}
		k := rapid.IntRange(1, 3).Draw(t, "members")
		for j := 0; j < k; j++ {
			nd.Children = append(nd.Children, oddNode(t, cat, depth+1))
		}
		return nd
	}
	return &refcodec.Node{Code: 264, Flags: 0x40, Payload: []byte("host.example")}
}

func oddWire(t *rapid.T, cat *gen.Catalog) []byte {
	var nodes []*refcodec.Node
	n := rapid.IntRange(1, 4).Draw(t, "odd-avps")
	for i := 0; i < n; i++ {
		nodes = append(nodes, oddNode(t, cat, 0))
	}
	code := uint32(257)
	if _, err := cat.P.FindCommand(0, code); err != nil {
		for _, cm := range cat.Cmds {
			if cm.App == 0 && cm.HasReq {
				code = cm.Code
				break
			}
		}
	}
	// the version octet is not validated by the reader: whatever arrived is what the message holds
	version := rapid.SampledFrom([]uint8{1, 1, 0, 2, 255}).Draw(t, "version")
	return refcodec.EncodeMessage(refcodec.Header{Version: version, Flags: 0x80, Code: code, HopByHop: gen.U32(t, "hbh"), EndToEnd: gen.U32(t, "e2e")}, nodes, false)
}

// scribble overwrites, in place, the bytes behind every slice-backed value of the message: what an
// application may do with the private copy it was given. It reports whether anything was there.
func scribble(avps []*diam.AVP) bool {
	did := false
	for _, a := range avps {
		switch d := a.Data.(type) {
		case *diam.GroupedAVP:
			if d != nil && scribble(d.AVP) {
				did = true
			}
		case datatype.Address:
			for i := range d {
				d[i] ^= 0xa5
				did = true
			}
		case datatype.IPv4:
			for i := range d {
				d[i] ^= 0xa5
				did = true
			}
		case datatype.IPv6:
			for i := range d {
				d[i] ^= 0xa5
				did = true
			}
		case datatype.Unknown:
			for i := range d {
				d[i] ^= 0xa5
				did = true
			}
		case datatype.OctetString:
			// (a string-backed value cannot be changed in place: the holder replaces it)
			a.Data = datatype.OctetString("scribbled:" + string(d))
			did = true
		}
		a.Flags ^= 0x20
	}
	return did
}

// reusedStruct is a destination the application keeps and fills again for every message; its
// byte-slice fields are bound to AVPs whose decoded values are views into the message body.
type reusedStruct struct {
	D struct { // names of dict.Default
		HostIP net.IP    `avp:"Host-IP-Address"`
		Raw    []byte    `avp:"Host-IP-Address"`
		AVP    *diam.AVP `avp:"Host-IP-Address"` // "the AVP itself": filled again for the next message
	}
	G struct { // names of the generated dictionaries
		GenAddr []byte    `avp:"B-Address"`
		GenIPv4 net.IP    `avp:"B-IPv4"`
		GenIPv6 []byte    `avp:"B-IPv6"`
		GenAVP  *diam.AVP `avp:"B-Address"`
	}
}

type retained struct {
	step int
	m    *diam.Message
	want *gen.Msg // nil for snapshot-only entries (non-canonical input)
	ref  []byte
	str  string
	hdr  diam.Header
	avps string // code/flags/vendor/Length/value bytes of every AVP as first observed
}

func avpSnapshot(avps []*diam.AVP, depth int) string {
	var b bytes.Buffer
	for _, a := range avps {
		fmt.Fprintf(&b, "%d[%d %#x %d %d ", depth, a.Code, a.Flags, a.VendorID, a.Length)
		if g, ok := a.Data.(*diam.GroupedAVP); ok {
			b.WriteString(avpSnapshot(g.AVP, depth+1))
		} else if a.Data != nil {
			fmt.Fprintf(&b, "%T % x", a.Data, a.Data.Serialize())
		}
		b.WriteString("]")
	}
	return b.String()
}

func verifySnapshot(r *retained, after int, what string) *ev.Failure {
	if *r.m.Header != r.hdr {
		return ev.Failf("retained-header-changed", "message retained at step %d (non-canonical input, declared length %d): its header changed after step %d (%s): was %+v, is %+v", r.step, r.hdr.MessageLength, after, what, r.hdr, *r.m.Header)
	}
	if s := avpSnapshot(r.m.AVP, 0); s != r.avps {
		return ev.Failf("retained-message-changed", "message retained at step %d (non-canonical input): its AVPs changed after step %d (%s):\n was %s\n is  %s", r.step, after, what, r.avps, s)
	}
	if s := r.m.String(); s != r.str {
		return ev.Failf("retained-message-changed", "message retained at step %d (non-canonical input) renders differently after step %d (%s)", r.step, after, what)
	}
	return nil
}

func verify(r *retained, after int, what string) *ev.Failure {
	if r.want == nil {
		return verifySnapshot(r, after, what)
	}
	if r.avps != "" {
		if s := avpSnapshot(r.m.AVP, 0); s != r.avps {
			return ev.Failf("retained-message-changed", "message retained at step %d: its AVPs (code, flags, vendor id, Length, value bytes) changed after step %d (%s):\n was %s\n is  %s", r.step, after, what, clipS(r.avps), clipS(s))
		}
	}
	h := r.m.Header
	if h.Version != 1 || int(h.MessageLength) != len(r.ref) || h.CommandFlags != r.want.Flags || h.CommandCode != r.want.Code ||
		h.ApplicationID != r.want.App || h.HopByHopID != r.want.HbH || h.EndToEndID != r.want.E2E {
		return ev.Failf("retained-header-changed", "message retained at step %d: header changed after step %d (%s): %+v", r.step, after, what, *h)
	}
	if d := gen.CompareTree(r.want.AVPs, r.m.AVP, ""); d != "" {
		return ev.Failf("retained-message-changed", "message retained at step %d (body %d bytes) no longer holds its values after step %d (%s): %s", r.step, len(r.ref)-20, after, what, d)
	}
	b, err := r.m.Serialize()
	if err != nil || !bytes.Equal(b, r.ref) {
		return ev.Failf("retained-message-changed", "message retained at step %d serialises differently after step %d (%s) (err %v)", r.step, after, what, err)
	}
	if s := r.m.String(); s != r.str {
		return ev.Failf("retained-message-changed", "message retained at step %d renders differently after step %d (%s):\n before %q\n after  %q", r.step, after, what, r.str, s)
	}
	return nil
}

func clipS(s string) string {
	if len(s) > 1500 {
		return s[:1500] + "..."
	}
	return s
}

func runCase(c Case) *ev.Failure {
	var shared bytes.Buffer // one receive buffer the application reads messages from, again and again
	p, _, err := c.Dict.Load()
	if err != nil {
		return ev.Failf("harness-dict", "%v", err)
	}
	var kept []*retained
	var reused reusedStruct
	var pc *persistentConn
	defer func() {
		if pc != nil {
			pc.close()
		}
	}()
	for i := range c.Steps {
		st := &c.Steps[i]
		ref := st.Msg.RefBytes()
		switch st.Kind {
		case "retain":
			m, err := diam.ReadMessage(bytes.NewReader(ref), p)
			if err != nil {
				return ev.Failf("harness-read", "step %d: reference image rejected: %v", i, err)
			}
			r := &retained{step: i, m: m, want: &st.Msg, ref: ref, avps: avpSnapshot(m.AVP, 0)}
			r.str = m.String()
			kept = append(kept, r)
		case "retain-again":
			// the same bytes arrive once more (a retransmission, a second peer sending the same
			// content) and are kept too: two private copies of identical content
			if len(kept) > 0 && kept[0].want != nil {
				k0 := kept[0]
				m, err := diam.ReadMessage(bytes.NewReader(k0.ref), p)
				if err != nil {
					return ev.Failf("harness-read", "step %d: reference image rejected: %v", i, err)
				}
				r := &retained{step: i, m: m, want: k0.want, ref: k0.ref, avps: avpSnapshot(m.AVP, 0)}
				r.str = m.String()
				kept = append(kept, r)
			}
		case "buf-retain", "buf-read":
			// the application collects received bytes in a bytes.Buffer of its own and decodes from it
			shared.Write(ref)
			m, err := diam.ReadMessage(&shared, p)
			if err != nil {
				return ev.Failf("harness-read", "step %d: reference image rejected: %v", i, err)
			}
			if st.Kind == "buf-retain" {
				if d := gen.CompareTree(st.Msg.AVPs, m.AVP, ""); d != "" {
					return ev.Failf("harness-read", "step %d: ReadMessage from a bytes.Buffer returned a different message: %s", i, d)
				}
				r := &retained{step: i, m: m, want: &st.Msg, ref: ref, avps: avpSnapshot(m.AVP, 0)}
				r.str = m.String()
				kept = append(kept, r)
			}
		case "scribble":
			// the application changes, in place, the values of ONE message it kept (its private
			// copy); that message leaves the set that is watched, every other must stay as it was
			if len(kept) > 0 {
				scribble(kept[0].m.AVP)
				kept = kept[1:]
			}
		case "marshal-echo":
			// the same through Marshal: a struct whose []*diam.AVP field holds the AVPs of a kept message
			for _, r := range kept {
				a := r.m.Answer(2001)
				if c.Dict.Name == "default" {
					a.Marshal(&struct {
						Echo []*diam.AVP `avp:"Host-IP-Address"`
					}{Echo: r.m.AVP})
				} else {
					a.Marshal(&struct {
						Echo []*diam.AVP `avp:"B-Address"`
					}{Echo: r.m.AVP})
				}
				var w bytes.Buffer
				a.WriteTo(&w)
			}
		case "relay":
			// a relay builds other messages out of windows / elements of the AVP lists of the kept
			// ones (Marshal of []*diam.AVP, *diam.AVP and diam.AVP fields followed by fields of its
			// own; AddAVP / InsertAVP / NewAVP) and writes them: see relay_test.go
			for _, r := range kept {
				if f := relayKept(r, c.Dict.Name, p, i); f != nil {
					return f
				}
			}
		case "advertise":
			// a relay advertises upstream the applications found in the kept messages: their Auth- /
			// Acct- / Vendor-Specific-Application-Id AVPs become the configuration of an sm.Client,
			// which dials (builds and writes its own CER): see upstream_test.go
			for _, r := range kept {
				advertiseUpstream(r.m)
			}
		case "find-append":
			// the holder appends to the slices FindAVPs / FindAVPsWithPath returned
			for _, r := range kept {
				findAppendKept(r)
			}
		case "echo":
			// a relay / an answer that carries AVPs of the request: adding an AVP of a kept message
			// to another message must not write into the kept one
			for _, r := range kept {
				a := r.m.Answer(2001)
				for k, x := range r.m.AVP {
					if k%2 == 0 {
						a.AddAVP(x)
					} else {
						a.InsertAVP(x)
					}
				}
				var w bytes.Buffer
				a.WriteTo(&w)
			}
		case "read":
			if _, err := diam.ReadMessage(bytes.NewReader(ref), p); err != nil {
				return ev.Failf("harness-read", "step %d: reference image rejected: %v", i, err)
			}
		case "read-goroutine":
			var wg sync.WaitGroup
			wg.Add(1)
			go func() {
				defer wg.Done()
				diam.ReadMessage(bytes.NewReader(ref), p)
			}()
			wg.Wait()
		case "read-conn":
			if f := readThroughConn(p, ref, i); f != nil {
				return f
			}
		case "retain-odd":
			m, err := diam.ReadMessage(bytes.NewReader(st.Odd), p)
			if err != nil {
				break // not accepted under this dictionary: nothing to retain
			}
			kept = append(kept, &retained{step: i, m: m, ref: st.Odd, str: m.String(), hdr: *m.Header, avps: avpSnapshot(m.AVP, 0)})
		case "unmarshal":
			// the application decodes another message into a struct it reuses for every message
			// (per-connection state, a pool): filling that struct must not write into messages
			// it was filled from before
			m, err := diam.ReadMessage(bytes.NewReader(ref), p)
			if err != nil {
				return ev.Failf("harness-read", "step %d: reference image rejected: %v", i, err)
			}
			for _, r := range kept {
				r.m.Unmarshal(&reused.D)
				r.m.Unmarshal(&reused.G)
			}
			m.Unmarshal(&reused.D)
			m.Unmarshal(&reused.G)
		case "inspect":
			// looking things up in a kept message (by code, by path through its groups), printing
			// and measuring it are reads: they must leave it alone
			for _, r := range kept {
				for _, a := range r.m.AVP {
					r.m.FindAVP(a.Code, a.VendorID)
					r.m.FindAVPs(a.Code, a.VendorID)
					if g, ok := a.Data.(*diam.GroupedAVP); ok && g != nil {
						for _, b := range g.AVP {
							r.m.FindAVPsWithPath([]interface{}{a.Code, b.Code}, dict.UndefinedVendorID)
							if h, ok := b.Data.(*diam.GroupedAVP); ok && h != nil && len(h.AVP) > 0 {
								last := h.AVP[len(h.AVP)-1]
								r.m.FindAVPsWithPath([]interface{}{a.Code, b.Code, last.Code}, dict.UndefinedVendorID)
							}
						}
					}
				}
				// the whole top level, filtered by vendor (an empty path selects every top-level AVP)
				r.m.FindAVPsWithPath(nil, 0)
				r.m.FindAVPsWithPath([]interface{}{}, 10415)
				r.m.FindAVPsWithPath(nil, dict.UndefinedVendorID)
				_ = r.m.String()
				_ = r.m.Len()
			}
		case "answer":
			// answering a kept request (and editing the answer) must leave the request alone
			for _, r := range kept {
				a := r.m.Answer(2001)
				a.NewAVP(264, 0x40, 0, datatype.DiameterIdentity("answerer.example"))
				a.Header.CommandFlags |= 0x20
				a.Header.HopByHopID ^= 0x55
				var w bytes.Buffer
				a.WriteTo(&w)
			}
		case "reserialize":
			// the application relays / traces what it kept: writing a message must not alter it
			for _, r := range kept {
				r.m.Serialize()
				var w bytes.Buffer
				r.m.WriteTo(&w)
			}
		case "conn-retain", "conn-read":
			if pc == nil {
				var err error
				if pc, err = newPersistentConn(p); err != nil {
					return ev.Failf("harness-conn", "%v", err)
				}
			}
			m, f := pc.deliver(ref, i)
			if f != nil {
				return f
			}
			if st.Kind == "conn-retain" {
				r := &retained{step: i, m: m, want: &st.Msg, ref: ref, avps: avpSnapshot(m.AVP, 0)}
				if d := gen.CompareTree(st.Msg.AVPs, m.AVP, ""); d != "" {
					return ev.Failf("harness-read", "step %d: the connection loop delivered a different message: %s", i, d)
				}
				r.str = m.String()
				kept = append(kept, r)
			}
		case "forward":
			// a relay forwards every kept message: a plain write, and writes with a retry budget
			// to a transport that first refuses (nothing accepted, temporary error) or accepts a
			// part; writing a message is not a reason for it to change
			for _, r := range kept {
				var w bytes.Buffer
				r.m.WriteTo(&w)
				r.m.WriteToWithRetry(&flakyWriter{refuse: 1}, 2)
				r.m.WriteToWithRetry(&flakyWriter{refuse: 2, part: 7}, 3)
				r.m.WriteToStreamWithRetry(&flakyWriter{refuse: 1}, 3, 1)
				r.m.WriteToWithRetry(&flakyWriter{refuse: 3}, 1) // the budget runs out
			}
		case "write":
			m := diam.NewMessage(st.Msg.Code, st.Msg.Flags, st.Msg.App, st.Msg.HbH, st.Msg.E2E, p)
			for _, a := range st.Msg.AVPs {
				m.AddAVP(a.ToDiamAVP())
			}
			var w bytes.Buffer
			if _, err := m.WriteTo(&w); err != nil {
				return ev.Failf("harness-write", "step %d: WriteTo: %v", i, err)
			}
		}
		for _, r := range kept {
			if f := verify(r, i, st.Kind); f != nil {
				return f
			}
		}
	}
	return nil
}

// flakyWriter refuses its first writes with a temporary error (accepting `part` bytes of each,
// if there are that many), then accepts everything.
type flakyWriter struct {
	refuse, part int
	bytes.Buffer
}

func (w *flakyWriter) Write(b []byte) (int, error) {
	if w.refuse > 0 {
		w.refuse--
		k := w.part
		if k > len(b) {
			k = len(b)
		}
		w.Buffer.Write(b[:k])
		return k, &memnet.TempError{Msg: "scripted temporary write error"}
	}
	return w.Buffer.Write(b)
}

// persistentConn is one library-served in-memory connection used for several steps.
type persistentConn struct {
	mc   *memnet.Conn
	got  chan *diam.Message
	stop chan struct{}
}

func newPersistentConn(p *dict.Parser) (*persistentConn, error) {
	pc := &persistentConn{mc: memnet.NewConn(), got: make(chan *diam.Message, 16), stop: make(chan struct{})}
	mux := diam.NewServeMux()
	mux.HandleFunc("ALL", func(c diam.Conn, m *diam.Message) { pc.got <- m })
	go func() {
		for {
			select {
			case <-mux.ErrorReports():
			case <-pc.stop:
				return
			}
		}
	}()
	_, err := diam.NewConn(pc.mc, "", mux, p)
	return pc, err
}

func (pc *persistentConn) deliver(ref []byte, step int) (*diam.Message, *ev.Failure) {
	pc.mc.Feed(ref) // one segment: header and body are buffered together
	select {
	case m := <-pc.got:
		return m, nil
	case <-time.After(5 * time.Second):
		return nil, ev.Failf("harness-conn", "step %d: the connection loop did not deliver the message within 5 s", step)
	}
}

func (pc *persistentConn) close() {
	pc.mc.FeedEOF()
	pc.mc.WaitClosed(5 * time.Second)
	pc.mc.Close()
	close(pc.stop)
}

// readThroughConn lets the library's own connection loop read the message.
func readThroughConn(p *dict.Parser, ref []byte, step int) *ev.Failure {
	mc := memnet.NewConn()
	got := make(chan *diam.Message, 4)
	mux := diam.NewServeMux()
	mux.HandleFunc("ALL", func(c diam.Conn, m *diam.Message) { got <- m })
	go func() {
		for range mux.ErrorReports() {
		}
	}()
	if _, err := diam.NewConn(mc, "", mux, p); err != nil {
		return ev.Failf("harness-conn", "step %d: NewConn: %v", step, err)
	}
	mc.Feed(ref)
	select {
	case <-got:
	case <-time.After(5 * time.Second):
		return ev.Failf("harness-conn", "step %d: the connection loop did not deliver the message within 5 s", step)
	}
	mc.FeedEOF()
	if !mc.WaitClosed(5 * time.Second) {
		return ev.Failf("harness-conn", "step %d: the connection loop did not close the transport within 5 s of EOF", step)
	}
	return nil
}

var prop = ev.Register(&ev.Prop[Case]{
	ID: "C06", Name: "retained",
	Rule: "histories of {retain a decoded message, retain a message delivered by a long-lived library-served connection while that connection goes on receiving, read other content on the same goroutine / another goroutine / through a fresh or the same library-served in-memory connection, read / retain from one bytes.Buffer that the application refills, WriteTo, forward a kept message (WriteTo, WriteToWithRetry / WriteToStreamWithRetry against a transport that first refuses or accepts a part), re-serialise, Unmarshal into a reused struct, Answer, inspect (FindAVP / FindAVPs / FindAVPsWithPath through its groups, String, Len), echo the AVPs of a retained message into an answer with AddAVP / InsertAVP or through Marshal of a []*diam.AVP field, relay (build and write further messages with Marshal from structs whose []*diam.AVP / *diam.AVP / diam.AVP fields - first, in the middle, inside a Grouped struct, inside an embedded struct - hold EVERY window kept.AVP[i:j] of the AVP list of a kept message and of each group inside it, followed by fields of the relay's own, then NewAVP / AddAVP / InsertAVP on the marshalled message; the same windows AVP by AVP and as the member list of a GroupedAVP of the relay's own given to NewAVP; the values kept.AVP[k].Data - plain and whole groups - handed to Message.NewAVP / diam.NewAVP), append to the slices FindAVPs / FindAVPsWithPath returned, advertise (the Auth- / Acct- / Vendor-Specific-Application-Id AVPs of the kept messages become the configuration of an sm.Client that dials twice over an in-memory transport), retain a non-canonical wire image (other widths of fixed-width, IPv4 and IPv6 AVPs, application-id AVPs without the M bit / of other widths, all of these also inside groups and groups in groups; version octet 0 / 2 / 255), keep a second decoding of the bytes of the first retained message, overwrite in place the slice-backed values (and replace others, and flip a flag bit) of one retained message - the others must not change} with messages made of slice-backed types (Address IPv4/IPv6/other, IPv4, IPv6, OctetString, undefined codes, groups of them) on both sides of the 1 KiB pooled buffer; after EVERY step every retained message must still equal the abstract message it was decoded from (tree, re-serialisation, rendering, and the snapshot of code / flags / vendor id / Length / value bytes of every AVP taken when it was decoded); non-trivial = a retained message with a slice-backed value and body <= 1024 followed by a later read with body <= 1024",
	Gen:  genCase, Run: runCase,
	Classify: func(c Case) (bool, []string) {
		var cl []string
		seen := map[string]bool{}
		nt := false
		retainedSmall := false
		for _, s := range c.Steps {
			if !seen[s.Kind] {
				seen[s.Kind] = true
				cl = append(cl, "step:"+s.Kind)
			}
			small := bodyLen(&s.Msg) <= 1024
			if s.Kind != "retain" && s.Kind != "conn-retain" && s.Kind != "buf-retain" && s.Kind != "write" && small && retainedSmall {
				nt = true
			}
			if s.Kind == "retain" || s.Kind == "conn-retain" || s.Kind == "buf-retain" {
				if small && retainedSmall {
					nt = true
				}
				if small && sliceBacked(s.Msg.AVPs) {
					retainedSmall = true
				}
				if !small {
					cl = append(cl, "retained-body>1KiB")
				}
				grouped := false
				gen.Walk(s.Msg.AVPs, 1, func(a *gen.AVP, _ int) {
					if a.V.T == gen.TGrouped && len(a.Children) >= 2 {
						grouped = true
					}
				})
				if grouped && !seen["retained-group"] {
					seen["retained-group"] = true
					cl = append(cl, "retained-grouped-avp-with-2+-members")
				}
				if bodyLen(&s.Msg) > 64<<10 {
					cl = append(cl, "retained-body>64KiB")
				}
			}
		}
		return nt, append(cl, "dict:"+c.Dict.Name)
	},
})

func TestC06Retained(t *testing.T) { prop.Check(t, 1500, 50000) }
func TestC06Keep(t *testing.T)     { ev.RunKeep(t, "C06") }

// Two kept messages that both carry IPv4 / IPv6 / Address AVPs of an unusual width (what the
// decoder stands in for such a payload must be as private as any other value), then the
// application overwrites the values of the first: the second must not change.
func TestC06PrivateCopiesOfOddValues(t *testing.T) {
	f := gen.FixedCodecDict()
	dc := gen.DictChoice{Name: "generated", Gen: &f}
	_, cat, err := dc.Load()
	if err != nil {
		t.Fatalf("harness: %v", err)
	}
	code := func(typ string) uint32 { return cat.EntriesFor(0, typ)[0].Code }
	wire := func(n4, n6, na int, hbh uint32) []byte {
		return refcodec.EncodeMessage(refcodec.Header{Version: 1, Flags: 0x80, Code: 300, HopByHop: hbh, EndToEnd: 9},
			[]*refcodec.Node{{Code: code(gen.TIPv4), Flags: 0x40, Payload: make([]byte, n4)}, {Code: code(gen.TIPv6), Flags: 0x40, Payload: make([]byte, n6)},
				{Code: code(gen.TAddress), Flags: 0x40, Payload: refcodec.Address(8, make([]byte, na))}}, false)
	}
	plain := gen.Msg{Flags: 0x80, Code: 300, HbH: 1, E2E: 2}
	prop.Enumerate(t, false, func(yield func(Case) bool) {
		for _, n4 := range []int{0, 3, 4, 5, 16} {
			for _, n6 := range []int{0, 4, 15, 16, 17} {
				for _, na := range []int{0, 1, 2, 6, 18} {
					c := Case{Dict: dc, Steps: []Step{{Kind: "retain-odd", Msg: plain, Odd: wire(n4, n6, na, 1)}, {Kind: "retain-odd", Msg: plain, Odd: wire(n4, n6, na, 2)},
						{Kind: "scribble", Msg: plain}, {Kind: "retain-odd", Msg: plain, Odd: wire(n4, n6, na, 3)}, {Kind: "scribble", Msg: plain}, {Kind: "read", Msg: plain}}}
					if !yield(c) {
						return
					}
				}
			}
		}
	})
}
func TestReplay(t *testing.T) { ev.Replay(t) }

var _ = fmt.Sprint
