// C06 - A decoded message never changes after it has been returned.
package c06

import (
	"bytes"
	"fmt"
	"sync"
	"testing"
	"time"

	"github.com/fiorix/go-diameter/v4/diam"
	"github.com/fiorix/go-diameter/v4/diam/dict"
	"pgregory.net/rapid"

	"verif/internal/ev"
	"verif/internal/gen"
	"verif/internal/memnet"
)

type Step struct {
	Kind string  `json:"kind"` // retain | read | read-goroutine | read-conn | write | conn-retain | conn-read
	// conn-retain / conn-read use ONE connection that lives as long as the case: the message is
	// delivered in a single segment and (conn-retain) kept by the handler while the connection
	// goes on receiving.
	Msg  gen.Msg `json:"msg"`
}

type Case struct {
	Dict  gen.DictChoice `json:"dict"`
	Steps []Step         `json:"steps"`
}

var sliceTypes = []string{gen.TAddress, gen.TAddress, gen.TIPv4, gen.TIPv6, gen.TOctetString, gen.TUTF8String}

func sliceBacked(avps []*gen.AVP) bool {
	found := false
	gen.Walk(avps, 1, func(a *gen.AVP, _ int) {
		switch a.V.T {
		case gen.TAddress, gen.TUnknown, gen.TIPv4, gen.TIPv6, gen.TOctetString:
			found = true
		}
	})
	return found
}

func bodyLen(m *gen.Msg) int { return len(m.RefBytes()) - 20 }

func genCase(t *rapid.T) Case {
	c := Case{Dict: gen.DictChoice{Name: "default"}}
	if rapid.Bool().Draw(t, "generated-dict") {
		f := gen.CodecDict(t)
		c.Dict = gen.DictChoice{Name: "generated", Gen: &f}
	}
	_, cat, err := c.Dict.Load()
	if err != nil {
		t.Fatalf("harness: %v", err)
	}
	var types []string
	for _, ty := range sliceTypes {
		if len(cat.EntriesFor(0, ty)) > 0 {
			types = append(types, ty)
		}
	}
	n := rapid.IntRange(2, 12).Draw(t, "steps")
	// one size class per case most of the time: the pooled buffer is shared by equal-sized reads
	for i := 0; i < n; i++ {
		kind := "retain"
		if i > 0 {
			kind = rapid.SampledFrom([]string{"retain", "read", "read", "read-goroutine", "read-conn", "write", "conn-retain", "conn-retain", "conn-read", "conn-read"}).Draw(t, "kind")
		}
		var m gen.Msg
		m.Flags, m.Code, m.App, m.HbH, m.E2E = cat.Header(t)
		m.App = 0
		if _, err := cat.P.FindCommand(0, m.Code); err != nil {
			for _, cm := range cat.Cmds {
				if cm.App == 0 && cm.HasReq {
					m.Code, m.Flags = cm.Code, 0x80
					break
				}
			}
		}
		maxBytes := 60
		if rapid.IntRange(0, 4).Draw(t, "big") == 0 {
			maxBytes = 1500
		}
		m.AVPs = cat.Tree(t, 0, gen.TreeOpts{MaxTop: rapid.IntRange(1, 6).Draw(t, "top"), MaxDepth: 3, OnlyTypes: types, Val: gen.ValueOpts{MaxBytes: maxBytes}})
		c.Steps = append(c.Steps, Step{Kind: kind, Msg: m})
	}
	return c
}

type retained struct {
	step int
	m    *diam.Message
	want *gen.Msg
	ref  []byte
	str  string
}

func verify(r *retained, after int, what string) *ev.Failure {
	h := r.m.Header
	if h.Version != 1 || int(h.MessageLength) != len(r.ref) || h.CommandFlags != r.want.Flags || h.CommandCode != r.want.Code ||
		h.ApplicationID != r.want.App || h.HopByHopID != r.want.HbH || h.EndToEndID != r.want.E2E {
		return ev.Failf("retained-header-changed", "message retained at step %d: header changed after step %d (%s): %+v", r.step, after, what, *h)
	}
	if d := gen.CompareTree(r.want.AVPs, r.m.AVP, ""); d != "" {
		return ev.Failf("retained-message-changed", "message retained at step %d (body %d bytes) no longer holds its values after step %d (%s): %s", r.step, len(r.ref)-20, after, what, d)
	}
	b, err := r.m.Serialize()
	if err != nil || !bytes.Equal(b, r.ref) {
		return ev.Failf("retained-message-changed", "message retained at step %d serialises differently after step %d (%s) (err %v)", r.step, after, what, err)
	}
	if s := r.m.String(); s != r.str {
		return ev.Failf("retained-message-changed", "message retained at step %d renders differently after step %d (%s):\n before %q\n after  %q", r.step, after, what, r.str, s)
	}
	return nil
}

func runCase(c Case) *ev.Failure {
	p, _, err := c.Dict.Load()
	if err != nil {
		return ev.Failf("harness-dict", "%v", err)
	}
	var kept []*retained
	var pc *persistentConn
	defer func() {
		if pc != nil {
			pc.close()
		}
	}()
	for i := range c.Steps {
		st := &c.Steps[i]
		ref := st.Msg.RefBytes()
		switch st.Kind {
		case "retain":
			m, err := diam.ReadMessage(bytes.NewReader(ref), p)
			if err != nil {
				return ev.Failf("harness-read", "step %d: reference image rejected: %v", i, err)
			}
			r := &retained{step: i, m: m, want: &st.Msg, ref: ref}
			r.str = m.String()
			kept = append(kept, r)
		case "read":
			if _, err := diam.ReadMessage(bytes.NewReader(ref), p); err != nil {
				return ev.Failf("harness-read", "step %d: reference image rejected: %v", i, err)
			}
		case "read-goroutine":
			var wg sync.WaitGroup
			wg.Add(1)
			go func() {
				defer wg.Done()
				diam.ReadMessage(bytes.NewReader(ref), p)
			}()
			wg.Wait()
		case "read-conn":
			if f := readThroughConn(p, ref, i); f != nil {
				return f
			}
		case "conn-retain", "conn-read":
			if pc == nil {
				var err error
				if pc, err = newPersistentConn(p); err != nil {
					return ev.Failf("harness-conn", "%v", err)
				}
			}
			m, f := pc.deliver(ref, i)
			if f != nil {
				return f
			}
			if st.Kind == "conn-retain" {
				r := &retained{step: i, m: m, want: &st.Msg, ref: ref}
				if d := gen.CompareTree(st.Msg.AVPs, m.AVP, ""); d != "" {
					return ev.Failf("harness-read", "step %d: the connection loop delivered a different message: %s", i, d)
				}
				r.str = m.String()
				kept = append(kept, r)
			}
		case "write":
			m := diam.NewMessage(st.Msg.Code, st.Msg.Flags, st.Msg.App, st.Msg.HbH, st.Msg.E2E, p)
			for _, a := range st.Msg.AVPs {
				m.AddAVP(a.ToDiamAVP())
			}
			var w bytes.Buffer
			if _, err := m.WriteTo(&w); err != nil {
				return ev.Failf("harness-write", "step %d: WriteTo: %v", i, err)
			}
		}
		for _, r := range kept {
			if f := verify(r, i, st.Kind); f != nil {
				return f
			}
		}
	}
	return nil
}

// persistentConn is one library-served in-memory connection used for several steps.
type persistentConn struct {
	mc   *memnet.Conn
	got  chan *diam.Message
	stop chan struct{}
}

func newPersistentConn(p *dict.Parser) (*persistentConn, error) {
	pc := &persistentConn{mc: memnet.NewConn(), got: make(chan *diam.Message, 16), stop: make(chan struct{})}
	mux := diam.NewServeMux()
	mux.HandleFunc("ALL", func(c diam.Conn, m *diam.Message) { pc.got <- m })
	go func() {
		for {
			select {
			case <-mux.ErrorReports():
			case <-pc.stop:
				return
			}
		}
	}()
	_, err := diam.NewConn(pc.mc, "", mux, p)
	return pc, err
}

func (pc *persistentConn) deliver(ref []byte, step int) (*diam.Message, *ev.Failure) {
	pc.mc.Feed(ref) // one segment: header and body are buffered together
	select {
	case m := <-pc.got:
		return m, nil
	case <-time.After(5 * time.Second):
		return nil, ev.Failf("harness-conn", "step %d: the connection loop did not deliver the message within 5 s", step)
	}
}

func (pc *persistentConn) close() {
	pc.mc.FeedEOF()
	pc.mc.WaitClosed(5 * time.Second)
	pc.mc.Close()
	close(pc.stop)
}

// readThroughConn lets the library's own connection loop read the message.
func readThroughConn(p *dict.Parser, ref []byte, step int) *ev.Failure {
	mc := memnet.NewConn()
	got := make(chan *diam.Message, 4)
	mux := diam.NewServeMux()
	mux.HandleFunc("ALL", func(c diam.Conn, m *diam.Message) { got <- m })
	go func() {
		for range mux.ErrorReports() {
		}
	}()
	if _, err := diam.NewConn(mc, "", mux, p); err != nil {
		return ev.Failf("harness-conn", "step %d: NewConn: %v", step, err)
	}
	mc.Feed(ref)
	select {
	case <-got:
	case <-time.After(5 * time.Second):
		return ev.Failf("harness-conn", "step %d: the connection loop did not deliver the message within 5 s", step)
	}
	mc.FeedEOF()
	if !mc.WaitClosed(5 * time.Second) {
		return ev.Failf("harness-conn", "step %d: the connection loop did not close the transport within 5 s of EOF", step)
	}
	return nil
}

var prop = ev.Register(&ev.Prop[Case]{
	ID: "C06", Name: "retained",
	Rule: "histories of {retain a decoded message, retain a message delivered by a long-lived library-served connection while that connection goes on receiving, read other content on the same goroutine / another goroutine / through a fresh or the same library-served in-memory connection, WriteTo} with messages made of slice-backed types (Address IPv4/IPv6/other, IPv4, IPv6, OctetString, undefined codes, groups of them) on both sides of the 1 KiB pooled buffer; after EVERY step every retained message must still equal the abstract message it was decoded from (tree, re-serialisation, rendering); non-trivial = a retained message with a slice-backed value and body <= 1024 followed by a later read with body <= 1024",
	Gen:  genCase, Run: runCase,
	Classify: func(c Case) (bool, []string) {
		var cl []string
		seen := map[string]bool{}
		nt := false
		retainedSmall := false
		for _, s := range c.Steps {
			if !seen[s.Kind] {
				seen[s.Kind] = true
				cl = append(cl, "step:"+s.Kind)
			}
			small := bodyLen(&s.Msg) <= 1024
			if s.Kind != "retain" && s.Kind != "conn-retain" && s.Kind != "write" && small && retainedSmall {
				nt = true
			}
			if s.Kind == "retain" || s.Kind == "conn-retain" {
				if small && retainedSmall {
					nt = true
				}
				if small && sliceBacked(s.Msg.AVPs) {
					retainedSmall = true
				}
				if !small {
					cl = append(cl, "retained-body>1KiB")
				}
			}
		}
		return nt, append(cl, "dict:"+c.Dict.Name)
	},
})

func TestC06Retained(t *testing.T) { prop.Check(t, 1500, 50000) }
func TestC06Keep(t *testing.T)     { ev.RunKeep(t, "C06") }
func TestReplay(t *testing.T)      { ev.Replay(t) }

var _ = fmt.Sprint
