package c06

import (
	"bytes"
	"fmt"
	"strings"
	"testing"

	"github.com/fiorix/go-diameter/v4/diam"
	"github.com/fiorix/go-diameter/v4/diam/dict"
	"pgregory.net/rapid"

	"verif/internal/dicts"
	"verif/internal/ev"
	"verif/internal/refcodec"
)

// "Nothing that happens later alters them", where what happens later is a dictionary load: a
// kept message carries AVPs the dictionary did not define when it was read (a vendor dictionary
// added at run time); the definitions arrive afterwards, more messages are read with them, and
// the holder looks things up in the kept message. Its header, its AVPs (code, flags, vendor id,
// Length, Go type of the value, value bytes) and its wire image must be what they were. (How the
// message RENDERS may follow the dictionary - String looks names up - so rendering is left out.)

type LateDictCase struct {
	Types    []string `json:"types"`    // the type each late-defined code gets
	Payloads [][]byte `json:"payloads"` // payload of each such AVP in the kept message
	InGroup  []bool   `json:"in_group"` // the AVP sits inside a Failed-AVP group
	ByName   bool     `json:"by_name"`  // the holder looks the AVPs up by their (new) names as well
}

func lateDictXML(types []string) string {
	var b strings.Builder
	b.WriteString(`<?xml version="1.0" encoding="UTF-8"?><diameter><application id="0" type="acct" name="Base">`)
	for i, ty := range types {
		fmt.Fprintf(&b, `<avp name="Late-%d" code="%d" must="-" may="P,M" must-not="V" may-encrypt="-"><data type="%s">`, i, 3100000+i, ty)
		if ty == "Grouped" {
			b.WriteString(`<rule avp="Origin-State-Id" required="false" max="1"/>`)
		}
		b.WriteString(`</data></avp>`)
	}
	b.WriteString(`</application></diameter>`)
	return b.String()
}

func runLateDict(c LateDictCase) *ev.Failure {
	emb, err := dicts.EmbeddedXML()
	if err != nil {
		return ev.Failf("harness-dict", "%v", err)
	}
	base := ""
	for _, e := range emb {
		if e.Var == "baseXML" {
			base = e.XML
		}
	}
	p, err := dicts.Load(base)
	if err != nil {
		return ev.Failf("harness-dict", "%v", err)
	}
	var nodes []*refcodec.Node
	nodes = append(nodes, &refcodec.Node{Code: 264, Flags: 0x40, Payload: []byte("peer.example")})
	for i, pay := range c.Payloads {
		n := &refcodec.Node{Code: uint32(3100000 + i), Payload: pay}
		if c.InGroup[i] {
			n = &refcodec.Node{Code: 279, Flags: 0x40, Children: []*refcodec.Node{n}}
		}
		nodes = append(nodes, n)
	}
	ref := refcodec.EncodeMessage(refcodec.Header{Version: 1, Flags: 0x80, Code: 257, HopByHop: 5, EndToEnd: 6}, nodes, false)
	m, err := diam.ReadMessage(bytes.NewReader(ref), p)
	if err != nil {
		return ev.Failf("harness-read", "reference image rejected: %v", err)
	}
	hdr, snap := *m.Header, avpSnapshot(m.AVP, 0)
	// the definitions arrive
	if err := p.Load(strings.NewReader(lateDictXML(c.Types))); err != nil {
		return ev.Failf("harness-dict", "late definitions rejected: %v", err)
	}
	// the connection goes on receiving (the same content, typed now)
	if _, err := diam.ReadMessage(bytes.NewReader(ref), p); err != nil {
		_ = err // payloads the new type cannot hold are refused: not the subject
	}
	check := func(what string) *ev.Failure {
		if *m.Header != hdr {
			return ev.Failf("retained-header-changed", "kept message with AVPs defined in the dictionary only after it was read: header changed after %s: was %+v, is %+v", what, hdr, *m.Header)
		}
		if s := avpSnapshot(m.AVP, 0); s != snap {
			return ev.Failf("retained-message-changed:late-dictionary", "a kept message carries AVPs the dictionary defined only AFTER it was read (types %v); after %s its AVPs (code, flags, vendor id, Length, Go type, value bytes) changed:\n was %s\n is  %s", c.Types, what, clipS(snap), clipS(s))
		}
		if b, err := m.Serialize(); err != nil || !bytes.Equal(b, ref) {
			return ev.Failf("retained-message-changed:late-dictionary", "a kept message carries AVPs the dictionary defined only after it was read (types %v); after %s it serialises differently (err %v):\n was % x\n is  % x", c.Types, what, err, ref, b)
		}
		return nil
	}
	if f := check("the dictionary load and a further read"); f != nil {
		return f
	}
	for i := range c.Payloads {
		code := uint32(3100000 + i)
		m.FindAVP(code, 0)
		m.FindAVP(code, dict.UndefinedVendorID)
		m.FindAVPs(code, 0)
		m.FindAVPsWithPath([]interface{}{code}, dict.UndefinedVendorID)
		m.FindAVPsWithPath([]interface{}{uint32(279), code}, dict.UndefinedVendorID)
		if c.ByName {
			name := fmt.Sprintf("Late-%d", i)
			m.FindAVP(name, 0)
			m.FindAVPs(name, dict.UndefinedVendorID)
			m.FindAVPsWithPath([]interface{}{"Failed-AVP", name}, dict.UndefinedVendorID)
		}
		if f := check(fmt.Sprintf("looking up AVP %d (FindAVP / FindAVPs / FindAVPsWithPath)", code)); f != nil {
			return f
		}
	}
	_ = m.String()
	_ = m.PrettyDump()
	_ = m.Len()
	var dst struct {
		OriginHost string      `avp:"Origin-Host"`
		Failed     []*diam.AVP `avp:"Failed-AVP"`
	}
	m.Unmarshal(&dst)
	if f := check("rendering, measuring and unmarshalling it"); f != nil {
		return f
	}
	a := m.Answer(2001)
	for _, x := range m.AVP {
		a.AddAVP(x)
	}
	a.Serialize()
	return check("echoing its AVPs into an answer")
}

var lateDictTypes = []string{"Address", "IPv4", "IPv6", "Unsigned32", "Unsigned64", "Integer32", "Time", "UTF8String", "OctetString", "DiameterIdentity", "Enumerated", "Float32", "Grouped", "DiameterURI"}

var lateDictProp = ev.Register(&ev.Prop[LateDictCase]{
	ID: "C06", Name: "definitions-arrive-after-the-message",
	Rule: "a private dictionary (base only); a message with 1..4 AVPs of codes it does not define (payloads of 0..20 bytes: random, or a well-formed value of another width), at top level or inside Failed-AVP, is read and kept; then definitions for those codes are loaded (each one of 14 data types, Grouped included), the same bytes are read again, and the holder searches the kept message by code, by path and by the new names, renders, measures, unmarshals it and echoes its AVPs into an answer. " +
		"Demanded after each of these: header, AVP snapshot (code, flags, vendor id, Length, Go type of the value, value bytes) and wire image of the kept message are what they were when it was read. Every case is non-trivial",
	Gen: func(t *rapid.T) LateDictCase {
		var c LateDictCase
		n := rapid.IntRange(1, 4).Draw(t, "late-avps")
		for i := 0; i < n; i++ {
			c.Types = append(c.Types, rapid.SampledFrom(lateDictTypes).Draw(t, "type"))
			var pay []byte
			switch rapid.IntRange(0, 3).Draw(t, "payload-kind") {
			case 0:
				pay = rapid.SliceOfN(rapid.Byte(), 0, 20).Draw(t, "payload")
			case 1: // a width no fixed-width type has
				pay = rapid.SliceOfN(rapid.Byte(), 5, 7).Draw(t, "payload")
			case 2: // an Address (family 1 or 2) of a wrong or right width
				pay = append([]byte{0, byte(rapid.IntRange(1, 2).Draw(t, "family"))}, rapid.SliceOfN(rapid.Byte(), 3, 17).Draw(t, "address")...)
			default: // something that reads as an AVP (for the Grouped type)
				pay = refcodec.EncodeAVP(&refcodec.Node{Code: 278, Flags: 0x40, Payload: refcodec.U32(gen32(t))})
			}
			c.Payloads = append(c.Payloads, pay)
			c.InGroup = append(c.InGroup, rapid.IntRange(0, 2).Draw(t, "in-group") == 0)
		}
		c.ByName = rapid.Bool().Draw(t, "by-name")
		return c
	},
	Run: runLateDict,
	Classify: func(c LateDictCase) (bool, []string) {
		cl := []string{fmt.Sprintf("by-name:%v", c.ByName)}
		for _, ty := range c.Types {
			cl = append(cl, "late-type:"+ty)
		}
		return true, cl
	},
})

func gen32(t *rapid.T) uint32 { return rapid.Uint32().Draw(t, "u32") }

func TestC06DefinitionsArriveLater(t *testing.T) { lateDictProp.Check(t, 400, 20000) }
