package c06

import (
	"bytes"
	"reflect"
	"sync"
	"testing"

	"github.com/fiorix/go-diameter/v4/diam"
	"github.com/fiorix/go-diameter/v4/diam/datatype"
	"github.com/fiorix/go-diameter/v4/diam/dict"

	"verif/internal/ev"
	"verif/internal/gen"
	"verif/internal/refcodec"
)

// "relay": the holder of a kept message builds ANOTHER message out of parts of it - "all AVPs but
// the trailing ones, plus my own", "everything but one AVP", "the members of that group plus one" -
// and writes it. The parts are handed to the library as windows of the kept message's AVP list
// (kept.AVP[i:j], which has spare capacity whenever it does not end at the last element) in
// []*diam.AVP struct fields given to Message.Marshal, as elements (*diam.AVP, diam.AVP fields), and
// one by one through AddAVP / InsertAVP; the new message then gets further AVPs (the following
// struct fields, NewAVP / AddAVP / InsertAVP on the marshalled message) and is serialised. Building
// and writing another message is something that "happens later": the kept message must be what it
// was. The harness never writes through kept.AVP itself.

type relayNames struct{ any, u32, str, grp string }

var (
	relayDefault   = relayNames{any: "Origin-Host", u32: "Origin-State-Id", str: "Product-Name", grp: "Vendor-Specific-Application-Id"}
	relayGenerated = relayNames{any: "B-Address", u32: "B-Unsigned32", str: "B-UTF8String", grp: "B-Grouped"}
)

type relayShape struct {
	name string
	typ  reflect.Type
}

var (
	relayOnce   sync.Once
	relayShapes map[string][]relayShape
)

func relayField(name string, t reflect.Type, avp string) reflect.StructField {
	return reflect.StructField{Name: name, Type: t, Tag: reflect.StructTag(`avp:"` + avp + `"`)}
}

// The field names say what fillRelay puts there: Win = the window kept[i:j], Win2 = what follows
// the element after the window (kept[j+1:]: Win + Win2 is "everything but one AVP"), Ptr / Val =
// one element of the kept list (the pointer, a copy of the struct), N / Ns / S = values of the
// relay's own, G = a Grouped AVP given as a struct, E = an embedded struct.
func buildRelayShapes(n relayNames) []relayShape {
	tWin := reflect.TypeOf([]*diam.AVP(nil))
	tPtr := reflect.TypeOf((*diam.AVP)(nil))
	tVal := reflect.TypeOf(diam.AVP{})
	tU32 := reflect.TypeOf(datatype.Unsigned32(0))
	tU32s := reflect.TypeOf([]datatype.Unsigned32(nil))
	tStr := reflect.TypeOf(datatype.UTF8String(""))
	win, win2 := relayField("Win", tWin, n.any), relayField("Win2", tWin, n.any)
	ptr, val := relayField("Ptr", tPtr, n.any), relayField("Val", tVal, n.any)
	num, nums, str := relayField("N", tU32, n.u32), relayField("Ns", tU32s, n.u32), relayField("S", tStr, n.str)
	inner := reflect.StructOf([]reflect.StructField{win, num})
	innerOnly := reflect.StructOf([]reflect.StructField{win})
	return []relayShape{
		{"window,value", reflect.StructOf([]reflect.StructField{win, num})},
		{"window", reflect.StructOf([]reflect.StructField{win})},
		{"window,values", reflect.StructOf([]reflect.StructField{win, nums, str})},
		{"window,element,copy,value", reflect.StructOf([]reflect.StructField{win, ptr, val, num})},
		{"element,window,value", reflect.StructOf([]reflect.StructField{ptr, win, num})},
		{"copy,window,value", reflect.StructOf([]reflect.StructField{val, win, num})},
		{"window,rest", reflect.StructOf([]reflect.StructField{win, win2})},
		{"window,rest,value", reflect.StructOf([]reflect.StructField{win, win2, num})},
		{"group{window,value},value", reflect.StructOf([]reflect.StructField{relayField("G", inner, n.grp), str})},
		{"group{window},value", reflect.StructOf([]reflect.StructField{relayField("G", innerOnly, n.grp), num})},
		{"window,group{window,value}", reflect.StructOf([]reflect.StructField{win, relayField("G", inner, n.grp)})},
		{"embedded{window},value", reflect.StructOf([]reflect.StructField{{Name: "E", Type: innerOnly, Anonymous: true}, num})},
		{"embedded{window,value},value", reflect.StructOf([]reflect.StructField{{Name: "E", Type: inner, Anonymous: true}, str})},
	}
}

func shapesFor(dictName string) []relayShape {
	relayOnce.Do(func() {
		relayShapes = map[string][]relayShape{"default": buildRelayShapes(relayDefault), "generated": buildRelayShapes(relayGenerated)}
	})
	if s, ok := relayShapes[dictName]; ok {
		return s
	}
	return relayShapes["generated"]
}

// fillRelay reports false when the shape cannot be filled from this list (a diam.AVP field needs
// an AVP to copy: the zero diam.AVP is not an AVP).
func fillRelay(v reflect.Value, list []*diam.AVP, i, j int) bool {
	for k := 0; k < v.NumField(); k++ {
		f := v.Field(k)
		switch v.Type().Field(k).Name {
		case "Win":
			f.Set(reflect.ValueOf(list[i:j]))
		case "Win2":
			if j < len(list) {
				f.Set(reflect.ValueOf(list[j+1:]))
			}
		case "Ptr":
			if len(list) > 0 {
				f.Set(reflect.ValueOf(list[j%len(list)]))
			}
		case "Val":
			if len(list) == 0 || list[i%len(list)] == nil {
				return false
			}
			f.Set(reflect.ValueOf(*list[i%len(list)]))
		case "N":
			f.Set(reflect.ValueOf(datatype.Unsigned32(1234)))
		case "Ns":
			f.Set(reflect.ValueOf([]datatype.Unsigned32{1, 2, 3}))
		case "S":
			f.Set(reflect.ValueOf(datatype.UTF8String("relay")))
		case "G", "E":
			if !fillRelay(f, list, i, j) {
				return false
			}
		}
	}
	return true
}

// avpLists returns the AVP list of the message and of every group inside it.
func avpLists(avps []*diam.AVP, out [][]*diam.AVP) [][]*diam.AVP {
	out = append(out, avps)
	for _, a := range avps {
		if g, ok := a.Data.(*diam.GroupedAVP); ok && g != nil {
			out = avpLists(g.AVP, out)
		}
	}
	return out
}

func relayKept(r *retained, dictName string, p *dict.Parser, step int) *ev.Failure {
	shapes := shapesFor(dictName)
	big := len(r.ref) > 4096
	grpCode := uint32(260)
	if dictName != "default" {
		if a, err := p.FindAVP(0, relayGenerated.grp); err == nil {
			grpCode = a.Code
		}
	}
	for _, list := range avpLists(r.m.AVP, nil) {
		n := len(list)
		orig := append([]*diam.AVP(nil), list...)
		// cheap check after every message built (the full comparison follows at the end of the step)
		changed := func(how string, i, j int) *ev.Failure {
			for k := range orig {
				if list[k] != orig[k] {
					return ev.Failf("retained-message-changed", "message retained at step %d: element %d of a %d-element AVP list of it (the message's own or a group's) was %v and is %v after step %d (relay) built another message %s from the window [%d:%d] of that list",
						r.step, k, n, orig[k], list[k], step, how, i, j)
				}
			}
			return nil
		}
		for i := 0; i <= n; i++ {
			for j := i; j <= n; j++ {
				if n > 6 && i > 1 && j < n-1 && (i+j)%3 != 0 {
					continue // long lists: every prefix, every window from the second element, every window up to the last two, a third of the rest
				}
				for si, sh := range shapes {
					v := reflect.New(sh.typ)
					if !fillRelay(v.Elem(), list, i, j) {
						continue
					}
					fwd := diam.NewMessage(r.m.Header.CommandCode, r.m.Header.CommandFlags, 0, 7, 8, p)
					if err := fwd.Marshal(v.Interface()); err != nil {
						return ev.Failf("harness-relay", "step %d: Marshal of a struct {%s} holding the window [%d:%d] of a %d-element AVP list of the kept message: %v", step, sh.name, i, j, n, err)
					}
					// the relay goes on editing the message it is building
					fwd.NewAVP(264, 0x40, 0, datatype.DiameterIdentity("relay.example"))
					fwd.AddAVP(diam.NewAVP(296, 0x40, 0, datatype.DiameterIdentity("example")))
					fwd.InsertAVP(diam.NewAVP(263, 0x40, 0, datatype.UTF8String("relay;1")))
					if !big || (i == 0 && si < 2) {
						var w bytes.Buffer
						fwd.WriteTo(&w)
					}
					if f := changed("with Marshal of a struct {"+sh.name+"} followed by NewAVP / AddAVP / InsertAVP", i, j); f != nil {
						return f
					}
				}
				// the same window, AVP by AVP
				fwd := diam.NewMessage(r.m.Header.CommandCode, r.m.Header.CommandFlags, 0, 7, 8, p)
				for k, x := range list[i:j] {
					if x == nil {
						continue
					}
					switch k % 3 {
					case 0:
						fwd.AddAVP(x)
					case 1:
						fwd.InsertAVP(x)
					default:
						fwd.NewAVP(x.Code, x.Flags, x.VendorID, x.Data)
					}
				}
				fwd.NewAVP(264, 0x40, 0, datatype.DiameterIdentity("relay.example"))
				if !big || i == 0 {
					var w bytes.Buffer
					fwd.WriteTo(&w)
				}
				if f := changed("with AddAVP / InsertAVP / NewAVP", i, j); f != nil {
					return f
				}
				// the window as the member list of a group of the relay's own
				fwd = diam.NewMessage(r.m.Header.CommandCode, r.m.Header.CommandFlags, 0, 7, 8, p)
				g := &diam.GroupedAVP{AVP: list[i:j]}
				if (i+j)%2 == 0 {
					fwd.NewAVP(grpCode, 0x40, 0, g)
				} else {
					fwd.AddAVP(diam.NewAVP(grpCode, 0x40, 0, g))
				}
				fwd.NewAVP(264, 0x40, 0, datatype.DiameterIdentity("relay.example"))
				if !big || i == 0 {
					var w bytes.Buffer
					fwd.WriteTo(&w)
				}
				if f := changed("with NewAVP of a GroupedAVP whose member list is the window", i, j); f != nil {
					return f
				}
			}
		}
		// the VALUES of the kept AVPs (kept.AVP[k].Data: plain values and whole groups) handed to
		// Message.NewAVP / diam.NewAVP for another message, the usual way of passing an AVP on
		fwd := diam.NewMessage(r.m.Header.CommandCode, r.m.Header.CommandFlags, 0, 7, 8, p)
		for _, x := range list {
			if x == nil || x.Data == nil {
				continue
			}
			fwd.NewAVP(x.Code, x.Flags, x.VendorID, x.Data)
			fwd.AddAVP(diam.NewAVP(x.Code, x.Flags&^0x80, 0, x.Data))
			fwd.InsertAVP(diam.NewAVP(x.Code, x.Flags, 10415, x.Data))
			fwd.NewAVP(grpCode, 0x40, 0, &diam.GroupedAVP{AVP: []*diam.AVP{diam.NewAVP(x.Code, x.Flags, x.VendorID, x.Data)}})
		}
		var w bytes.Buffer
		fwd.WriteTo(&w)
		if f := changed("with NewAVP of the values (Data) of its AVPs", 0, n); f != nil {
			return f
		}
	}
	return nil
}

// "find-append": the holder collects AVPs of a kept message with FindAVPs / FindAVPsWithPath and
// goes on appending to the slice it was given (AVPs of its own, the results of the next lookup):
// ordinary use of a returned slice. It never assigns to an element of a returned slice.
func findAppendKept(r *retained) {
	extra := diam.NewAVP(264, 0x40, 0, datatype.DiameterIdentity("collector.example"))
	var all []*diam.AVP
	for _, a := range r.m.AVP {
		if found, err := r.m.FindAVPs(a.Code, a.VendorID); err == nil {
			found = append(found, extra, extra)
			all = append(found, all...)
		}
		if found, err := r.m.FindAVPsWithPath([]interface{}{a.Code}, a.VendorID); err == nil {
			found = append(found, extra)
			all = append(all, found...)
		}
		if g, ok := a.Data.(*diam.GroupedAVP); ok && g != nil {
			for _, b := range g.AVP {
				if found, err := r.m.FindAVPsWithPath([]interface{}{a.Code, b.Code}, dict.UndefinedVendorID); err == nil {
					found = append(found, extra, extra, extra)
					all = append(all, found...)
				}
				if found, err := r.m.FindAVPs(b.Code, b.VendorID); err == nil {
					found = append(found, extra)
					all = append(found, all...)
				}
			}
		}
	}
	// an empty path selects the whole top level
	for _, vendor := range []uint32{0, 10415, dict.UndefinedVendorID} {
		if found, err := r.m.FindAVPsWithPath(nil, vendor); err == nil {
			found = append(found, extra)
			all = append(all, found...)
		}
	}
	_ = all
}

// The relay patterns on fixed messages (flat, with a group, with a group inside a group) under both
// dictionaries, each followed by a read of other content.
func TestC06RelayWindows(t *testing.T) {
	f := gen.FixedCodecDict()
	generated := gen.DictChoice{Name: "generated", Gen: &f}
	_, cat, err := generated.Load()
	if err != nil {
		t.Fatalf("harness: %v", err)
	}
	code := func(typ string) uint32 { return cat.EntriesFor(0, typ)[0].Code }
	addr := func(c uint32, last byte) *gen.AVP {
		return &gen.AVP{Code: c, Flags: 0x40, V: gen.Val{T: gen.TAddress, Fam: 1, B: []byte{10, 1, 2, last}}}
	}
	oct := func(c uint32, s string) *gen.AVP {
		return &gen.AVP{Code: c, Flags: 0x40, V: gen.Val{T: gen.TOctetString, B: []byte(s)}}
	}
	group := func(c uint32, kids ...*gen.AVP) *gen.AVP {
		return &gen.AVP{Code: c, Flags: 0x40, V: gen.Val{T: gen.TGrouped}, Children: kids}
	}
	unknown := func(c uint32, n int) *gen.AVP {
		return &gen.AVP{Code: c, V: gen.Val{T: gen.TUnknown, B: bytes.Repeat([]byte{byte(n)}, n)}}
	}
	type variant struct {
		dc   gen.DictChoice
		msgs [][]*gen.AVP
		code uint32
	}
	ga, go_, gg, gg2 := code(gen.TAddress), code(gen.TOctetString), code(gen.TGrouped), uint32(150)
	variants := []variant{
		{dc: gen.DictChoice{Name: "default"}, code: 257, msgs: [][]*gen.AVP{
			{addr(257, 1), addr(257, 2), oct(25, "class-1"), addr(257, 3), unknown(3000001, 5), oct(25, "class-2")},
			{addr(257, 1), group(279, addr(257, 2), oct(25, "in-group"), unknown(3000002, 3), addr(257, 4)), oct(25, "tail")},
			{group(279, group(279, addr(257, 1), addr(257, 2), addr(257, 3)), oct(25, "x"), addr(257, 5)), addr(257, 6), addr(257, 7)},
			{addr(257, 1)},
			{addr(257, 1), oct(25, "two")},
		}},
		{dc: generated, code: 300, msgs: [][]*gen.AVP{
			{addr(ga, 1), addr(ga, 2), oct(go_, "class-1"), addr(ga, 3), unknown(3000001, 5), oct(go_, "class-2")},
			{addr(ga, 1), group(gg, addr(ga, 2), oct(go_, "in-group"), unknown(3000002, 3), addr(ga, 4)), oct(go_, "tail")},
			{group(gg, group(gg2, addr(ga, 1), addr(ga, 2), addr(ga, 3)), oct(go_, "x"), addr(ga, 5)), addr(ga, 6), addr(ga, 7)},
			{addr(ga, 1)},
			{addr(ga, 1), oct(go_, "two")},
		}},
	}
	prop.Enumerate(t, false, func(yield func(Case) bool) {
		for _, v := range variants {
			for _, avps := range v.msgs {
				m := gen.Msg{Flags: 0x80, Code: v.code, HbH: 11, E2E: 12, AVPs: avps}
				other := gen.Msg{Flags: 0x80, Code: v.code, HbH: 13, E2E: 14, AVPs: avps[:1]}
				for _, retain := range []string{"retain", "conn-retain", "buf-retain"} {
					for _, use := range []string{"relay", "find-append"} {
						c := Case{Dict: v.dc, Steps: []Step{{Kind: retain, Msg: m}, {Kind: use, Msg: other}, {Kind: "read", Msg: other}, {Kind: retain, Msg: other}, {Kind: use, Msg: other}}}
						if !yield(c) {
							return
						}
					}
				}
			}
		}
	})
}

// Kept messages whose AVPs - at top level, inside a group, inside a group in a group - have a
// declared length that is not the one the library would produce for the value (an IPv4-mapped
// address under family 2, fixed-width values of other widths, IPv4 / IPv6 AVPs of other lengths),
// and application-id AVPs as a sloppy peer sends them (no M bit, inside a Vendor-Specific-
// Application-Id without M bit): each is relayed (windows, values handed to NewAVP), searched and
// advertised upstream through an sm.Client, then other content is read. The kept message must keep
// every decoded field (code, flags, Length, vendor id, value).
func TestC06RelayOddGroups(t *testing.T) {
	f := gen.FixedCodecDict()
	generated := gen.DictChoice{Name: "generated", Gen: &f}
	_, cat, err := generated.Load()
	if err != nil {
		t.Fatalf("harness: %v", err)
	}
	code := func(typ string) uint32 { return cat.EntriesFor(0, typ)[0].Code }
	mapped := refcodec.Address(2, []byte{0, 0, 0, 0, 0, 0, 0, 0, 0, 0, 0xff, 0xff, 10, 1, 2, 3})
	leaf := func(c uint32, flags uint8, payload []byte) *refcodec.Node {
		return &refcodec.Node{Code: c, Flags: flags, Payload: payload}
	}
	group := func(c uint32, flags uint8, kids ...*refcodec.Node) *refcodec.Node {
		return &refcodec.Node{Code: c, Flags: flags, Group: true, Children: kids}
	}
	wide := []byte{0, 0, 0, 0, 0, 0, 0, 7}
	type variant struct {
		dc   gen.DictChoice
		code uint32
		msgs [][]*refcodec.Node
	}
	g4, g6, gg := code(gen.TIPv4), code(gen.TIPv6), code(gen.TGrouped)
	variants := []variant{
		{dc: gen.DictChoice{Name: "default"}, code: 257, msgs: [][]*refcodec.Node{
			{leaf(268, 0x40, refcodec.U32(5004)), leaf(264, 0x40, []byte("srv")), group(279, 0x40, leaf(257, 0x40, mapped), leaf(278, 0x40, wide))},
			{group(279, 0x40, leaf(278, 0x40, []byte{1, 2}), group(279, 0x40, leaf(55, 0x40, wide), leaf(257, 0x40, mapped), leaf(278, 0x40, nil))), leaf(278, 0x40, wide)},
			{leaf(264, 0x40, []byte("peer")), leaf(258, 0, refcodec.U32(4)), leaf(259, 0, refcodec.U32(3)), leaf(258, 0x20, refcodec.U32(4)), leaf(258, 0x40, refcodec.U32(4))},
			{leaf(264, 0x40, []byte("peer")), group(260, 0, leaf(266, 0, refcodec.U32(10415)), leaf(258, 0, refcodec.U32(4))), group(260, 0x40, leaf(266, 0x40, refcodec.U32(10415)), leaf(259, 0, refcodec.U32(3)))},
			{group(260, 0, leaf(266, 0, wide), leaf(258, 0, wide)), leaf(258, 0, wide), leaf(259, 0x40, refcodec.U32(3))},
		}},
		{dc: generated, code: 300, msgs: [][]*refcodec.Node{
			{leaf(g4, 0x40, make([]byte, 7)), group(gg, 0x40, leaf(g4, 0x40, make([]byte, 5)), leaf(g6, 0x40, make([]byte, 3)))},
			{group(gg, 0x40, group(150, 0x40, leaf(g6, 0x40, make([]byte, 17)), leaf(g4, 0x40, nil)), leaf(g4, 0x40, make([]byte, 16))), leaf(g6, 0x40, make([]byte, 4))},
			{leaf(258, 0, refcodec.U32(4)), group(260, 0, leaf(266, 0, refcodec.U32(10415)), leaf(258, 0, refcodec.U32(4))), leaf(g4, 0x40, make([]byte, 2))},
		}},
	}
	prop.Enumerate(t, false, func(yield func(Case) bool) {
		for _, v := range variants {
			plain := gen.Msg{Flags: 0x80, Code: v.code, HbH: 13, E2E: 14}
			for k, nodes := range v.msgs {
				odd := refcodec.EncodeMessage(refcodec.Header{Version: 1, Flags: 0x80, Code: v.code, HopByHop: 11, EndToEnd: uint32(k)}, nodes, false)
				for _, use := range []string{"relay", "advertise", "find-append", "echo", "marshal-echo"} {
					c := Case{Dict: v.dc, Steps: []Step{{Kind: "retain-odd", Msg: plain, Odd: odd}, {Kind: use, Msg: plain}, {Kind: "read", Msg: plain},
						{Kind: "retain-odd", Msg: plain, Odd: odd}, {Kind: use, Msg: plain}, {Kind: "advertise", Msg: plain}, {Kind: "relay", Msg: plain}}}
					if !yield(c) {
						return
					}
				}
			}
		}
	})
}
