package c06

import (
	"bytes"
	"fmt"
	"sync"
	"testing"
	"time"

	"github.com/fiorix/go-diameter/v4/diam"
	"github.com/fiorix/go-diameter/v4/diam/datatype"
	"github.com/fiorix/go-diameter/v4/diam/dict"
	"github.com/fiorix/go-diameter/v4/diam/sm"
	"pgregory.net/rapid"

	"verif/internal/ev"
	"verif/internal/memnet"
	"verif/internal/refcodec"
)

// "A handler may keep a message ... nothing that happens later - writes - alters it": here the
// handler that keeps the messages stands in front of the library's own state machine (an auditing
// or logging wrapper). The state machine parses each request, builds the answer from it and writes
// the answer; afterwards, and again at the end of the connection, every kept request must still
// serialise to the image the peer sent and carry the header it was decoded with.

type SMMsg struct {
	Kind  string `json:"kind"` // cer-ok | cer-no-common-app | cer-no-origin-host | cer-inband | dwr | dwr-state | app
	HbH   uint32 `json:"hbh"`
	E2E   uint32 `json:"e2e"`
	Flags uint8  `json:"flags"`         // extra command flag bits besides R (P 0x40, T 0x10)
	OSI   bool   `json:"osi,omitempty"` // a CER that carries the peer's Origin-State-Id (42)
	NoM   bool   `json:"no_m,omitempty"` // a CER whose application-id AVPs (and the members of its Vendor-Specific-Application-Id) come without the M bit
}

type SMCase struct {
	StateID  uint32  `json:"state_id,omitempty"` // Settings.OriginStateID of the local state machine
	Firmware uint32  `json:"firmware,omitempty"` // Settings.FirmwareRevision (an optional AVP of the answers)
	Msgs     []SMMsg `json:"msgs"`               // the first one is the CER
	// Upstream: the holder of the kept CER is a relay; after the last message it advertises the
	// peer's applications upstream: an sm.Client configured with the application AVPs of the kept
	// CER dials (see upstream_test.go) while the downstream connection is still open.
	Upstream bool `json:"upstream,omitempty"`
}

func (m SMMsg) image() []byte {
	oh := &refcodec.Node{Code: 264, Flags: 0x40, Payload: []byte("peer.example")}
	or := &refcodec.Node{Code: 296, Flags: 0x40, Payload: []byte("example")}
	flags := 0x80 | m.Flags
	switch m.Kind {
	case "dwr":
		return refcodec.EncodeMessage(refcodec.Header{Version: 1, Flags: flags, Code: 280, HopByHop: m.HbH, EndToEnd: m.E2E}, []*refcodec.Node{oh, or}, false)
	case "dwr-state":
		return refcodec.EncodeMessage(refcodec.Header{Version: 1, Flags: flags, Code: 280, HopByHop: m.HbH, EndToEnd: m.E2E},
			[]*refcodec.Node{oh, or, {Code: 278, Flags: 0x40, Payload: refcodec.U32(77)}}, false)
	case "app":
		// Accounting-Request of the base accounting application, answered by a handler of the application
		return refcodec.EncodeMessage(refcodec.Header{Version: 1, Flags: flags, Code: 271, App: 3, HopByHop: m.HbH, EndToEnd: m.E2E},
			[]*refcodec.Node{{Code: 263, Flags: 0x40, Payload: []byte("sess;1")}, oh, or, {Code: 480, Flags: 0x40, Payload: refcodec.U32(1)}, {Code: 485, Flags: 0x40, Payload: refcodec.U32(0)},
				{Code: 257, Flags: 0x40, Payload: refcodec.Address(1, []byte{10, 1, 2, 3})}}, false)
	}
	nodes := []*refcodec.Node{oh, or, {Code: 257, Flags: 0x40, Payload: refcodec.Address(1, []byte{10, 0, 0, 5})},
		{Code: 266, Flags: 0x40, Payload: refcodec.U32(99)}, {Code: 269, Payload: []byte("peer")}}
	if m.OSI {
		nodes = append(nodes, &refcodec.Node{Code: 278, Flags: 0x40, Payload: refcodec.U32(42)})
	}
	switch m.Kind {
	case "cer-ok-vsa":
		// the application inside a Vendor-Specific-Application-Id whose Vendor-Id is NOT the first member
		nodes = append(nodes, &refcodec.Node{Code: 260, Flags: 0x40, Group: true, Children: []*refcodec.Node{
			{Code: 258, Flags: 0x40, Payload: refcodec.U32(16777251)}, {Code: 266, Flags: 0x40, Payload: refcodec.U32(10415)}}})
	case "cer-ok":
		nodes = append(nodes, &refcodec.Node{Code: 259, Flags: 0x40, Payload: refcodec.U32(3)}, &refcodec.Node{Code: 258, Flags: 0x40, Payload: refcodec.U32(4)})
	case "cer-no-common-app":
		nodes = append(nodes, &refcodec.Node{Code: 258, Flags: 0x40, Payload: refcodec.U32(999)})
	case "cer-no-origin-host":
		nodes = append(nodes[1:], &refcodec.Node{Code: 259, Flags: 0x40, Payload: refcodec.U32(3)})
	case "cer-inband":
		nodes = append(nodes, &refcodec.Node{Code: 259, Flags: 0x40, Payload: refcodec.U32(3)}, &refcodec.Node{Code: 299, Flags: 0x40, Payload: refcodec.U32(1)})
	}
	if m.NoM {
		for _, n := range nodes {
			if n.Code == 258 || n.Code == 259 || n.Code == 260 {
				n.Flags &^= 0x40
				for _, k := range n.Children {
					k.Flags &^= 0x40
				}
			}
		}
	}
	return refcodec.EncodeMessage(refcodec.Header{Version: 1, Flags: flags, Code: 257, HopByHop: m.HbH, EndToEnd: m.E2E}, nodes, false)
}

type keptSM struct {
	idx   int
	m     *diam.Message
	hdr   diam.Header
	navps int
	image []byte
}

func (k keptSM) check(when string) *ev.Failure {
	if *k.m.Header != k.hdr {
		return ev.Failf("sm:retained-header-changed", "request %d kept by the handler in front of the state machine: its header was %+v when it was delivered and is %+v %s", k.idx, k.hdr, *k.m.Header, when)
	}
	if len(k.m.AVP) != k.navps {
		return ev.Failf("sm:retained-message-changed", "request %d kept by the handler in front of the state machine had %d AVPs when it was delivered and has %d %s", k.idx, k.navps, len(k.m.AVP), when)
	}
	b, err := k.m.Serialize()
	if err != nil || !bytes.Equal(b, k.image) {
		return ev.Failf("sm:retained-message-changed", "request %d kept by the handler in front of the state machine no longer serialises to the image the peer sent %s (err %v)\n sent % x\n now  % x", k.idx, when, err, k.image, b)
	}
	return nil
}

func runSM(c SMCase) *ev.Failure {
	machine := sm.New(&sm.Settings{OriginHost: "srv.example", OriginRealm: "example", VendorID: 13, ProductName: "verif",
		OriginStateID: datatype.Unsigned32(c.StateID), FirmwareRevision: datatype.Unsigned32(c.Firmware), HostIPAddresses: []datatype.Address{datatype.Address([]byte{10, 0, 0, 1})}})
	machine.HandleFunc("ACR", func(cc diam.Conn, m *diam.Message) { m.Answer(2001).WriteTo(cc) })
	stop := make(chan struct{})
	defer close(stop)
	go func() {
		for {
			select {
			case <-machine.ErrorReports():
			case <-machine.HandshakeNotify():
			case <-stop:
				return
			}
		}
	}()
	var mu sync.Mutex
	var kept []keptSM
	var early *ev.Failure
	handled := make(chan struct{}, 64)
	front := diam.HandlerFunc(func(cc diam.Conn, m *diam.Message) {
		b, _ := m.Serialize()
		k := keptSM{m: m, hdr: *m.Header, navps: len(m.AVP), image: b}
		mu.Lock()
		k.idx = len(kept)
		kept = append(kept, k)
		mu.Unlock()
		machine.ServeDIAM(cc, m)
		if f := k.check("right after the state machine handled it"); f != nil {
			mu.Lock()
			if early == nil {
				early = f
			}
			mu.Unlock()
		}
		handled <- struct{}{}
	})
	mc := memnet.NewConn()
	if _, err := diam.NewConn(mc, "peer", front, dict.Default); err != nil {
		return ev.Failf("harness-conn", "%v", err)
	}
	defer mc.Close()
	var images [][]byte
	for _, m := range c.Msgs {
		img := m.image()
		images = append(images, img)
		mc.Feed(img)
		select {
		case <-handled:
		case <-time.After(5 * time.Second):
			if closed, _ := mc.Closed(); closed {
				break
			}
			return ev.Failf("harness-no-dispatch", "message %q was not handed to the handler within 5 s", m.Kind)
		}
		if closed, _ := mc.Closed(); closed {
			break
		}
	}
	if c.Upstream {
		mu.Lock()
		first := append([]keptSM(nil), kept...)
		mu.Unlock()
		for _, k := range first {
			if !advertiseUpstream(k.m) {
				continue
			}
			if f := k.check("after an sm.Client configured with its application AVPs had dialled upstream"); f != nil {
				return f
			}
		}
	}
	mc.FeedEOF()
	mc.WaitClosed(2 * time.Second)
	mu.Lock()
	defer mu.Unlock()
	if early != nil {
		return early
	}
	for _, k := range kept {
		// the image the handler saw must be the image the peer sent (reference encoding is canonical)
		if !bytes.Equal(k.image, images[k.idx]) {
			return ev.Failf("harness-image", "request %d: the delivered message serialises to another image than the one fed\n fed % x\n got % x", k.idx, images[k.idx], k.image)
		}
		if f := k.check("after the connection had ended"); f != nil {
			return f
		}
	}
	return nil
}

var smKeepProp = ev.Register(&ev.Prop[SMCase]{
	ID: "C06", Name: "kept-in-front-of-state-machine",
	Rule: "a handler that keeps every request stands in front of a server state machine (sm.New, Origin-State-Id and Firmware-Revision configured or not) on an in-memory connection: a CER (accepted - applications at top level or inside a Vendor-Specific-Application-Id whose Vendor-Id is not the first member -, or refused for no common application / missing Origin-Host / inband security; with or without the peer's Origin-State-Id), then after an accepted one 0..5 DWRs (with and without Origin-State-Id) and accounting requests answered by an application handler, with generated identifiers and P / T bits; the CER's application-id AVPs with or without the M bit; optionally the holder then advertises the peer's applications upstream: an sm.Client whose AuthApplicationID / AcctApplicationID / VendorSpecificApplicationID are the AVPs of the kept CER dials twice over an in-memory transport (first CER turned down, second accepted). " +
		"Demanded: right after the state machine handled a request, and again after the connection ended, the kept request has the header and AVP count it was delivered with and serialises to the image the peer sent. non-trivial = the state machine wrote an answer built from a kept request",
	Gen: func(t *rapid.T) SMCase {
		var c SMCase
		if rapid.Bool().Draw(t, "origin-state-id") {
			c.StateID = rapid.Uint32Range(1, 1<<31).Draw(t, "state")
		}
		if rapid.Bool().Draw(t, "firmware-revision") {
			c.Firmware = rapid.Uint32Range(1, 1<<20).Draw(t, "firmware")
		}
		ids := func(l string) (uint32, uint32, uint8) {
			return rapid.SampledFrom([]uint32{0, 1, 0x80000000, 0xffffffff, 0x1234}).Draw(t, l+"-hbh"), rapid.Uint32().Draw(t, l+"-e2e"),
				rapid.SampledFrom([]uint8{0, 0, 0x40, 0x10, 0x50}).Draw(t, l+"-flags")
		}
		h, e, f := ids("cer")
		c.Msgs = append(c.Msgs, SMMsg{Kind: rapid.SampledFrom([]string{"cer-ok", "cer-ok", "cer-ok-vsa", "cer-no-common-app", "cer-no-origin-host", "cer-inband"}).Draw(t, "cer"), HbH: h, E2E: e, Flags: f,
			OSI: rapid.Bool().Draw(t, "cer-origin-state-id"), NoM: rapid.Bool().Draw(t, "cer-apps-without-m-bit")})
		c.Upstream = rapid.Bool().Draw(t, "advertise-upstream")
		if c.Msgs[0].Kind == "cer-ok" || c.Msgs[0].Kind == "cer-ok-vsa" {
			n := rapid.IntRange(0, 5).Draw(t, "requests")
			for i := 0; i < n; i++ {
				h, e, f := ids(fmt.Sprintf("req%d", i))
				c.Msgs = append(c.Msgs, SMMsg{Kind: rapid.SampledFrom([]string{"dwr", "dwr", "dwr-state", "app"}).Draw(t, "kind"), HbH: h, E2E: e, Flags: f})
			}
		}
		return c
	},
	Run: runSM,
	Classify: func(c SMCase) (bool, []string) {
		cl := map[string]bool{}
		for _, m := range c.Msgs {
			cl[m.Kind] = true
			if m.Flags&0x10 != 0 {
				cl["t-flag"] = true
			}
			if m.OSI {
				cl["cer-with-origin-state-id"] = true
			}
			if m.NoM {
				cl["cer-apps-without-m-bit"] = true
			}
		}
		if c.StateID != 0 {
			cl["origin-state-id-configured"] = true
		}
		if c.Firmware != 0 {
			cl["firmware-revision-configured"] = true
		}
		if c.Upstream {
			cl["advertised-upstream"] = true
		}
		var ks []string
		for k := range cl {
			ks = append(ks, k)
		}
		sortStrings(ks)
		return true, ks
	},
})

func sortStrings(s []string) {
	for i := 1; i < len(s); i++ {
		for j := i; j > 0 && s[j] < s[j-1]; j-- {
			s[j], s[j-1] = s[j-1], s[j]
		}
	}
}

func TestC06KeptInFrontOfStateMachine(t *testing.T) { smKeepProp.Check(t, 400, 12000) }
