#!/bin/bash
# Offline setup: compile the framework and every check's test binary once so
# that later runs only rebuild what changed in /repo. Nothing is downloaded.
set -eu
cd "$(dirname "$0")"
export GOFLAGS=-mod=mod GOPROXY=off GOSUMDB=off GOTOOLCHAIN=local
mkdir -p evidence replays .work
go build ./internal/...
go test -tags verif -vet=off -count=1 -run '^$' ./props/... > .work/setup.log 2>&1 || { cat .work/setup.log; exit 1; }
echo "setup ok"
