#!/usr/bin/env python3
"""Driver of the go-diameter property checks.

usage: check.py <property-id> quick|thorough        run the check of one property
       check.py <property-id> --replay <file>       re-run one saved failing case

exit 0  the property held on everything explored (KNOWN-FINDING lines may be printed)
exit 1  a violation was found: a line "VIOLATION property=<id> replay=<path>" is printed
exit 2  the check could not run to a verdict (build error, deadline, worker death)
"""
import glob
import json
import os
import re
import shutil
import subprocess
import sys
import time

ROOT = os.path.dirname(os.path.abspath(__file__))
REPO = "/repo"
NCPU = os.cpu_count() or 4

# Per property: go test -run patterns and budgets. "fuzz": native fuzz targets
# of the thorough tier as (name, seconds). "race": tests repeated under -race
# in the thorough tier. Times are wall-clock budgets, not verdicts.
CONFIG = {
    "C01": {"fuzz": [("FuzzWireRoundTrip", 120)]},
    "C02": {},
    "C03": {"fuzz": [("FuzzReadMessage", 120), ("FuzzDecodeAVP", 90), ("FuzzDecodeGrouped", 60)]},
    "C04": {"fuzz": [("FuzzFraming", 120)]},
    "C05": {"race": "TestC05Interleaved"},
    "C06": {"race": "TestC06"},
    "C07": {"race": "TestC07Concurrent"},
    "C08": {"race": "TestC08"},
    "C09": {"race": "TestC09Concurrent"},
    "C10": {"race": "TestC10Shared"},
    "C11": {"race": "TestC11Shared"},
    "C12": {},
    "C13": {"race": "TestC13ServerConcurrent|TestC13ServerDWA"},
    "C14": {"race": "TestC14"},
    "C15": {"race": "TestC15"},
    "C16": {"race": "TestC16ConcurrentAnswers"},
    "C17": {},
    "C18": {},
    "C19": {"race": "TestC19"},
    "C20": {},
}
QUICK_TIMEOUT = int(os.environ.get("VERIF_QUICK_TIMEOUT", "900"))
THOROUGH_TIMEOUT = int(os.environ.get("VERIF_THOROUGH_TIMEOUT", "3000"))


def goenv():
    e = dict(os.environ)
    e.update({"GOFLAGS": "-mod=mod", "GOPROXY": "off", "GOSUMDB": "off", "GOTOOLCHAIN": "local",
              "CGO_ENABLED": e.get("CGO_ENABLED", "1")})
    return e


def say(*a):
    print(*a, flush=True)


def build(pid, work, race=False):
    out = os.path.join(work, "t-race.bin" if race else "t.bin")
    cmd = ["go", "test", "-c", "-tags", "verif", "-vet=off", "-o", out]
    if race:
        cmd.append("-race")
    ov = os.environ.get("VERIF_OVERLAY")
    if ov:
        cmd += ["-overlay", ov]
    cmd.append("./props/" + pid.lower())
    p = subprocess.run(cmd, cwd=ROOT, env=goenv(), stdout=subprocess.PIPE, stderr=subprocess.STDOUT, text=True)
    if p.returncode != 0 or not os.path.exists(out):
        say("BUILD-ERROR for", pid)
        say(p.stdout[-4000:])
        return None
    return out


MARK = re.compile(r"^VERIF-(VIOLATION|KNOWN|HARNESS-ERROR|REPLAY-PASS)\s*(.*)$")


def parse_markers(text):
    viol, known, herr = [], [], []
    for line in text.splitlines():
        m = MARK.match(line.strip())
        if not m:
            continue
        kind, rest = m.group(1), m.group(2)
        if kind == "HARNESS-ERROR":
            herr.append(rest)
            continue
        if kind == "REPLAY-PASS":
            continue
        try:
            obj = json.loads(rest)
        except Exception:
            herr.append("unparsable marker: " + rest[:200])
            continue
        (viol if kind == "VIOLATION" else known).append(obj)
    return viol, known, herr


def crash_from_library(text):
    """A worker that died in a Go panic / fatal error whose trace runs through
    the library is a failure of the code under test, not of the harness."""
    if "fatal error: runtime: out of memory" in text or "cannot allocate memory" in text:
        return False
    if "panic: test timed out" in text:
        return False
    m = re.search(r"^(panic: |fatal error: )", text, re.M)
    if not m:
        return False
    tail = text[m.start():]
    return "github.com/fiorix/go-diameter/v4/diam" in tail


def run_procs(pid, work, binpath, tier, seed, nshards, pattern, timeout, tag, extra_env=None):
    """Run nshards copies of the test binary; return list of (rc, logpath, text)."""
    procs = []
    pkgdir = os.path.join(ROOT, "props", pid.lower())
    for sh in range(nshards):
        env = goenv()
        env.update({"VERIF_TIER": tier, "VERIF_SEED": str(seed), "VERIF_SHARD": str(sh),
                    "VERIF_NSHARDS": str(nshards), "VERIF_WORK": work,
                    "VERIF_REPLAYDIR": os.path.join(ROOT, "replays"),
                    "VERIF_KNOWN": os.path.join(ROOT, "known_findings.txt"),
                    "VERIF_KEEPDIR": os.path.join(ROOT, "replays", "keep"),
                    "VERIF_ROOT": ROOT, "VERIF_BIN": binpath})
        if extra_env:
            env.update(extra_env)
        log = os.path.join(work, "%s-shard%d.log" % (tag, sh))
        f = open(log, "w")
        cmd = [binpath, "-test.run", pattern, "-test.timeout", "%ds" % timeout, "-test.count", "1"]
        procs.append((subprocess.Popen(cmd, cwd=pkgdir, env=env, stdout=f, stderr=subprocess.STDOUT), f, log))
    res = []
    deadline = time.time() + timeout + 60
    for p, f, log in procs:
        try:
            rc = p.wait(timeout=max(1, deadline - time.time()))
        except subprocess.TimeoutExpired:
            p.kill()
            p.wait()
            rc = -9
        f.close()
        res.append((rc, log, open(log, errors="replace").read()))
    return res


def run_fuzz(pid, work, target, seconds):
    """Native coverage-guided fuzzing of one target. Returns dict."""
    pkgdir = os.path.join(ROOT, "props", pid.lower())
    cache = os.path.join(work, "fuzzcache")
    env = goenv()
    env.update({"VERIF_TIER": "thorough", "VERIF_WORK": work, "VERIF_ROOT": ROOT,
                "VERIF_KNOWN": os.path.join(ROOT, "known_findings.txt")})
    cmd = ["go", "test", "-tags", "verif", "-vet=off", "-run", "^$", "-fuzz", "^%s$" % target,
           "-fuzztime", "%ds" % seconds, "."]
    ov = os.environ.get("VERIF_OVERLAY")
    if ov:
        cmd[3:3] = ["-overlay", ov]
    log = os.path.join(work, "fuzz-%s.log" % target)
    with open(log, "w") as f:
        try:
            rc = subprocess.run(cmd, cwd=pkgdir, env=env, stdout=f, stderr=subprocess.STDOUT,
                                timeout=seconds + 600).returncode
        except subprocess.TimeoutExpired:
            rc = -9
    text = open(log, errors="replace").read()
    execs, interesting = 0, 0
    for m in re.finditer(r"execs: (\d+) .*?new interesting: (\d+)", text):
        execs, interesting = int(m.group(1)), int(m.group(2))
    crash = None
    m = re.search(r"Failing input written to (\S+)", text)
    if m:
        src = os.path.join(pkgdir, m.group(1))
        dst = os.path.join(ROOT, "replays", "%s-fuzz-%s-%s" % (pid, target, os.path.basename(src)))
        try:
            shutil.move(src, dst)
        except Exception:
            dst = src
        crash = dst
    return {"target": target, "rc": rc, "execs": execs, "interesting": interesting, "crash": crash,
            "log": log, "text": text}


def merge_evidence(pid, tier, seed, work, wall, nviol, fuzz_results, notes):
    stats = []
    for fn in sorted(glob.glob(os.path.join(work, "stats-*.json"))):
        try:
            stats.append(json.load(open(fn)))
        except Exception:
            notes.append("unreadable stats file " + os.path.basename(fn))
    per_test = {}
    for s in stats:
        t = per_test.setdefault(s["test"], {"evaluations": 0, "hashes": set(), "bulk": 0, "classes": {},
                                            "samples": [], "discarded": 0, "excluded_known": 0,
                                            "exhaustive": True, "rule": s.get("rule", ""), "notes": []})
        t["evaluations"] += s["evaluations"]
        t["hashes"].update(s.get("hashes") or [])
        t["bulk"] += s.get("bulk_distinct", 0)
        for k, v in (s.get("classes") or {}).items():
            t["classes"][k] = t["classes"].get(k, 0) + v
        if len(t["samples"]) < 4:
            t["samples"] += (s.get("samples") or [])[: 4 - len(t["samples"])]
        t["discarded"] += s.get("discarded", 0)
        t["excluded_known"] += s.get("excluded_known", 0)
        t["exhaustive"] = t["exhaustive"] and bool(s.get("exhaustive"))
        t["notes"] += s.get("notes") or []
    evaluations = sum(t["evaluations"] for t in per_test.values())
    distinct = sum(len(t["hashes"]) + t["bulk"] for t in per_test.values())
    samples = []
    for name, t in per_test.items():
        for smp in t["samples"][:2]:
            samples.append({"test": name, "case": smp})
    tests = {}
    for name, t in per_test.items():
        tests[name] = {"evaluations": t["evaluations"], "distinct_nontrivial": len(t["hashes"]) + t["bulk"],
                       "exhaustive": t["exhaustive"], "discarded": t["discarded"],
                       "excluded_known_finding_cases": t["excluded_known"], "classes": t["classes"],
                       "rule": t["rule"]}
        if t["notes"]:
            tests[name]["notes"] = sorted(set(t["notes"]))[:20]
    fz = []
    for r in fuzz_results:
        evaluations += r["execs"]
        distinct += r["interesting"]
        fz.append({"target": r["target"], "execs": r["execs"], "new_interesting_inputs": r["interesting"],
                   "crasher": r["crash"]})
    rules = {}
    for n, t in per_test.items():
        if t["rule"]:
            rules.setdefault(t["rule"], []).append(n)
    rule = " || ".join("%s: %s" % (", ".join(ns), r) for r, ns in rules.items())
    if fz:
        rule += " || native fuzz targets: executions counted by the Go fuzzer, distinct = inputs that increased coverage"
    cov = {"evaluations": evaluations, "distinct_nontrivial": distinct, "rule": rule, "samples": samples[:12],
           "exhaustive": bool(per_test) and all(t["exhaustive"] for t in per_test.values()),
           "tests": tests}
    if fz:
        cov["native_fuzz"] = fz
    evd = {"property_id": pid, "tier": tier, "seed": seed, "level": "exploration", "coverage": cov,
           "assumptions": [
               "reference codec / models under /verif/internal are correct (written from RFC 6733 and the property text)",
               "Go toolchain, runtime and pgregory.net/rapid behave as documented",
               "verdict = held on the cases explored by this run; nothing is proved beyond them"] + notes,
           "wall_s": round(wall, 2), "violations": nviol}
    # a run against an overlay (a mutant or a seeded change) is not evidence about /repo: keep it with the run
    evdir = work if os.environ.get("VERIF_OVERLAY") else os.path.join(ROOT, "evidence")
    os.makedirs(evdir, exist_ok=True)
    with open(os.path.join(evdir, pid + ".json"), "w") as f:
        json.dump(evd, f, indent=1, default=str)
    return evaluations, distinct


def replay(pid, path):
    work = os.path.join(ROOT, ".work", pid + "-replay")
    shutil.rmtree(work, ignore_errors=True)
    os.makedirs(work)
    path = os.path.abspath(path)
    head = open(path, "rb").read(64)
    if head.startswith(b"go test fuzz v1"):
        m = re.match(r".*-fuzz-(Fuzz\w+)-(.+)$", os.path.basename(path))
        if not m:
            say("cannot tell the fuzz target from the file name")
            return 2
        target, name = m.group(1), m.group(2)
        pkgdir = os.path.join(ROOT, "props", pid.lower())
        d = os.path.join(pkgdir, "testdata", "fuzz", target)
        os.makedirs(d, exist_ok=True)
        tmp = os.path.join(d, "replay-" + name)
        shutil.copy(path, tmp)
        try:
            p = subprocess.run(["go", "test", "-tags", "verif", "-vet=off", "-run", "^%s$/^replay-%s$" % (target, re.escape(name)), "."],
                               cwd=pkgdir, env=goenv(), stdout=subprocess.PIPE, stderr=subprocess.STDOUT, text=True)
        finally:
            os.remove(tmp)
        say(p.stdout[-3000:])
        if p.returncode == 0:
            return 0
        if "--- FAIL" in p.stdout:
            say("VIOLATION property=%s replay=%s" % (pid, path))
            return 1
        return 2
    binpath = build(pid, work)
    if not binpath:
        return 2
    res = run_procs(pid, work, binpath, "quick", 0, 1, "^TestReplay$", 600, "replay", {"VERIF_REPLAY": path})
    rc, log, text = res[0]
    viol, known, herr = parse_markers(text)
    for k in known:
        say("KNOWN-FINDING: property=%s %s" % (pid, k.get("what", k.get("sig"))))
    if viol:
        say(text[-3000:])
        say("VIOLATION property=%s replay=%s" % (pid, path))
        return 1
    if rc != 0:
        if crash_from_library(text):
            say(text[-3000:])
            say("VIOLATION property=%s replay=%s" % (pid, path))
            return 1
        say(text[-3000:])
        return 2
    say("replay passed: the case no longer violates", pid)
    return 0


def main():
    if len(sys.argv) < 3:
        say(__doc__)
        return 2
    pid = sys.argv[1].upper()
    if pid not in CONFIG:
        say("unknown property", pid)
        return 2
    if sys.argv[2] == "--replay":
        return replay(pid, sys.argv[3])
    tier = sys.argv[2]
    if tier not in ("quick", "thorough"):
        tier = os.environ.get("VERIF_TIER", "quick")
    try:
        seed = int(os.environ.get("VERIF_SEED", "1"))
    except ValueError:
        seed = 1
    cfg = CONFIG[pid]
    t0 = time.time()
    # VERIF_WORKROOT: only the seeded-change evaluation sets it (several runs of one property at a time)
    work = os.path.join(os.environ.get("VERIF_WORKROOT") or os.path.join(ROOT, ".work"), pid + "-" + tier)
    shutil.rmtree(work, ignore_errors=True)
    os.makedirs(work)
    os.makedirs(os.path.join(ROOT, "replays"), exist_ok=True)
    # rapid replays testdata/rapid first: never let stale fail files decide
    shutil.rmtree(os.path.join(ROOT, "props", pid.lower(), "testdata", "rapid"), ignore_errors=True)

    binpath = build(pid, work)
    if not binpath:
        return 2
    nshards = 1 if tier == "quick" else int(os.environ.get("VERIF_SHARDS", str(min(16, NCPU))))
    timeout = QUICK_TIMEOUT if tier == "quick" else THOROUGH_TIMEOUT
    results = run_procs(pid, work, binpath, tier, seed, nshards, cfg.get("run", "."), timeout, "main")
    if tier == "thorough" and cfg.get("race"):
        rb = build(pid, work, race=True)
        if rb:
            results += run_procs(pid, work, rb, "quick", seed, 1, cfg["race"], timeout, "race",
                                 {"VERIF_RACE": "1", "VERIF_WORK": os.path.join(work, "race")})
        else:
            return 2
    fuzz_results = []
    if tier == "thorough":
        scale = float(os.environ.get("VERIF_FUZZ_SCALE", "1"))
        for target, secs in cfg.get("fuzz", []):
            fuzz_results.append(run_fuzz(pid, work, target, max(5, int(secs * scale))))

    violations, knowns, notes, broken = [], [], [], []
    for rc, log, text in results:
        v, k, h = parse_markers(text)
        violations += v
        knowns += k
        for e in h:
            broken.append("harness error: " + e)
        if rc != 0 and not v:
            if "WARNING: DATA RACE" in text and "github.com/fiorix/go-diameter/v4/diam" in text:
                dst = os.path.join(ROOT, "replays", "%s-race-%s.log" % (pid, os.path.basename(log)))
                shutil.copy(log, dst)
                violations.append({"property": pid, "test": "race-detector", "sig": "data-race", "replay": dst,
                                   "detail": "the race detector reported a data race inside the library"})
            elif crash_from_library(text):
                dst = os.path.join(ROOT, "replays", "%s-crash-%s" % (pid, os.path.basename(log)))
                shutil.copy(log, dst)
                violations.append({"property": pid, "test": "process-crash", "sig": "crash", "replay": dst,
                                   "detail": "the test process died in a panic / fatal error inside the library"})
            else:
                broken.append("worker exit status %s without a verdict, see %s" % (rc, log))
    for r in fuzz_results:
        if r["crash"]:
            violations.append({"property": pid, "test": r["target"], "sig": "fuzz-crasher", "replay": r["crash"],
                               "detail": "native fuzzing found a failing input"})
        elif r["rc"] != 0:
            broken.append("fuzz target %s ended with status %s, see %s" % (r["target"], r["rc"], r["log"]))

    wall = time.time() - t0
    seen = set()
    uniq = []
    for v in violations:
        key = (v.get("test"), v.get("replay"))
        if key not in seen:
            seen.add(key)
            uniq.append(v)
    evals, distinct = merge_evidence(pid, tier, seed, work, wall, len(uniq), fuzz_results, notes)

    kseen = set()
    for k in knowns:
        key = (k.get("property"), k.get("sig"))
        if key in kseen:
            continue
        kseen.add(key)
        say("KNOWN-FINDING: property=%s sig=%s %s" % (k.get("property", pid), k.get("sig"), k.get("what", "")))
    say("%s %s seed=%d: %d evaluations, %d distinct non-trivial, %.1fs" % (pid, tier, seed, evals, distinct, wall))
    if uniq:
        for v in uniq:
            say("  [%s] %s: %s" % (v.get("sig"), v.get("test"), (v.get("detail") or "")[:1200]))
        for v in uniq:
            say("VIOLATION property=%s replay=%s" % (pid, v.get("replay")))
        return 1
    if broken:
        for b in broken:
            say("INCONCLUSIVE:", b)
        for rc, log, text in results:
            if rc != 0:
                say("---- tail of", log)
                say(text[-2500:])
        return 2
    if evals == 0:
        say("INCONCLUSIVE: no case was evaluated")
        return 2
    return 0


if __name__ == "__main__":
    sys.exit(main())
