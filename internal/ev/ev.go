// Package ev is the shared harness of every property check: it drives a
// property (generator + deterministic runner) with rapid or with an explicit
// enumeration, measures what was generated (evaluations, distinct non-trivial
// cases, class histogram, samples), writes shrunk failures as replay files,
// honours the known-findings file, and emits the markers that check.py turns
// into evidence files, VIOLATION and KNOWN-FINDING lines.
//
// No RNG other than rapid's is used anywhere; every run is a function of
// (sources, VERIF_SEED, VERIF_TIER, shard).
package ev

import (
	"encoding/json"
	"flag"
	"fmt"
	"hash/fnv"
	"os"
	"path/filepath"
	"runtime"
	"runtime/debug"
	"sort"
	"strconv"
	"strings"
	"sync"
	"testing"
	"time"

	"pgregory.net/rapid"
)

// Failure is the verdict of one case: a root-cause signature computed from
// the input (used to match known_findings.txt) and a human-readable detail.
type Failure struct {
	Sig    string `json:"sig"`
	Detail string `json:"detail"`
}

// Failf builds a Failure.
func Failf(sig, format string, args ...interface{}) *Failure {
	return &Failure{Sig: sig, Detail: fmt.Sprintf(format, args...)}
}

// Env describes the run.
type Env struct {
	Tier      string // quick | thorough
	Seed      int64
	Shard     int
	NShards   int
	WorkDir   string
	ReplayDir string
	KnownFile string
}

var (
	envOnce sync.Once
	env     Env
)

// GetEnv returns the run parameters taken from the environment.
func GetEnv() Env {
	envOnce.Do(func() {
		env.Tier = os.Getenv("VERIF_TIER")
		if env.Tier != "thorough" {
			env.Tier = "quick"
		}
		env.Seed, _ = strconv.ParseInt(os.Getenv("VERIF_SEED"), 10, 64)
		env.Shard, _ = strconv.Atoi(os.Getenv("VERIF_SHARD"))
		env.NShards, _ = strconv.Atoi(os.Getenv("VERIF_NSHARDS"))
		if env.NShards < 1 {
			env.NShards = 1
		}
		env.WorkDir = os.Getenv("VERIF_WORK")
		if env.WorkDir == "" {
			env.WorkDir = filepath.Join(os.TempDir(), "verif-work")
		}
		env.ReplayDir = os.Getenv("VERIF_REPLAYDIR")
		if env.ReplayDir == "" {
			env.ReplayDir = env.WorkDir
		}
		env.KnownFile = os.Getenv("VERIF_KNOWN")
		if env.KnownFile == "" {
			env.KnownFile = "/verif/known_findings.txt"
		}
		os.MkdirAll(env.WorkDir, 0o755)
		os.MkdirAll(env.ReplayDir, 0o755)
	})
	return env
}

// Thorough reports whether the thorough tier was requested.
func Thorough() bool { return GetEnv().Tier == "thorough" }

// Pick returns q in the quick tier and t in the thorough tier.
func Pick(q, t int) int {
	if Thorough() {
		return t
	}
	return q
}

// RapidSeed is the PRNG value handed to rapid: never 0 (0 means random there).
func RapidSeed(salt string) uint64 {
	e := GetEnv()
	h := fnv.New32a()
	h.Write([]byte(salt))
	return uint64(e.Seed)*2 + 1 + uint64(e.Shard)*2000006 + uint64(h.Sum32()%1000)*2
}

// ---------------------------------------------------------------------------
// known findings

type knownEntry struct{ kind, prop, sig, rest string }

var (
	knownOnce sync.Once
	knownList []knownEntry
)

func loadKnown() {
	knownOnce.Do(func() {
		b, err := os.ReadFile(GetEnv().KnownFile)
		if err != nil {
			return
		}
		for _, line := range strings.Split(string(b), "\n") {
			line = strings.TrimSpace(line)
			if line == "" || strings.HasPrefix(line, "#") {
				continue
			}
			f := strings.Fields(line)
			if len(f) < 3 || f[0] != "known:" {
				continue // "fixed:" lines suppress nothing
			}
			e := knownEntry{kind: "known"}
			for _, w := range f[1:3] {
				if strings.HasPrefix(w, "property=") {
					e.prop = strings.TrimPrefix(w, "property=")
				}
				if strings.HasPrefix(w, "sig=") {
					e.sig = strings.TrimPrefix(w, "sig=")
				}
			}
			e.rest = strings.Join(f[3:], " ")
			if e.prop != "" && e.sig != "" {
				knownList = append(knownList, e)
			}
		}
	})
}

// IsKnown reports whether (property, signature) is listed as a known finding.
func IsKnown(prop, sig string) bool {
	loadKnown()
	for _, e := range knownList {
		if e.prop == prop && e.sig == sig {
			return true
		}
	}
	return false
}

// ---------------------------------------------------------------------------
// recorder

const maxSamples = 6

// Recorder accumulates the coverage of one test.
type Recorder struct {
	mu           sync.Mutex
	Property     string           `json:"property"`
	Test         string           `json:"test"`
	Shard        int              `json:"shard"`
	Evaluations  int64            `json:"evaluations"`
	Nontrivial   int64            `json:"nontrivial"`
	Hashes       []uint64         `json:"hashes"`
	Classes      map[string]int64 `json:"classes"`
	Samples      []interface{}    `json:"samples"`
	Discarded    int64            `json:"discarded"`
	ExcludedKn   int64            `json:"excluded_known"`
	BulkDistinct int64            `json:"bulk_distinct"`
	Exhaustive   bool             `json:"exhaustive"`
	Rule         string           `json:"rule"`
	Notes        []string         `json:"notes,omitempty"`
	WallS        float64          `json:"wall_s"`
	hashSet      map[uint64]struct{}
	start        time.Time
}

// NewRecorder creates a recorder that is flushed when the test ends.
func NewRecorder(t testing.TB, prop, test, rule string) *Recorder {
	r := &Recorder{Property: prop, Test: test, Rule: rule, Shard: GetEnv().Shard,
		Classes: map[string]int64{}, hashSet: map[uint64]struct{}{}, start: time.Now()}
	t.Cleanup(r.Flush)
	return r
}

// Case records one evaluated case.
func (r *Recorder) Case(nontrivial bool, hash uint64, classes []string, sample func() interface{}) {
	r.mu.Lock()
	defer r.mu.Unlock()
	r.Evaluations++
	for _, c := range classes {
		r.Classes[c]++
	}
	if nontrivial {
		r.Nontrivial++
		if _, seen := r.hashSet[hash]; !seen {
			r.hashSet[hash] = struct{}{}
			// keep the first few and then a thinning selection of later ones
			n := len(r.hashSet)
			if sample != nil && (len(r.Samples) < maxSamples/2 || (len(r.Samples) < maxSamples && n&(n-1) == 0)) {
				r.Samples = append(r.Samples, sample())
			}
		}
	}
}

// Bulk records n evaluations of an enumerated sub-domain whose cases are
// distinct by construction (distinct of them non-trivial) without hashing.
func (r *Recorder) Bulk(n, distinct int64, class string) {
	r.mu.Lock()
	r.Evaluations += n
	r.Nontrivial += distinct
	r.BulkDistinct += distinct
	if class != "" {
		r.Classes[class] += n
	}
	r.mu.Unlock()
}

// Count adds n to a class counter without counting an evaluation.
func (r *Recorder) Count(class string, n int64) {
	r.mu.Lock()
	r.Classes[class] += n
	r.mu.Unlock()
}

// Discard counts a generated case that could not be used.
func (r *Recorder) Discard() { r.mu.Lock(); r.Discarded++; r.mu.Unlock() }

// Note attaches a free-text remark to the evidence.
func (r *Recorder) Note(format string, args ...interface{}) {
	r.mu.Lock()
	r.Notes = append(r.Notes, fmt.Sprintf(format, args...))
	r.mu.Unlock()
}

// Flush writes the stats file read by check.py.
func (r *Recorder) Flush() {
	r.mu.Lock()
	defer r.mu.Unlock()
	r.WallS = time.Since(r.start).Seconds()
	r.Hashes = r.Hashes[:0]
	for h := range r.hashSet {
		r.Hashes = append(r.Hashes, h)
	}
	sort.Slice(r.Hashes, func(i, j int) bool { return r.Hashes[i] < r.Hashes[j] })
	b, err := json.Marshal(r)
	if err != nil {
		fmt.Printf("VERIF-HARNESS-ERROR cannot encode stats of %s: %v\n", r.Test, err)
		return
	}
	name := fmt.Sprintf("stats-%s-%s-%d.json", r.Property, sanitize(r.Test), r.Shard)
	if err := os.WriteFile(filepath.Join(GetEnv().WorkDir, name), b, 0o644); err != nil {
		fmt.Printf("VERIF-HARNESS-ERROR cannot write stats of %s: %v\n", r.Test, err)
	}
}

func sanitize(s string) string {
	return strings.Map(func(r rune) rune {
		if r >= 'a' && r <= 'z' || r >= 'A' && r <= 'Z' || r >= '0' && r <= '9' || r == '-' || r == '_' {
			return r
		}
		return '_'
	}, s)
}

// HashBytes is the default case hash.
func HashBytes(b []byte) uint64 {
	h := fnv.New64a()
	h.Write(b)
	return h.Sum64()
}

// ---------------------------------------------------------------------------
// properties

// Prop is one executable property: a generator, a deterministic runner and a
// classifier. Cases must be JSON-serialisable: the JSON is the replay format.
type Prop[C any] struct {
	ID       string // property id, e.g. C04
	Name     string // test name, unique within the property
	Rule     string // how cases are generated and what makes one non-trivial
	Gen      func(t *rapid.T) C
	Run      func(c C) *Failure
	Classify func(c C) (nontrivial bool, classes []string)
	Hash     func(c C) uint64 // optional; default: hash of the JSON form
	Sample   func(c C) interface{}
	// Attempts > 1 makes replay and confirmation run a case several times
	// (schedule-dependent properties); a failure in any attempt counts.
	Attempts int

	rec      *Recorder
	curTest  string
	lastFail *replayFile
}

type replayFile struct {
	Property string          `json:"property"`
	Test     string          `json:"test"`
	Sig      string          `json:"sig"`
	Detail   string          `json:"detail"`
	Case     json.RawMessage `json:"case"`
	path     string
}

type replayer interface {
	id() string
	name() string
	replay(t *testing.T, raw json.RawMessage)
}

var registry = map[string]replayer{}

// Register makes the property available to Replay. Call it from init().
func Register[C any](p *Prop[C]) *Prop[C] {
	registry[p.ID+"/"+p.Name] = p
	return p
}

func (p *Prop[C]) id() string   { return p.ID }
func (p *Prop[C]) name() string { return p.Name }

func (p *Prop[C]) caseJSON(c C) []byte {
	b, err := json.Marshal(c)
	if err != nil {
		return []byte(fmt.Sprintf("%q", fmt.Sprintf("unserialisable case: %v", err)))
	}
	return b
}

func (p *Prop[C]) hash(c C) uint64 {
	if p.Hash != nil {
		return p.Hash(c)
	}
	return HashBytes(p.caseJSON(c))
}

func (p *Prop[C]) recorder(t testing.TB) *Recorder {
	if p.rec == nil {
		p.rec = NewRecorder(t, p.ID, t.Name()+"/"+p.Name, p.Rule)
		p.curTest = t.Name()
		t.Cleanup(func() { p.rec = nil })
	}
	return p.rec
}

// Rec gives access to the recorder (for extra counters).
func (p *Prop[C]) Rec(t testing.TB) *Recorder { return p.recorder(t) }

func (p *Prop[C]) record(t testing.TB, c C) {
	nt, classes := true, []string(nil)
	if p.Classify != nil {
		nt, classes = p.Classify(c)
	}
	var h uint64
	if nt {
		h = p.hash(c)
	}
	p.recorder(t).Case(nt, h, classes, func() interface{} {
		if p.Sample != nil {
			return p.Sample(c)
		}
		b := p.caseJSON(c)
		if len(b) > 1500 {
			return string(b[:1500]) + "...(truncated)"
		}
		return json.RawMessage(b)
	})
}

// RunProtected runs the case; a panic that escapes the runner is a failure.
func (p *Prop[C]) RunProtected(c C) (f *Failure) {
	defer func() {
		if r := recover(); r != nil {
			f = &Failure{Sig: "panic", Detail: fmt.Sprintf("panic: %v\n%s", r, trimStack(debug.Stack()))}
		}
	}()
	return p.Run(c)
}

func trimStack(b []byte) string {
	s := string(b)
	if len(s) > 3000 {
		s = s[:3000] + "\n...(truncated)"
	}
	return s
}

// eval runs one case and handles the bookkeeping of a failure. It returns the
// failure if it is a violation (i.e. not a listed known finding).
// starved reports whether the machine runs far more work than it has processors for.
func starved() bool {
	b, err := os.ReadFile("/proc/loadavg")
	if err != nil {
		return false
	}
	var l1 float64
	if _, err := fmt.Sscanf(string(b), "%f", &l1); err != nil {
		return false
	}
	return l1 > 1.5*float64(runtime.NumCPU())
}

func (p *Prop[C]) eval(t testing.TB, c C) *Failure {
	p.record(t, c)
	t0 := time.Now()
	f := p.RunProtected(c)
	if f == nil {
		return nil
	}
	// A failing run that took seconds ran into one of the bounded waits ("must happen within N s").
	// On a starved machine (load 80+ on 16 cores was observed) such a wait can expire although the
	// library is right; a time budget that is hit means "inconclusive", never a violation. The
	// case is a pure function of its value, so it is run again, up to two more times: a defect
	// fails every time and is reported, a stall is counted as a discarded case with a note. This is
	// done only while the machine IS starved (1-minute load average above 1.5 x the number of CPUs):
	// otherwise a failure that does not reproduce is a schedule-dependent failure of the library and
	// is reported as before.
	if time.Since(t0) > 1500*time.Millisecond && os.Getenv("VERIF_NO_CONFIRM") == "" && starved() {
		for i := 0; i < 2; i++ {
			time.Sleep(300 * time.Millisecond)
			if f2 := p.RunProtected(c); f2 == nil {
				r := p.recorder(t)
				r.Discard()
				r.Note("a failing run that took %.1fs (sig %s) did not fail when run again: counted as inconclusive (starved machine), not as a violation", time.Since(t0).Seconds(), f.Sig)
				return nil
			} else {
				f = f2
			}
		}
	}
	if IsKnown(p.ID, f.Sig) {
		p.recorder(t).mu.Lock()
		p.recorder(t).ExcludedKn++
		p.recorder(t).mu.Unlock()
		return nil
	}
	p.saveFailure(c, f)
	return f
}

func (p *Prop[C]) saveFailure(c C, f *Failure) {
	e := GetEnv()
	rf := &replayFile{Property: p.ID, Test: p.Name, Sig: f.Sig, Detail: f.Detail, Case: p.caseJSON(c)}
	rf.path = filepath.Join(e.ReplayDir, fmt.Sprintf("%s-%s-%s-seed%d-shard%d.json", p.ID, sanitize(p.Name), sanitize(p.curTest), e.Seed, e.Shard))
	b, _ := json.MarshalIndent(rf, "", " ")
	if err := os.WriteFile(rf.path, b, 0o644); err != nil {
		fmt.Printf("VERIF-HARNESS-ERROR cannot write replay %s: %v\n", rf.path, err)
	}
	p.lastFail = rf
}

func (p *Prop[C]) emitViolation() {
	if p.lastFail == nil {
		return
	}
	d := p.lastFail.Detail
	if len(d) > 600 {
		d = d[:600] + "..."
	}
	m, _ := json.Marshal(map[string]string{"property": p.ID, "test": p.Name, "sig": p.lastFail.Sig,
		"replay": p.lastFail.path, "detail": d})
	fmt.Printf("\nVERIF-VIOLATION %s\n", m)
}

// Check drives the property with rapid: quick / thorough are the total case
// counts of the two tiers (the thorough count is divided among the shards).
func (p *Prop[C]) Check(t *testing.T, quick, thorough int) {
	e := GetEnv()
	n := quick
	if e.Tier == "thorough" {
		// VERIF_THOROUGH_SCALE multiplies every thorough case count (default 4: the counts in the
		// test files are the ones of the design document, the machine has time for more)
		scale := 4.0
		if v, err := strconv.ParseFloat(os.Getenv("VERIF_THOROUGH_SCALE"), 64); err == nil && v > 0 {
			scale = v
		}
		n = (int(float64(thorough)*scale) + e.NShards - 1) / e.NShards
	} else if e.Shard > 0 {
		t.Skip("quick tier runs in one shard")
	}
	if n <= 0 {
		t.Skip("not in this tier")
	}
	p.CheckN(t, n)
}

// CheckN runs exactly n rapid cases.
func (p *Prop[C]) CheckN(t *testing.T, n int) {
	p.curTest = t.Name()
	setRapidFlags(n, RapidSeed(p.ID+p.Name))
	p.recorder(t)
	t.Cleanup(func() {
		if t.Failed() {
			p.emitViolation()
		}
	})
	rapid.Check(t, func(rt *rapid.T) {
		c := p.Gen(rt)
		if f := p.eval(t, c); f != nil {
			rt.Fatalf("%s/%s violated [%s]: %s", p.ID, p.Name, f.Sig, f.Detail)
		}
	})
}

func setRapidFlags(checks int, seed uint64) {
	flag.Set("rapid.checks", strconv.Itoa(checks))
	flag.Set("rapid.seed", strconv.FormatUint(seed, 10))
	flag.Set("rapid.nofailfile", "true")
	if st := os.Getenv("VERIF_SHRINKTIME"); st != "" {
		flag.Set("rapid.shrinktime", st)
	} else {
		flag.Set("rapid.shrinktime", "20s")
	}
}

// Enumerate runs the property over an explicit enumeration. The enumeration
// is divided among shards by index. exhaustive marks the evidence.
func (p *Prop[C]) Enumerate(t *testing.T, exhaustive bool, each func(yield func(C) bool)) {
	e := GetEnv()
	p.curTest = t.Name()
	rec := p.recorder(t)
	rec.Exhaustive = exhaustive
	t.Cleanup(func() {
		if t.Failed() {
			p.emitViolation()
		}
	})
	i := 0
	each(func(c C) bool {
		i++
		if e.NShards > 1 && (i-1)%e.NShards != e.Shard {
			return true
		}
		if f := p.eval(t, c); f != nil {
			t.Errorf("%s/%s violated [%s] at enumeration index %d: %s", p.ID, p.Name, f.Sig, i-1, f.Detail)
			return false // the first failure of an enumeration is already minimal enough
		}
		return true
	})
}

// One runs a single, fixed case (regression cases kept from shrunk failures).
func (p *Prop[C]) One(t *testing.T, c C) {
	p.curTest = t.Name()
	t.Cleanup(func() {
		if t.Failed() {
			p.emitViolation()
		}
	})
	if f := p.eval(t, c); f != nil {
		t.Errorf("%s/%s violated [%s]: %s", p.ID, p.Name, f.Sig, f.Detail)
	}
}

// Probe runs the canonical input of a known finding. If it still fails with
// the listed signature the KNOWN marker is printed; if it fails with another
// signature that is a violation; if it passes nothing is printed.
func (p *Prop[C]) Probe(t *testing.T, sig string, c C, what string) {
	p.curTest = t.Name()
	f := p.RunProtected(c)
	if f == nil {
		return
	}
	if f.Sig == sig && IsKnown(p.ID, sig) {
		m, _ := json.Marshal(map[string]string{"property": p.ID, "sig": sig, "what": what})
		fmt.Printf("\nVERIF-KNOWN %s\n", m)
		return
	}
	p.saveFailure(c, f)
	p.emitViolation()
	t.Errorf("%s/%s probe %q violated [%s]: %s", p.ID, p.Name, sig, f.Sig, f.Detail)
}

func (p *Prop[C]) replay(t *testing.T, raw json.RawMessage) {
	var c C
	if err := json.Unmarshal(raw, &c); err != nil {
		t.Fatalf("cannot decode replay case: %v", err)
	}
	n := p.Attempts
	if n < 1 {
		n = 1
	}
	for i := 0; i < n; i++ {
		if f := p.RunProtected(c); f != nil {
			if IsKnown(p.ID, f.Sig) {
				m, _ := json.Marshal(map[string]string{"property": p.ID, "sig": f.Sig, "what": f.Detail})
				fmt.Printf("\nVERIF-KNOWN %s\n", m)
				return
			}
			p.saveFailure(c, f)
			p.emitViolation()
			t.Fatalf("%s/%s violated [%s]: %s", p.ID, p.Name, f.Sig, f.Detail)
		}
	}
	fmt.Printf("VERIF-REPLAY-PASS %s/%s\n", p.ID, p.Name)
}

// Replay re-executes the replay file named by VERIF_REPLAY, bypassing rapid.
func Replay(t *testing.T) {
	path := os.Getenv("VERIF_REPLAY")
	if path == "" {
		t.Skip("VERIF_REPLAY not set")
	}
	b, err := os.ReadFile(path)
	if err != nil {
		t.Fatalf("cannot read replay file: %v", err)
	}
	var rf replayFile
	if err := json.Unmarshal(b, &rf); err != nil {
		t.Fatalf("cannot parse replay file: %v", err)
	}
	p, ok := registry[rf.Property+"/"+rf.Test]
	if !ok {
		t.Fatalf("no property %s/%s registered in this package", rf.Property, rf.Test)
	}
	p.replay(t, rf.Case)
}

// KeepDir returns the directory of permanent regression cases of a property.
func KeepDir(prop string) string {
	d := os.Getenv("VERIF_KEEPDIR")
	if d == "" {
		d = "/verif/replays/keep"
	}
	return filepath.Join(d, prop)
}

// RunKeep replays every regression case stored for this package's properties.
func RunKeep(t *testing.T, prop string) {
	files, _ := filepath.Glob(filepath.Join(KeepDir(prop), "*.json"))
	sort.Strings(files)
	for _, f := range files {
		b, err := os.ReadFile(f)
		if err != nil {
			continue
		}
		var rf replayFile
		if json.Unmarshal(b, &rf) != nil {
			continue
		}
		p, ok := registry[rf.Property+"/"+rf.Test]
		if !ok {
			continue
		}
		t.Run(filepath.Base(f), func(t *testing.T) { p.replay(t, rf.Case) })
	}
}
