// Package dicts gives the checks access to the dictionaries the library
// ships: dict.Default as loaded, and every embedded XML document recovered
// from the AST of diam/dict/default.go (the string variables and the load
// order of init()), so that per-file parsers can be built without ever
// mutating the process-wide dict.Default.
package dicts

import (
	"bytes"
	"fmt"
	"go/ast"
	"go/parser"
	"go/token"
	"os"
	"path/filepath"
	"strconv"
	"sync"

	"github.com/fiorix/go-diameter/v4/diam/dict"
)

// RepoDir is the tree under test.
func RepoDir() string {
	if d := os.Getenv("VERIF_REPO"); d != "" {
		return d
	}
	return "/repo"
}

// Embedded is one XML document found in dict/default.go.
type Embedded struct {
	Var    string // variable name, e.g. baseXML
	XML    string
	Loaded bool // loaded into dict.Default by init()
	Order  int  // position in the load order (if Loaded)
}

var (
	once     sync.Once
	embedded []Embedded
	embErr   error
)

// EmbeddedXML returns the XML documents of dict/default.go, loaded ones
// first in load order, then the ones that are defined but not loaded.
func EmbeddedXML() ([]Embedded, error) {
	once.Do(func() {
		fset := token.NewFileSet()
		path := filepath.Join(RepoDir(), "diam", "dict", "default.go")
		f, err := parser.ParseFile(fset, path, nil, 0)
		if err != nil {
			embErr = err
			return
		}
		vars := map[string]string{}
		var order []string
		for _, d := range f.Decls {
			switch d := d.(type) {
			case *ast.GenDecl:
				if d.Tok != token.VAR {
					continue
				}
				for _, s := range d.Specs {
					vs := s.(*ast.ValueSpec)
					for i, n := range vs.Names {
						if i < len(vs.Values) {
							if lit, ok := vs.Values[i].(*ast.BasicLit); ok && lit.Kind == token.STRING {
								if v, err := strconv.Unquote(lit.Value); err == nil {
									vars[n.Name] = v
								}
							}
						}
					}
				}
			case *ast.FuncDecl:
				if d.Name.Name != "init" {
					continue
				}
				ast.Inspect(d.Body, func(n ast.Node) bool {
					cl, ok := n.(*ast.CompositeLit)
					if !ok || len(cl.Elts) != 2 {
						return true
					}
					if _, ok := cl.Elts[0].(*ast.BasicLit); !ok {
						return true
					}
					if id, ok := cl.Elts[1].(*ast.Ident); ok {
						order = append(order, id.Name)
					}
					return true
				})
			}
		}
		seen := map[string]bool{}
		for i, v := range order {
			x, ok := vars[v]
			if !ok {
				embErr = fmt.Errorf("init() loads %s but no such string variable was found", v)
				return
			}
			seen[v] = true
			embedded = append(embedded, Embedded{Var: v, XML: x, Loaded: true, Order: i})
		}
		var rest []string
		for v := range vars {
			if !seen[v] && len(vars[v]) > 40 {
				rest = append(rest, v)
			}
		}
		sortStrings(rest)
		for _, v := range rest {
			embedded = append(embedded, Embedded{Var: v, XML: vars[v]})
		}
		if len(order) == 0 {
			embErr = fmt.Errorf("no load order found in %s", path)
		}
	})
	return embedded, embErr
}

func sortStrings(s []string) {
	for i := 1; i < len(s); i++ {
		for j := i; j > 0 && s[j] < s[j-1]; j-- {
			s[j], s[j-1] = s[j-1], s[j]
		}
	}
}

// Named is a dictionary configuration.
type Named struct {
	Name   string
	Parser *dict.Parser
	XML    []string // documents in load order (nil for "default")
}

var (
	cfgOnce sync.Once
	cfgs    []Named
	cfgErr  error
)

// Load builds a fresh parser from XML documents.
func Load(xmls ...string) (*dict.Parser, error) {
	p, err := dict.NewParser()
	if err != nil {
		return nil, err
	}
	for _, x := range xmls {
		if err := p.Load(bytes.NewReader([]byte(x))); err != nil {
			return p, err
		}
	}
	return p, nil
}

// Configs returns: "default" (dict.Default as shipped), "base" (base alone),
// and "base+<var>" for every other embedded document on top of base.
func Configs() ([]Named, error) {
	cfgOnce.Do(func() {
		emb, err := EmbeddedXML()
		if err != nil {
			cfgErr = err
			return
		}
		cfgs = append(cfgs, Named{Name: "default", Parser: dict.Default})
		var base string
		for _, e := range emb {
			if e.Var == "baseXML" {
				base = e.XML
			}
		}
		if base == "" {
			cfgErr = fmt.Errorf("baseXML not found")
			return
		}
		p, err := Load(base)
		if err != nil {
			cfgErr = err
			return
		}
		cfgs = append(cfgs, Named{Name: "base", Parser: p, XML: []string{base}})
		for _, e := range emb {
			if e.Var == "baseXML" {
				continue
			}
			p, err := Load(base, e.XML)
			if err != nil {
				cfgErr = fmt.Errorf("base+%s: %v", e.Var, err)
				return
			}
			cfgs = append(cfgs, Named{Name: "base+" + e.Var, Parser: p, XML: []string{base, e.XML}})
		}
	})
	return cfgs, cfgErr
}

// ByName finds a configuration.
func ByName(name string) (*Named, error) {
	c, err := Configs()
	if err != nil {
		return nil, err
	}
	for i := range c {
		if c[i].Name == name {
			return &c[i], nil
		}
	}
	return nil, fmt.Errorf("no dictionary configuration %q", name)
}
