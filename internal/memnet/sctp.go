package memnet

import (
	"io"
	"net"
	"sync"
	"time"

	"github.com/ishidawataru/sctp"
)

// Chunk is one SCTP data chunk: bytes tagged with the stream they arrived on.
type Chunk struct {
	Stream uint16 `json:"stream"`
	Data   []byte `json:"data"`
}

// SCTPWrite is one recorded SCTPWrite call.
type SCTPWriteRec struct {
	Stream uint16
	PPID   uint32
	Data   []byte
}

// SCTP is the in-memory backend behind diam.NewVerifSCTPConn: a queue of
// chunks; SCTPRead returns up to len(b) bytes of the head chunk with its
// stream number and leaves the remainder at the head (partial delivery as
// with recvmsg); (0, nil, io.EOF) once the queue is empty and EOF was fed.
type SCTP struct {
	mu     sync.Mutex
	cond   *sync.Cond
	q      []Chunk
	eof    bool
	rerr   error
	closed bool
	parked int
	writes []SCTPWriteRec
	NoInfo bool // deliver chunks without SndRcvInfo (socket not set up for it)
	// WriteFault, when set, is asked before every SCTPWrite (call = 0-based index of the call);
	// a non-nil error makes that call fail without sending anything.
	WriteFault func(call int, stream uint16) error
	wcalls     int
	// WriteStall, when set, runs at the start of every SCTPWrite, before anything is taken or
	// recorded and without any lock held: a transport that stalls in a write.
	WriteStall func()
	// CloseHook, when set, runs at the start of every Close, without any lock held.
	CloseHook func()
}

// NewSCTP creates an empty backend.
func NewSCTP() *SCTP {
	s := &SCTP{}
	s.cond = sync.NewCond(&s.mu)
	return s
}

// Feed queues chunks.
func (s *SCTP) Feed(chunks ...Chunk) {
	s.mu.Lock()
	for _, c := range chunks {
		if len(c.Data) > 0 {
			s.q = append(s.q, Chunk{c.Stream, append([]byte{}, c.Data...)})
		}
	}
	s.cond.Broadcast()
	s.mu.Unlock()
}

// FeedEOF ends the association after the queued chunks.
func (s *SCTP) FeedEOF() { s.mu.Lock(); s.eof = true; s.cond.Broadcast(); s.mu.Unlock() }

// FeedErr makes SCTPRead fail after the queued chunks.
func (s *SCTP) FeedErr(err error) { s.mu.Lock(); s.rerr = err; s.cond.Broadcast(); s.mu.Unlock() }

func (s *SCTP) SCTPRead(b []byte) (int, *sctp.SndRcvInfo, error) {
	s.mu.Lock()
	defer s.mu.Unlock()
	for {
		if s.closed {
			return 0, nil, ErrClosed
		}
		if len(s.q) > 0 {
			n := copy(b, s.q[0].Data)
			info := &sctp.SndRcvInfo{Stream: s.q[0].Stream}
			if n == len(s.q[0].Data) {
				s.q = s.q[1:]
			} else {
				s.q[0].Data = s.q[0].Data[n:]
			}
			s.cond.Broadcast()
			if s.NoInfo {
				return n, nil, nil
			}
			return n, info, nil
		}
		if s.rerr != nil {
			return 0, nil, s.rerr
		}
		if s.eof {
			return 0, nil, io.EOF
		}
		s.parked++
		s.cond.Broadcast()
		s.cond.Wait()
		s.parked--
	}
}

func (s *SCTP) SCTPWrite(b []byte, info *sctp.SndRcvInfo) (int, error) {
	if s.WriteStall != nil {
		s.WriteStall()
	}
	s.mu.Lock()
	defer s.mu.Unlock()
	if s.closed {
		return 0, ErrClosed
	}
	call := s.wcalls
	s.wcalls++
	if s.WriteFault != nil {
		st := uint16(0)
		if info != nil {
			st = info.Stream
		}
		if err := s.WriteFault(call, st); err != nil {
			return 0, err
		}
	}
	r := SCTPWriteRec{Data: append([]byte{}, b...)}
	if info != nil {
		r.Stream, r.PPID = info.Stream, info.PPID
	}
	s.writes = append(s.writes, r)
	s.cond.Broadcast()
	return len(b), nil
}

func (s *SCTP) Close() error {
	if s.CloseHook != nil {
		s.CloseHook()
	}
	s.mu.Lock()
	s.closed = true
	s.cond.Broadcast()
	s.mu.Unlock()
	return nil
}

func (s *SCTP) LocalAddr() net.Addr  { return Addr{"sctp", "10.1.2.3:3868"} }
func (s *SCTP) RemoteAddr() net.Addr { return Addr{"sctp", "10.9.8.7:40000"} }

func (s *SCTP) wait(timeout time.Duration, pred func() bool) bool {
	deadline := time.Now().Add(timeout)
	timer := time.AfterFunc(timeout, func() { s.mu.Lock(); s.cond.Broadcast(); s.mu.Unlock() })
	defer timer.Stop()
	s.mu.Lock()
	defer s.mu.Unlock()
	for !pred() {
		if time.Now().After(deadline) {
			return false
		}
		s.cond.Wait()
	}
	return true
}

// WaitClosed waits for Close.
func (s *SCTP) WaitClosed(timeout time.Duration) bool {
	return s.wait(timeout, func() bool { return s.closed })
}

// WaitWrites waits for n recorded writes.
func (s *SCTP) WaitWrites(n int, timeout time.Duration) bool {
	return s.wait(timeout, func() bool { return len(s.writes) >= n || s.closed })
}

// WaitParked waits until the reader is blocked with nothing queued.
func (s *SCTP) WaitParked(timeout time.Duration) bool {
	return s.wait(timeout, func() bool { return s.parked > 0 && len(s.q) == 0 || s.closed })
}

// Writes returns the recorded writes.
func (s *SCTP) Writes() []SCTPWriteRec {
	s.mu.Lock()
	defer s.mu.Unlock()
	return append([]SCTPWriteRec{}, s.writes...)
}

// IsClosed reports whether Close was called.
func (s *SCTP) IsClosed() bool { s.mu.Lock(); defer s.mu.Unlock(); return s.closed }
