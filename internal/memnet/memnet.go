// Package memnet provides in-memory transports that the harness scripts:
// a net.Conn whose reads return exactly the fragments the test feeds it,
// whose writes can be recorded, stalled or faulted, and which exposes "a
// reader is parked" so that schedules can be built without sleeping; a
// net.Listener handing out scripted connections and accept errors; and an
// SCTP backend (stream-tagged chunks) for the verif hook of diam.SCTPConn.
package memnet

import (
	"errors"
	"io"
	"net"
	"sync"
	"sync/atomic"
	"time"
)

// Addr is a scripted address.
type Addr struct{ Net, Str string }

func (a Addr) Network() string { return a.Net }
func (a Addr) String() string  { return a.Str }

// TempError is a temporary net.Error.
type TempError struct{ Msg string }

func (e *TempError) Error() string   { return e.Msg }
func (e *TempError) Timeout() bool   { return false }
func (e *TempError) Temporary() bool { return true }

// ErrClosed is returned by operations on a closed Conn.
var ErrClosed = errors.New("memnet: use of closed connection")

// WriteRec is one Write call as the transport saw it.
type WriteRec struct {
	Data  []byte
	Start time.Time // monotonic, taken when Write was entered
	End   time.Time // taken before Write returned
	N     int
	Err   error
}

// Conn is a scripted net.Conn.
type Conn struct {
	mu     sync.Mutex
	cond   *sync.Cond
	frags  [][]byte
	rerr   error // returned by Read once the fragments are exhausted (nil: block)
	closed bool
	parked int // readers waiting with an empty queue
	reads  int // completed Read calls

	wdeadline time.Time
	onceErr   error
	rdeadline time.Time // read deadline (zero: none)
	timeouts  int       // reads that ended with a deadline error
	writes    []WriteRec
	written   []byte
	inWrite   int32
	Overlap   int32 // set to 1 if two Write calls ever overlapped
	closedAt  time.Time
	closes    int

	// WriteHook, when set, decides the outcome of a Write: it receives the
	// caller's slice and an accept function that appends bytes to the record
	// (so that a hook can accept a prefix, wait, and accept the rest read
	// from the caller's slice after the wait).
	WriteHook func(b []byte, accept func([]byte)) (int, error)
	// CloseHook, when set, runs at the start of every Close, before the connection is marked closed
	// and without any lock held: a transport whose Close takes time (a TLS alert, a lingering socket).
	CloseHook func()

	Local, Remote net.Addr

	// ErrWithData: when the last queued fragment is read and an error (EOF included) has been
	// fed, that Read returns the bytes AND the error together, as io.Reader allows and as some
	// transports (TLS with a pending close_notify, in-memory pipes) do.
	ErrWithData bool
}

// NewConn creates a connection with default TCP-like addresses.
func NewConn() *Conn {
	c := &Conn{Local: Addr{"tcp", "10.1.2.3:3868"}, Remote: Addr{"tcp", "10.9.8.7:40000"}}
	c.cond = sync.NewCond(&c.mu)
	return c
}

// Feed queues fragments for the reader.
func (c *Conn) Feed(frags ...[]byte) {
	c.mu.Lock()
	for _, f := range frags {
		if len(f) > 0 {
			c.frags = append(c.frags, append([]byte{}, f...))
		}
	}
	c.cond.Broadcast()
	c.mu.Unlock()
}

// FeedErr makes Read return err once the queued fragments are consumed.
func (c *Conn) FeedErr(err error) {
	c.mu.Lock()
	c.rerr = err
	c.cond.Broadcast()
	c.mu.Unlock()
}

// FeedErrOnce makes exactly one Read fail with err once the queued fragments are consumed; later
// reads go on with what is fed afterwards (a transient receive error).
func (c *Conn) FeedErrOnce(err error) {
	c.mu.Lock()
	c.onceErr = err
	c.cond.Broadcast()
	c.mu.Unlock()
}

// FeedWithErr queues fragments and the error that follows them in one step, so that (with
// ErrWithData) the read that takes the last fragment also reports the error.
func (c *Conn) FeedWithErr(err error, frags ...[]byte) {
	c.mu.Lock()
	for _, f := range frags {
		if len(f) > 0 {
			c.frags = append(c.frags, append([]byte{}, f...))
		}
	}
	c.rerr = err
	c.cond.Broadcast()
	c.mu.Unlock()
}

// FeedEOF is FeedErr(io.EOF): the peer closed its side.
func (c *Conn) FeedEOF() { c.FeedErr(io.EOF) }

// Read returns at most one fragment (or the part of it that fits).
func (c *Conn) Read(p []byte) (int, error) {
	c.mu.Lock()
	defer c.mu.Unlock()
	for {
		if c.closed {
			return 0, ErrClosed
		}
		if len(c.frags) > 0 {
			if len(p) == 0 {
				return 0, nil
			}
			n := copy(p, c.frags[0])
			if n == len(c.frags[0]) {
				c.frags = c.frags[1:]
			} else {
				c.frags[0] = c.frags[0][n:]
			}
			c.reads++
			c.cond.Broadcast()
			if c.ErrWithData && len(c.frags) == 0 && c.rerr != nil {
				return n, c.rerr
			}
			return n, nil
		}
		if c.onceErr != nil {
			err := c.onceErr
			c.onceErr = nil
			c.reads++
			c.cond.Broadcast()
			return 0, err
		}
		if c.rerr != nil {
			c.reads++
			return 0, c.rerr
		}
		if !c.rdeadline.IsZero() {
			d := time.Until(c.rdeadline)
			if d <= 0 {
				c.timeouts++
				c.cond.Broadcast()
				return 0, &TimeoutError{}
			}
			// wake up when the deadline passes
			t := time.AfterFunc(d, func() { c.mu.Lock(); c.cond.Broadcast(); c.mu.Unlock() })
			c.parked++
			c.cond.Broadcast()
			c.cond.Wait()
			c.parked--
			t.Stop()
			continue
		}
		c.parked++
		c.cond.Broadcast()
		c.cond.Wait()
		c.parked--
	}
}

// TimeoutError is what a read returns when its deadline passes.
type TimeoutError struct{}

func (e *TimeoutError) Error() string   { return "memnet: i/o timeout" }
func (e *TimeoutError) Timeout() bool   { return true }
func (e *TimeoutError) Temporary() bool { return true }

// WaitTimeouts waits until n reads have ended with a deadline error.
func (c *Conn) WaitTimeouts(n int, timeout time.Duration) bool {
	return c.wait(timeout, func() bool { return c.timeouts >= n || c.closed })
}

// Write records the bytes (or lets the WriteHook decide).
func (c *Conn) Write(b []byte) (int, error) {
	start := time.Now()
	if atomic.AddInt32(&c.inWrite, 1) > 1 {
		atomic.StoreInt32(&c.Overlap, 1)
	}
	defer atomic.AddInt32(&c.inWrite, -1)
	c.mu.Lock()
	if c.closed {
		c.mu.Unlock()
		return 0, ErrClosed
	}
	hook := c.WriteHook
	if !c.wdeadline.IsZero() && !start.Before(c.wdeadline) {
		c.writes = append(c.writes, WriteRec{Start: start, End: start, Err: &TimeoutError{}})
		c.cond.Broadcast()
		c.mu.Unlock()
		return 0, &TimeoutError{}
	}
	c.mu.Unlock()
	var n int
	var err error
	var data []byte
	accept := func(x []byte) {
		c.mu.Lock()
		c.written = append(c.written, x...)
		data = append(data, x...)
		c.cond.Broadcast()
		c.mu.Unlock()
	}
	if hook != nil {
		n, err = hook(b, accept)
	} else {
		accept(b)
		n = len(b)
	}
	c.mu.Lock()
	c.writes = append(c.writes, WriteRec{Data: data, Start: start, End: time.Now(), N: n, Err: err})
	c.cond.Broadcast()
	c.mu.Unlock()
	return n, err
}

// Close closes the connection: parked and later reads and writes fail.
func (c *Conn) Close() error {
	if c.CloseHook != nil {
		c.CloseHook()
	}
	c.mu.Lock()
	c.closes++
	if !c.closed {
		c.closed = true
		c.closedAt = time.Now()
	}
	c.cond.Broadcast()
	c.mu.Unlock()
	return nil
}

func (c *Conn) LocalAddr() net.Addr  { return c.Local }
func (c *Conn) RemoteAddr() net.Addr { return c.Remote }
func (c *Conn) SetDeadline(t time.Time) error {
	c.SetWriteDeadline(t)
	return c.SetReadDeadline(t)
}
func (c *Conn) SetReadDeadline(t time.Time) error {
	c.mu.Lock()
	c.rdeadline = t
	c.cond.Broadcast()
	c.mu.Unlock()
	return nil
}

// SetWriteDeadline: a Write that starts after the deadline fails with a timeout error, as on a socket.
func (c *Conn) SetWriteDeadline(t time.Time) error {
	c.mu.Lock()
	c.wdeadline = t
	c.mu.Unlock()
	return nil
}

// wait blocks until pred holds (under the lock) or the timeout expires.
func (c *Conn) wait(timeout time.Duration, pred func() bool) bool {
	deadline := time.Now().Add(timeout)
	timer := time.AfterFunc(timeout, func() { c.mu.Lock(); c.cond.Broadcast(); c.mu.Unlock() })
	defer timer.Stop()
	c.mu.Lock()
	defer c.mu.Unlock()
	for !pred() {
		if time.Now().After(deadline) {
			return false
		}
		c.cond.Wait()
	}
	return true
}

// WaitParked waits until a reader is blocked in Read with nothing queued.
func (c *Conn) WaitParked(timeout time.Duration) bool {
	return c.wait(timeout, func() bool { return c.parked > 0 && len(c.frags) == 0 && c.rerr == nil || c.closed })
}

// Parked reports whether a reader is blocked right now.
func (c *Conn) Parked() bool {
	c.mu.Lock()
	defer c.mu.Unlock()
	return c.parked > 0 && len(c.frags) == 0
}

// WaitDrained waits until every queued fragment has been read.
func (c *Conn) WaitDrained(timeout time.Duration) bool {
	return c.wait(timeout, func() bool { return len(c.frags) == 0 || c.closed })
}

// WaitClosed waits for Close.
func (c *Conn) WaitClosed(timeout time.Duration) bool {
	return c.wait(timeout, func() bool { return c.closed })
}

// Closed reports whether Close was called, and when.
func (c *Conn) Closed() (bool, time.Time) {
	c.mu.Lock()
	defer c.mu.Unlock()
	return c.closed, c.closedAt
}

// WaitWritten waits until at least n bytes were written.
func (c *Conn) WaitWritten(n int, timeout time.Duration) bool {
	return c.wait(timeout, func() bool { return len(c.written) >= n || c.closed })
}

// WaitWrites waits until at least n Write calls completed.
func (c *Conn) WaitWrites(n int, timeout time.Duration) bool {
	return c.wait(timeout, func() bool { return len(c.writes) >= n || c.closed })
}

// Written returns a copy of everything accepted so far.
func (c *Conn) Written() []byte {
	c.mu.Lock()
	defer c.mu.Unlock()
	return append([]byte{}, c.written...)
}

// Writes returns the Write calls so far.
func (c *Conn) Writes() []WriteRec {
	c.mu.Lock()
	defer c.mu.Unlock()
	return append([]WriteRec{}, c.writes...)
}

// Pending reports how many fragments are still queued.
func (c *Conn) Pending() int {
	c.mu.Lock()
	defer c.mu.Unlock()
	return len(c.frags)
}

// ---------------------------------------------------------------------------

// Listener hands out scripted connections and errors.
type Listener struct {
	ch     chan interface{}
	closed chan struct{}
	once   sync.Once
	addr   net.Addr
}

// NewListener creates a listener with room for n queued events.
func NewListener(n int) *Listener {
	return &Listener{ch: make(chan interface{}, n), closed: make(chan struct{}), addr: Addr{"tcp", "10.1.2.3:3868"}}
}

// Push queues a connection to be accepted.
func (l *Listener) Push(c net.Conn) { l.ch <- c }

// PushErr queues an Accept error.
func (l *Listener) PushErr(err error) { l.ch <- err }

func (l *Listener) Accept() (net.Conn, error) {
	select {
	case v := <-l.ch:
		switch x := v.(type) {
		case net.Conn:
			return x, nil
		case error:
			return nil, x
		}
		return nil, errors.New("memnet: bad listener event")
	case <-l.closed:
		return nil, errors.New("memnet: listener closed")
	}
}

func (l *Listener) Close() error   { l.once.Do(func() { close(l.closed) }); return nil }
func (l *Listener) Addr() net.Addr { return l.addr }

// Idle reports whether every pushed event has been taken by Accept.
func (l *Listener) Idle() bool { return len(l.ch) == 0 }
