package gen

import (
	"fmt"
	"sync"

	"github.com/fiorix/go-diameter/v4/diam/dict"
	"pgregory.net/rapid"

	"verif/internal/dicts"
	"verif/internal/refdict"
)

// DictChoice names the dictionary of a case: an embedded configuration by
// name, or a generated single-file dictionary carried in the case itself.
type DictChoice struct {
	Name string    `json:"name"`
	Gen  *DictFile `json:"gen,omitempty"`
}

var (
	catMu    sync.Mutex
	catCache = map[string]*Catalog{}
)

// Load returns the parser and its catalog. Embedded configurations are
// loaded once per process and never mutated; generated ones are fresh.
func (d DictChoice) Load() (*dict.Parser, *Catalog, error) {
	if d.Gen != nil {
		x := d.Gen.XML()
		p, err := dicts.Load(x)
		if err != nil {
			return nil, nil, fmt.Errorf("generated dictionary does not load: %v", err)
		}
		c := NewCatalog(p)
		c.Ref = refdict.New()
		c.Ref.Load(x)
		return p, c, nil
	}
	catMu.Lock()
	defer catMu.Unlock()
	if c, ok := catCache[d.Name]; ok {
		return c.P, c, nil
	}
	n, err := dicts.ByName(d.Name)
	if err != nil {
		return nil, nil, err
	}
	c := NewCatalog(n.Parser)
	docs := n.XML
	if d.Name == "default" {
		emb, err := dicts.EmbeddedXML()
		if err != nil {
			return nil, nil, err
		}
		for _, e := range emb {
			if e.Loaded {
				docs = append(docs, e.XML)
			}
		}
	}
	c.Ref = refdict.New()
	for _, x := range docs {
		c.Ref.Load(x)
	}
	catCache[d.Name] = c
	return c.P, c, nil
}

// EmbeddedNames lists the embedded configurations.
func EmbeddedNames() []string {
	cfgs, err := dicts.Configs()
	if err != nil {
		panic(err)
	}
	var out []string
	for _, c := range cfgs {
		out = append(out, c.Name)
	}
	return out
}

// PickDict draws a dictionary: dict.Default most often, then the per-file
// configurations, then a generated one.
func PickDict(t *rapid.T) DictChoice {
	switch k := rapid.IntRange(0, 9).Draw(t, "dict-kind"); {
	case k < 4:
		return DictChoice{Name: "default"}
	case k < 7:
		return DictChoice{Name: rapid.SampledFrom(EmbeddedNames()).Draw(t, "dict-name")}
	default:
		f := CodecDict(t)
		return DictChoice{Name: "generated", Gen: &f}
	}
}
