// Package gen holds the shared rapid generators and the abstract
// (library-independent, JSON-serialisable) representation of values, AVPs
// and messages, plus the conversions between that representation, the
// library's datatype.* values and the reference codec's payload bytes.
package gen

import (
	"bytes"
	"fmt"
	"math"
	"net"
	"sync/atomic"
	"time"

	"github.com/fiorix/go-diameter/v4/diam"
	"github.com/fiorix/go-diameter/v4/diam/datatype"
	"pgregory.net/rapid"

	"verif/internal/refcodec"
)

// Type names as a dictionary spells them.
const (
	TOctetString      = "OctetString"
	TUTF8String       = "UTF8String"
	TDiameterIdentity = "DiameterIdentity"
	TDiameterURI      = "DiameterURI"
	TIPFilterRule     = "IPFilterRule"
	TQoSFilterRule    = "QoSFilterRule"
	TUnknown          = "Unknown"
	TUnsigned32       = "Unsigned32"
	TUnsigned64       = "Unsigned64"
	TInteger32        = "Integer32"
	TInteger64        = "Integer64"
	TFloat32          = "Float32"
	TFloat64          = "Float64"
	TEnumerated       = "Enumerated"
	TTime             = "Time"
	TAddress          = "Address"
	TIPv4             = "IPv4"
	TIPv6             = "IPv6"
	TGrouped          = "Grouped"
)

// AllTypeNames lists every type name a dictionary may declare.
var AllTypeNames = []string{TAddress, TDiameterIdentity, TDiameterURI, TEnumerated, TFloat32, TFloat64,
	TGrouped, TIPFilterRule, TIPv4, TIPv6, TInteger32, TInteger64, TOctetString, TQoSFilterRule, TTime,
	TUTF8String, TUnsigned32, TUnsigned64}

// FixedWidth returns the natural payload width of fixed-width types, 0 otherwise.
func FixedWidth(typ string) int {
	switch typ {
	case TUnsigned32, TInteger32, TFloat32, TEnumerated, TTime, TIPv4:
		return 4
	case TUnsigned64, TInteger64, TFloat64:
		return 8
	case TIPv6:
		return 16
	}
	return 0
}

// IsStringLike reports types whose payload is an arbitrary byte string.
func IsStringLike(typ string) bool {
	switch typ {
	case TOctetString, TUTF8String, TDiameterIdentity, TDiameterURI, TIPFilterRule, TQoSFilterRule, TUnknown:
		return true
	}
	return false
}

// Val is an abstract value. Exactly the fields its type needs are used:
// B for string-likes, Unknown, IPv4/IPv6 and the address bytes of Address;
// U for integers (two's complement) and floats (bit pattern); I for Time
// (Unix seconds); Fam for the Address family.
type Val struct {
	T   string `json:"t"`
	B   []byte `json:"b,omitempty"`
	U   uint64 `json:"u,omitempty"`
	I   int64  `json:"i,omitempty"`
	// Ns: sub-second part (nanoseconds) of a Time value handed to the API. The wire carries whole
	// seconds (the first four bytes of an NTP timestamp), so it is cut off, not rounded, and a
	// decoded Time never has one.
	Ns  int64  `json:"ns,omitempty"`
	Fam uint16 `json:"fam,omitempty"`
	// Alt selects the alternative Go representation a caller may use for the
	// same value: the 16-byte IPv4-mapped net.IP for IPv4 addresses.
	Alt bool `json:"alt,omitempty"`
}

func mapped16(ip4 []byte) []byte {
	b := make([]byte, 16)
	b[10], b[11] = 0xff, 0xff
	copy(b[12:], ip4)
	return b
}

// Payload is the RFC 6733 payload of the value, by the reference codec.
func (v Val) Payload() []byte {
	switch v.T {
	case TUnsigned32, TFloat32:
		return refcodec.U32(uint32(v.U))
	case TInteger32, TEnumerated:
		return refcodec.I32(int32(uint32(v.U)))
	case TUnsigned64, TInteger64, TFloat64:
		return refcodec.U64(v.U)
	case TTime:
		return refcodec.Time(v.I)
	case TAddress:
		return refcodec.Address(v.Fam, v.B)
	default:
		return v.B
	}
}

// AddrAmbiguous reports the one representation defect recorded as a known
// finding: an Address whose family is neither 1 nor 2 and whose family-
// prefixed image is 4 or 16 bytes long is taken for a raw IPv4/IPv6 address,
// and family 2 carrying an IPv4-mapped address is re-emitted as family 1.
func (v Val) AddrAmbiguous() bool {
	if v.T != TAddress {
		return false
	}
	switch v.Fam {
	case 1:
		return false
	case 2:
		return len(v.B) == 16 && net.IP(v.B).To4() != nil
	default:
		return len(v.B) == 2 || len(v.B) == 14
	}
}

// ToDatatype converts the abstract value to the library's Go value.
func (v Val) ToDatatype() datatype.Type {
	switch v.T {
	case TOctetString:
		return datatype.OctetString(v.B)
	case TUTF8String:
		return datatype.UTF8String(v.B)
	case TDiameterIdentity:
		return datatype.DiameterIdentity(v.B)
	case TDiameterURI:
		return datatype.DiameterURI(v.B)
	case TIPFilterRule:
		return datatype.IPFilterRule(v.B)
	case TQoSFilterRule:
		return datatype.QoSFilterRule(v.B)
	case TUnknown:
		return datatype.Unknown(append([]byte{}, v.B...))
	case TUnsigned32:
		return datatype.Unsigned32(uint32(v.U))
	case TUnsigned64:
		return datatype.Unsigned64(v.U)
	case TInteger32:
		return datatype.Integer32(int32(uint32(v.U)))
	case TInteger64:
		return datatype.Integer64(int64(v.U))
	case TEnumerated:
		return datatype.Enumerated(int32(uint32(v.U)))
	case TFloat32:
		return datatype.Float32(math.Float32frombits(uint32(v.U)))
	case TFloat64:
		return datatype.Float64(math.Float64frombits(v.U))
	case TTime:
		return datatype.Time(time.Unix(v.I, v.Ns))
	case TAddress:
		switch v.Fam {
		case 1:
			if v.Alt {
				return datatype.Address(mapped16(v.B))
			}
			return datatype.Address(append([]byte{}, v.B...))
		case 2:
			return datatype.Address(append([]byte{}, v.B...))
		default:
			return datatype.Address(refcodec.Address(v.Fam, v.B))
		}
	case TIPv4:
		if v.Alt {
			return datatype.IPv4(mapped16(v.B))
		}
		return datatype.IPv4(append([]byte{}, v.B...))
	case TIPv6:
		return datatype.IPv6(append([]byte{}, v.B...))
	}
	panic("gen: ToDatatype of " + v.T)
}

// EqualDatatype compares a decoded library value with the abstract value:
// semantically where the Go representation is not canonical, bit-exactly
// where the wire is. It returns "" when equal, else a description.
func (v Val) EqualDatatype(d datatype.Type) string {
	mismatch := func(got interface{}) string {
		return fmt.Sprintf("type %s: want %s, got %T %#v", v.T, v.Show(), got, got)
	}
	switch v.T {
	case TOctetString:
		if g, ok := d.(datatype.OctetString); ok && string(g) == string(v.B) {
			return ""
		}
	case TUTF8String:
		if g, ok := d.(datatype.UTF8String); ok && string(g) == string(v.B) {
			return ""
		}
	case TDiameterIdentity:
		if g, ok := d.(datatype.DiameterIdentity); ok && string(g) == string(v.B) {
			return ""
		}
	case TDiameterURI:
		if g, ok := d.(datatype.DiameterURI); ok && string(g) == string(v.B) {
			return ""
		}
	case TIPFilterRule:
		if g, ok := d.(datatype.IPFilterRule); ok && string(g) == string(v.B) {
			return ""
		}
	case TQoSFilterRule:
		if g, ok := d.(datatype.QoSFilterRule); ok && string(g) == string(v.B) {
			return ""
		}
	case TUnknown:
		if g, ok := d.(datatype.Unknown); ok && bytes.Equal(g, v.B) {
			return ""
		}
	case TUnsigned32:
		if g, ok := d.(datatype.Unsigned32); ok && uint32(g) == uint32(v.U) {
			return ""
		}
	case TUnsigned64:
		if g, ok := d.(datatype.Unsigned64); ok && uint64(g) == v.U {
			return ""
		}
	case TInteger32:
		if g, ok := d.(datatype.Integer32); ok && int32(g) == int32(uint32(v.U)) {
			return ""
		}
	case TInteger64:
		if g, ok := d.(datatype.Integer64); ok && int64(g) == int64(v.U) {
			return ""
		}
	case TEnumerated:
		if g, ok := d.(datatype.Enumerated); ok && int32(g) == int32(uint32(v.U)) {
			return ""
		}
	case TFloat32:
		if g, ok := d.(datatype.Float32); ok && math.Float32bits(float32(g)) == uint32(v.U) {
			return ""
		}
	case TFloat64:
		if g, ok := d.(datatype.Float64); ok && math.Float64bits(float64(g)) == v.U {
			return ""
		}
	case TTime:
		if g, ok := d.(datatype.Time); ok && time.Time(g).Unix() == v.I && time.Time(g).Nanosecond() == 0 {
			return ""
		}
	case TAddress:
		g, ok := d.(datatype.Address)
		if !ok {
			break
		}
		switch v.Fam {
		case 1:
			if ip := net.IP(g).To4(); ip != nil && bytes.Equal(ip, v.B) {
				return ""
			}
		case 2:
			if len(g) == 16 && bytes.Equal(g, v.B) {
				return ""
			}
		default:
			if bytes.Equal(g, refcodec.Address(v.Fam, v.B)) {
				return ""
			}
		}
	case TIPv4:
		if g, ok := d.(datatype.IPv4); ok {
			if ip := net.IP(g).To4(); ip != nil && bytes.Equal(ip, v.B) {
				return ""
			}
		}
	case TIPv6:
		if g, ok := d.(datatype.IPv6); ok && bytes.Equal(g, v.B) {
			return ""
		}
	}
	return mismatch(d)
}

// Show renders the value for messages.
func (v Val) Show() string {
	switch v.T {
	case TUnsigned32, TUnsigned64, TInteger32, TInteger64, TEnumerated, TFloat32, TFloat64:
		return fmt.Sprintf("%s(bits %#x)", v.T, v.U)
	case TTime:
		return fmt.Sprintf("Time(unix %d)", v.I)
	case TAddress:
		return fmt.Sprintf("Address(family %d, % x)", v.Fam, v.B)
	}
	if len(v.B) > 40 {
		return fmt.Sprintf("%s(%d bytes % x...)", v.T, len(v.B), v.B[:40])
	}
	return fmt.Sprintf("%s(% x)", v.T, v.B)
}

// ---------------------------------------------------------------------------
// generators

// Bytes draws a byte string whose length is biased to the interesting
// regions: 0..5, around the 1 KiB pooled buffer, around the 4 KiB write
// buffer, and (rarely) tens of kilobytes. maxLen bounds the length.
func Bytes(t *rapid.T, label string, maxLen int) []byte {
	var n int
	switch k := rapid.IntRange(0, 99).Draw(t, label+"-lenclass"); {
	case k < 45:
		n = rapid.IntRange(0, 9).Draw(t, label+"-len")
	case k < 80:
		n = rapid.IntRange(0, 120).Draw(t, label+"-len")
	case k < 88:
		n = rapid.IntRange(990, 1040).Draw(t, label+"-len")
	case k < 94:
		n = rapid.IntRange(4070, 4110).Draw(t, label+"-len")
	case k < 98:
		n = rapid.IntRange(121, 900).Draw(t, label+"-len")
	default:
		n = rapid.IntRange(60000, 70000).Draw(t, label+"-len")
	}
	if n > maxLen {
		n = maxLen
	}
	if n == 0 {
		return []byte{}
	}
	if n > 64 {
		// long strings: a short random seed repeated, cheap to draw and to shrink
		seed := rapid.SliceOfN(rapid.Byte(), 1, 8).Draw(t, label+"-seed")
		b := make([]byte, n)
		for i := range b {
			b[i] = seed[i%len(seed)] + byte(i/len(seed))
		}
		return b
	}
	return rapid.SliceOfN(rapid.Byte(), n, n).Draw(t, label)
}

var u32Edges = []uint64{0, 1, 2, 0x7f, 0x80, 0xff, 0x100, 0x7fff, 0xffff, 0x10000, 0x7fffffff, 0x80000000, 0x80000001, 0xfffffffe, 0xffffffff}
var u64Edges = []uint64{0, 1, 0xffffffff, 0x100000000, 0x7fffffffffffffff, 0x8000000000000000, 0xfffffffffffffffe, 0xffffffffffffffff}

// U32 draws a boundary-biased 32-bit value.
func U32(t *rapid.T, label string) uint32 {
	if rapid.IntRange(0, 2).Draw(t, label+"-edge") == 0 {
		return uint32(rapid.SampledFrom(u32Edges).Draw(t, label))
	}
	return rapid.Uint32().Draw(t, label)
}

// U64 draws a boundary-biased 64-bit value.
func U64(t *rapid.T, label string) uint64 {
	switch rapid.IntRange(0, 3).Draw(t, label+"-edge") {
	case 0:
		return rapid.SampledFrom(u64Edges).Draw(t, label)
	case 1:
		return rapid.SampledFrom(u32Edges).Draw(t, label)
	}
	return rapid.Uint64().Draw(t, label)
}

var f32Edges = []uint32{0, 0x80000000, 1, 0x007fffff, 0x00800000, 0x7f7fffff, 0x7f800000, 0xff800000,
	0x7fc00000, 0x7fc00001, 0xffc12345, 0x7f800001 /* sNaN */, 0x7fa00000 /* sNaN */, 0x3f800000}
var f64Edges = []uint64{0, 0x8000000000000000, 1, 0x000fffffffffffff, 0x0010000000000000, 0x7fefffffffffffff,
	0x7ff0000000000000, 0xfff0000000000000, 0x7ff8000000000000, 0x7ff8000000000001, 0xfff8123456789abc,
	0x7ff0000000000001 /* sNaN */, 0x3ff0000000000000}

// Times of interest: both ends of the representable window, the era boundary.
var timeEdges = []int64{refcodec.TimeMinUnix, refcodec.TimeMinUnix + 1, -1, 0, 1, refcodec.EraBoundaryUnix - 1,
	refcodec.EraBoundaryUnix, refcodec.EraBoundaryUnix + 1, refcodec.TimeMaxUnix - 1, refcodec.TimeMaxUnix,
	2147483647, 2147483648}

// AmbAddrAvoided counts how often the generator steered away from the
// known-finding Address class (reported in the evidence as excluded cases).
var AmbAddrAvoided int64

// ValidPayload reports whether payload is a valid wire payload of the type
// (exact width for fixed-width types, a decodable family/length for
// Address) and whether it falls in the known ambiguous Address class.
func ValidPayload(typ string, payload []byte) (valid, ambiguous bool) {
	if w := FixedWidth(typ); w != 0 {
		return len(payload) == w, false
	}
	if typ == TAddress {
		if len(payload) < 3 {
			return false, false
		}
		fam := uint16(payload[0])<<8 | uint16(payload[1])
		switch fam {
		case 0, 65535:
			return false, false
		case 1:
			return len(payload) == 6, false
		case 2:
			if len(payload) != 18 {
				return false, false
			}
		}
		return true, Val{T: TAddress, Fam: fam, B: payload[2:]}.AddrAmbiguous()
	}
	return true, false
}

// ValFromPayload builds the abstract value of a valid wire payload.
func ValFromPayload(typ string, p []byte) Val {
	switch typ {
	case TUnsigned32, TInteger32, TEnumerated, TFloat32:
		return Val{T: typ, U: uint64(refcodec.Get32(p))}
	case TUnsigned64, TInteger64, TFloat64:
		return Val{T: typ, U: refcodec.Get64(p)}
	case TTime:
		return Val{T: typ, I: refcodec.DecodeTime(p)}
	case TAddress:
		return Val{T: typ, Fam: uint16(p[0])<<8 | uint16(p[1]), B: append([]byte{}, p[2:]...)}
	}
	return Val{T: typ, B: append([]byte{}, p...)}
}

// ValueOpts tunes value generation.
type ValueOpts struct {
	MaxBytes     int  // cap for byte strings
	NoSNaN       bool // exclude signalling NaNs (reflect conversions quiet them)
	AllowAmbAddr bool // allow the known-finding Address class
	SubSecond    bool // Time values may carry a sub-second part (lost on the wire: only for API -> wire directions)
}

// Value draws a valid value of the given type (not Grouped).
func Value(t *rapid.T, typ string, o ValueOpts) Val {
	if o.MaxBytes == 0 {
		o.MaxBytes = 70000
	}
	switch typ {
	case TOctetString, TUTF8String, TDiameterIdentity, TDiameterURI, TIPFilterRule, TQoSFilterRule, TUnknown:
		return Val{T: typ, B: Bytes(t, "bytes", o.MaxBytes)}
	case TUnsigned32, TInteger32, TEnumerated:
		return Val{T: typ, U: uint64(U32(t, "u32"))}
	case TUnsigned64, TInteger64:
		return Val{T: typ, U: U64(t, "u64")}
	case TFloat32:
		var bits uint32
		if rapid.Bool().Draw(t, "f32-edge") {
			bits = rapid.SampledFrom(f32Edges).Draw(t, "f32")
		} else {
			bits = rapid.Uint32().Draw(t, "f32")
		}
		if o.NoSNaN && bits&0x7f800000 == 0x7f800000 && bits&0x007fffff != 0 {
			bits |= 0x00400000
		}
		return Val{T: typ, U: uint64(bits)}
	case TFloat64:
		var bits uint64
		if rapid.Bool().Draw(t, "f64-edge") {
			bits = rapid.SampledFrom(f64Edges).Draw(t, "f64")
		} else {
			bits = rapid.Uint64().Draw(t, "f64")
		}
		if o.NoSNaN && bits&0x7ff0000000000000 == 0x7ff0000000000000 && bits&0x000fffffffffffff != 0 {
			bits |= 0x0008000000000000
		}
		return Val{T: typ, U: bits}
	case TTime:
		ns := int64(0)
		if o.SubSecond && rapid.Bool().Draw(t, "time-subsecond") {
			ns = rapid.SampledFrom([]int64{1, 250000000, 499999999, 500000000, 500000001, 750000000, 999999999}).Draw(t, "time-ns")
		}
		if rapid.IntRange(0, 2).Draw(t, "time-edge") == 0 {
			return Val{T: typ, I: rapid.SampledFrom(timeEdges).Draw(t, "time"), Ns: ns}
		}
		return Val{T: typ, I: rapid.Int64Range(refcodec.TimeMinUnix, refcodec.TimeMaxUnix).Draw(t, "time"), Ns: ns}
	case TIPv4:
		return Val{T: typ, B: rapid.SliceOfN(rapid.Byte(), 4, 4).Draw(t, "ipv4"), Alt: rapid.IntRange(0, 3).Draw(t, "ipv4-mapped-repr") == 0}
	case TIPv6:
		return Val{T: typ, B: ipv6Bytes(t)}
	case TAddress:
		for {
			v := addressValue(t)
			if o.AllowAmbAddr || !v.AddrAmbiguous() {
				return v
			}
			// rebuild into an unambiguous neighbour instead of rejecting
			atomic.AddInt64(&AmbAddrAvoided, 1)
			if v.Fam == 2 {
				v.B[0] = 0x20
				return v
			}
			v.B = append(v.B, 0x31)
			return v
		}
	}
	panic("gen: Value of " + typ)
}

func ipv6Bytes(t *rapid.T) []byte {
	switch rapid.IntRange(0, 5).Draw(t, "ipv6-kind") {
	case 0:
		b := make([]byte, 16)
		b[15] = 1
		return b // ::1
	case 1:
		b := make([]byte, 16)
		b[10], b[11] = 0xff, 0xff
		copy(b[12:], rapid.SliceOfN(rapid.Byte(), 4, 4).Draw(t, "mapped"))
		return b // IPv4-mapped
	case 2:
		return make([]byte, 16)
	}
	return rapid.SliceOfN(rapid.Byte(), 16, 16).Draw(t, "ipv6")
}

func addressValue(t *rapid.T) Val {
	switch rapid.IntRange(0, 9).Draw(t, "addr-kind") {
	case 0, 1, 2:
		return Val{T: TAddress, Fam: 1, B: rapid.SliceOfN(rapid.Byte(), 4, 4).Draw(t, "ip4"), Alt: rapid.IntRange(0, 3).Draw(t, "ip4-mapped-repr") == 0}
	case 3, 4, 5:
		return Val{T: TAddress, Fam: 2, B: ipv6Bytes(t)}
	default:
		fam := rapid.SampledFrom([]uint16{3, 8, 7, 15, 16, 0x100, 0x0102, 65534, 257}).Draw(t, "family")
		n := rapid.SampledFrom([]int{1, 2, 3, 4, 5, 6, 8, 13, 14, 15, 16, 17, 20}).Draw(t, "addr-len")
		return Val{T: TAddress, Fam: fam, B: rapid.SliceOfN(rapid.Byte(), n, n).Draw(t, "addr")}
	}
}

// ---------------------------------------------------------------------------
// abstract AVPs and messages

// AVP is an abstract AVP: for a group, V.T is Grouped and Children is used.
type AVP struct {
	Code     uint32 `json:"code"`
	Flags    uint8  `json:"flags"`
	Vendor   uint32 `json:"vendor,omitempty"`
	V        Val    `json:"v"`
	Children []*AVP `json:"children,omitempty"`
}

// Msg is an abstract message.
type Msg struct {
	Flags uint8  `json:"flags"`
	Code  uint32 `json:"code"`
	App   uint32 `json:"app"`
	HbH   uint32 `json:"hbh"`
	E2E   uint32 `json:"e2e"`
	AVPs  []*AVP `json:"avps"`
}

// Node converts to the reference codec's node.
func (a *AVP) Node() *refcodec.Node {
	n := &refcodec.Node{Code: a.Code, Flags: a.Flags, Vendor: a.Vendor}
	if a.V.T == TGrouped {
		n.Group = true
		for _, c := range a.Children {
			n.Children = append(n.Children, c.Node())
		}
	} else {
		n.Payload = a.V.Payload()
	}
	return n
}

// Nodes converts a list.
func Nodes(avps []*AVP) []*refcodec.Node {
	out := make([]*refcodec.Node, 0, len(avps))
	for _, a := range avps {
		out = append(out, a.Node())
	}
	return out
}

// RefHeader is the reference header of the message (length filled by the encoder).
func (m *Msg) RefHeader() refcodec.Header {
	return refcodec.Header{Version: 1, Flags: m.Flags, Code: m.Code, App: m.App, HopByHop: m.HbH, EndToEnd: m.E2E}
}

// RefBytes is the reference wire image.
func (m *Msg) RefBytes() []byte { return refcodec.EncodeMessage(m.RefHeader(), Nodes(m.AVPs), false) }

// ToDiamAVP builds the AVP through the library's public constructors.
func (a *AVP) ToDiamAVP() *diam.AVP { return a.ToDiamAVPOpt(false) }

// APIFlags returns the flags a caller passes to NewAVP: with dropV the V
// bit is left out for AVPs that name a vendor (NewAVP must add it).
func (a *AVP) APIFlags(dropV bool) uint8 {
	if dropV && a.Vendor != 0 {
		return a.Flags &^ 0x80
	}
	return a.Flags
}

// BuildOpts selects how a caller assembles an AVP tree through the API.
type BuildOpts struct {
	DropV bool // leave the V bit of vendor-specific AVPs to NewAVP
	// TopDown: create every grouped AVP (and measure it) while it is still
	// empty, attach it to its parent, and only then add its members, outermost
	// first - the order of a caller that fills a tree in as it goes. Sizes that
	// were taken early must not stick.
	TopDown bool
	// Literal: AVP and GroupedAVP struct literals instead of the constructors ("requires at
	// least the Code, Flags and Data fields set"): the Length field is never set.
	Literal bool
}

func (a *AVP) literal(o BuildOpts) *diam.AVP {
	fl := a.Flags
	if a.Vendor != 0 {
		fl |= 0x80 // a literal has no constructor to add the V bit
	}
	out := &diam.AVP{Code: a.Code, Flags: fl, VendorID: a.Vendor}
	if a.V.T == TGrouped {
		g := &diam.GroupedAVP{}
		for _, c := range a.Children {
			g.AVP = append(g.AVP, c.literal(o))
		}
		out.Data = g
		return out
	}
	out.Data = a.V.ToDatatype()
	return out
}

// Build assembles the AVP through the public constructors.
func (a *AVP) Build(o BuildOpts) *diam.AVP {
	if o.Literal {
		return a.literal(o)
	}
	if !o.TopDown || a.V.T != TGrouped {
		return a.ToDiamAVPOpt(o.DropV)
	}
	g := &diam.GroupedAVP{}
	av := diam.NewAVP(a.Code, a.APIFlags(o.DropV), a.Vendor, g)
	a.fillTopDown(g, o)
	_ = av.Len()
	return av
}

func (a *AVP) fillTopDown(g *diam.GroupedAVP, o BuildOpts) {
	type pending struct {
		c *AVP
		g *diam.GroupedAVP
	}
	var later []pending
	for _, c := range a.Children {
		if c.V.T == TGrouped {
			cg := &diam.GroupedAVP{}
			g.AddAVP(diam.NewAVP(c.Code, c.APIFlags(o.DropV), c.Vendor, cg))
			later = append(later, pending{c, cg})
		} else {
			g.AddAVP(c.ToDiamAVPOpt(o.DropV))
		}
	}
	_ = g.Len() // a caller may look at the size at any time
	for _, p := range later {
		p.c.fillTopDown(p.g, o)
	}
}

// ToDiamAVPOpt is ToDiamAVP with the V bit optionally left to NewAVP.
func (a *AVP) ToDiamAVPOpt(dropV bool) *diam.AVP {
	if a.V.T == TGrouped {
		g := &diam.GroupedAVP{}
		for _, c := range a.Children {
			g.AddAVP(c.ToDiamAVPOpt(dropV))
		}
		return diam.NewAVP(a.Code, a.APIFlags(dropV), a.Vendor, g)
	}
	return diam.NewAVP(a.Code, a.APIFlags(dropV), a.Vendor, a.V.ToDatatype())
}

// Walk visits every AVP in document order with its depth (top level = 1).
func Walk(avps []*AVP, depth int, f func(a *AVP, depth int)) {
	for _, a := range avps {
		f(a, depth)
		if a.V.T == TGrouped {
			Walk(a.Children, depth+1, f)
		}
	}
}

// CompareTree compares decoded library AVPs with the abstract ones node by
// node: code, flags, vendor id, typed value, nesting. "" means equal.
func CompareTree(want []*AVP, got []*diam.AVP, path string) string {
	if len(want) != len(got) {
		return fmt.Sprintf("%s: %d AVPs expected, %d decoded", path, len(want), len(got))
	}
	for i, w := range want {
		g := got[i]
		p := fmt.Sprintf("%s/%d(code %d)", path, i, w.Code)
		if g == nil {
			return p + ": nil AVP"
		}
		if g.Code != w.Code || g.Flags != w.Flags || g.VendorID != w.Vendor {
			return fmt.Sprintf("%s: want code=%d flags=%#x vendor=%d, got code=%d flags=%#x vendor=%d",
				p, w.Code, w.Flags, w.Vendor, g.Code, g.Flags, g.VendorID)
		}
		if w.V.T == TGrouped {
			gg, ok := g.Data.(*diam.GroupedAVP)
			if !ok {
				return fmt.Sprintf("%s: want a grouped AVP, got %T", p, g.Data)
			}
			if d := CompareTree(w.Children, gg.AVP, p); d != "" {
				return d
			}
			continue
		}
		if d := w.V.EqualDatatype(g.Data); d != "" {
			return p + ": " + d
		}
	}
	return ""
}
