package gen

import (
	"pgregory.net/rapid"

	"verif/internal/refcodec"
)

// Message draws a whole abstract message for the catalog's dictionary.
func (c *Catalog) Message(t *rapid.T, o TreeOpts) Msg {
	var m Msg
	m.Flags, m.Code, m.App, m.HbH, m.E2E = c.Header(t)
	m.AVPs = c.Tree(t, m.App, o)
	return m
}

// MsgClasses classifies a message by the codec-relevant shapes it contains
// and applies the non-triviality rule of C01/C02: at least one AVP and at
// least one of {grouped depth >= 2, undefined code, vendor-specific,
// payload length not a multiple of four, NaN/denormal float, non-IP
// Address, time in the 2036+ era, body above 1 KiB}.
func MsgClasses(m *Msg) (bool, []string) {
	var cl []string
	seen := map[string]bool{}
	add := func(s string) {
		if !seen[s] {
			seen[s] = true
			cl = append(cl, s)
		}
	}
	nt := false
	Walk(m.AVPs, 1, func(a *AVP, depth int) {
		if depth >= 2 {
			add("depth>=2")
			nt = true
		}
		if depth >= 3 {
			add("depth>=3")
		}
		if depth >= 9 {
			add("depth>=9")
		}
		if depth >= 33 {
			add("depth>=33")
		}
		if a.Flags&0x80 != 0 {
			add("vendor-specific")
			nt = true
			if a.Vendor == 0 {
				add("v-flag-vendor-0")
			}
		}
		switch a.V.T {
		case TUnknown:
			add("undefined-code")
			nt = true
		case TGrouped:
			if len(a.Children) == 0 {
				add("empty-group")
			}
		case TFloat32:
			b := uint32(a.V.U)
			if b&0x7f800000 == 0x7f800000 && b&0x7fffff != 0 {
				add("nan")
				nt = true
			} else if b&0x7f800000 == 0 && b&0x7fffff != 0 {
				add("denormal")
				nt = true
			}
		case TFloat64:
			b := a.V.U
			if b&0x7ff0000000000000 == 0x7ff0000000000000 && b&0xfffffffffffff != 0 {
				add("nan")
				nt = true
			} else if b&0x7ff0000000000000 == 0 && b&0xfffffffffffff != 0 {
				add("denormal")
				nt = true
			}
		case TAddress:
			if a.V.Fam != 1 && a.V.Fam != 2 {
				add("addr-other-family")
				nt = true
			} else if a.V.Fam == 2 {
				add("addr-ipv6")
			}
		case TTime:
			if a.V.I >= refcodec.EraBoundaryUnix {
				add("time>=2036")
				nt = true
			}
		}
		if a.V.T != TGrouped {
			if n := len(a.V.Payload()); n%4 != 0 {
				add("pad")
				nt = true
			} else if n == 0 {
				add("empty-payload")
			}
		}
		add("type:" + a.V.T)
	})
	if len(m.AVPs) == 0 {
		return false, []string{"no-avps"}
	}
	if n := len(refcodec.EncodeAVPs(Nodes(m.AVPs))); n > 1024 {
		add("body>1KiB")
		nt = true
		if n > 4096 {
			add("body>4KiB")
		}
	}
	if m.HbH == 0 || m.E2E == 0 {
		add("zero-id")
	}
	return nt, cl
}
