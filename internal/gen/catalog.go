package gen

import (
	"fmt"
	"sort"
	"strings"

	"github.com/fiorix/go-diameter/v4/diam/dict"
	"pgregory.net/rapid"

	"verif/internal/refdict"
)

// Entry is an AVP definition as written in a dictionary file.
type Entry struct {
	App    uint32
	Code   uint32
	Vendor uint32
	Type   string
	Name   string
	Must   string
}

// Cmd is a command definition.
type Cmd struct {
	App    uint32
	Code   uint32
	Short  string
	HasReq bool
	HasAns bool
}

// Catalog lists what a parser defines. Types are never taken from the
// catalog when building a message: they are obtained by asking the parser
// (Resolve), so the generator cannot disagree with the library about what a
// code means on the wire (the lookup rule itself is C17's subject).
type Catalog struct {
	P       *dict.Parser
	Entries []Entry
	ByType  map[string][]Entry
	Types   []string
	Apps    []uint32
	Cmds    []Cmd
	Vendors []uint32

	// Ref, when set, is the independent dictionary model loaded with the same
	// documents: what a (code, vendor) pair means on the wire is then decided by
	// the model, so that a fault in the library's own lookup cannot hide behind
	// a generator that asked the library (C17 compares the two exhaustively).
	Ref *refdict.Model

	reach map[uint32]*reachIdx
}

type reachIdx struct {
	byType map[string][]Entry
	types  []string
}

// reachable indexes, per message application, the entries that resolve to
// their own definition's type when looked up from that application.
func (c *Catalog) reachable(app uint32) *reachIdx {
	if r, ok := c.reach[app]; ok {
		return r
	}
	if c.reach == nil {
		c.reach = map[uint32]*reachIdx{}
	}
	if len(c.reach) > 64 {
		c.reach = map[uint32]*reachIdx{} // random application ids: keep the cache small
	}
	r := &reachIdx{byType: map[string][]Entry{}}
	for _, e := range c.Entries {
		if c.Resolve(app, e.Code, e.Vendor) == e.Type {
			r.byType[e.Type] = append(r.byType[e.Type], e)
		}
	}
	for t := range r.byType {
		r.types = append(r.types, t)
	}
	sort.Strings(r.types)
	c.reach[app] = r
	return r
}

// NewCatalog scans the parser's files.
func NewCatalog(p *dict.Parser) *Catalog {
	c := &Catalog{P: p, ByType: map[string][]Entry{}}
	seenApp := map[uint32]bool{}
	seenVendor := map[uint32]bool{}
	for _, app := range p.Apps() {
		if !seenApp[app.ID] {
			seenApp[app.ID] = true
			c.Apps = append(c.Apps, app.ID)
		}
		for _, cmd := range app.Command {
			c.Cmds = append(c.Cmds, Cmd{App: app.ID, Code: cmd.Code, Short: cmd.Short,
				HasReq: len(cmd.Request.Rule) > 0, HasAns: len(cmd.Answer.Rule) > 0})
		}
		for _, a := range app.AVP {
			e := Entry{App: app.ID, Code: a.Code, Vendor: a.VendorID, Type: a.Data.TypeName, Name: a.Name, Must: a.Must}
			c.Entries = append(c.Entries, e)
			c.ByType[e.Type] = append(c.ByType[e.Type], e)
			if !seenVendor[a.VendorID] {
				seenVendor[a.VendorID] = true
				c.Vendors = append(c.Vendors, a.VendorID)
			}
		}
	}
	for t := range c.ByType {
		c.Types = append(c.Types, t)
	}
	sort.Strings(c.Types)
	sort.Slice(c.Apps, func(i, j int) bool { return c.Apps[i] < c.Apps[j] })
	sort.Slice(c.Vendors, func(i, j int) bool { return c.Vendors[i] < c.Vendors[j] })
	return c
}

// Resolve asks the parser what (code, vendor) means inside a message of
// application app; codes it does not know are carried as Unknown.
func (c *Catalog) Resolve(app, code, vendor uint32) string {
	lib := TUnknown
	if d, err := c.P.FindAVPWithVendor(app, code, vendor); err == nil && d != nil {
		lib = d.Data.TypeName
	}
	if c.Ref == nil {
		return lib
	}
	r := c.Ref.FindAVPByCode(app, code, vendor)
	if !r.Found {
		return TUnknown
	}
	if len(r.Alt) == 0 {
		return r.Def.Type
	}
	// several definitions inside ONE document at one level: the statement does not
	// order them; take the library's choice if it is one of them
	if r.Def.Type == lib {
		return lib
	}
	for _, a := range r.Alt {
		if a.Type == lib {
			return lib
		}
	}
	return r.Def.Type
}

// ResolveName returns the dictionary name too ("" when unknown).
func (c *Catalog) ResolveName(app, code, vendor uint32) (typ, name string) {
	d, err := c.P.FindAVPWithVendor(app, code, vendor)
	if err != nil || d == nil {
		return c.Resolve(app, code, vendor), ""
	}
	return c.Resolve(app, code, vendor), d.Name
}

// TreeOpts bounds an AVP tree.
type TreeOpts struct {
	MaxTop   int
	MaxDepth int
	Val      ValueOpts
	// OnlyTypes, when set, restricts leaf types (used by focused checks).
	OnlyTypes []string
	// WithGroups: grouped AVPs are generated although OnlyTypes is set (their leaves obey OnlyTypes).
	WithGroups bool
	// NoDeep suppresses the occasional deep chain (see Tree).
	NoDeep bool
}

// deepChains: nesting depths of the occasional chain of grouped AVPs, well beyond MaxDepth.
var deepChains = []int{7, 8, 9, 10, 12, 16, 17, 33, 64, 100}

// Header draws command, application, flags and identifiers such that the
// dictionary resolves the command (ReadMessage rejects the others).
func (c *Catalog) Header(t *rapid.T) (flags uint8, code, app, hbh, e2e uint32) {
	cmd := rapid.SampledFrom(c.Cmds).Draw(t, "cmd")
	code = cmd.Code
	app = cmd.App
	switch rapid.IntRange(0, 5).Draw(t, "app-kind") {
	case 0, 1:
		app = rapid.SampledFrom(c.Apps).Draw(t, "other-app")
	case 2:
		app = U32(t, "random-app")
	}
	dc, err := c.P.FindCommand(app, code)
	if err != nil {
		app = cmd.App
		dc, _ = c.P.FindCommand(app, code)
	}
	flags = rapid.Byte().Draw(t, "cmd-flags")
	if dc != nil {
		if flags&0x80 != 0 && len(dc.Request.Rule) == 0 {
			flags &^= 0x80
		}
		if flags&0x80 == 0 && len(dc.Answer.Rule) == 0 {
			flags |= 0x80
		}
	}
	hbh = U32(t, "hbh")
	e2e = U32(t, "e2e")
	return
}

// Tree draws a list of AVPs for a message of application app.
func (c *Catalog) Tree(t *rapid.T, app uint32, o TreeOpts) []*AVP {
	if o.MaxTop == 0 {
		o.MaxTop = 8
	}
	if o.MaxDepth == 0 {
		o.MaxDepth = 4
	}
	n := rapid.IntRange(1, o.MaxTop).Draw(t, "n-avps")
	if rapid.IntRange(0, 24).Draw(t, "no-avps") == 0 {
		n = 0
	}
	out := make([]*AVP, 0, n)
	for i := 0; i < n; i++ {
		out = append(out, c.avp(t, app, o, 1))
	}
	// 1 in 16 trees: one top-level AVP is buried under a chain of grouped AVPs much deeper than
	// MaxDepth (a leaf, and now and then a sibling, at the bottom and on the way down)
	if es := c.reachable(app).byType[TGrouped]; n > 0 && !o.NoDeep && len(o.OnlyTypes) == 0 && len(es) > 0 && rapid.IntRange(0, 15).Draw(t, "deep-chain") == 0 {
		d := rapid.SampledFrom(deepChains).Draw(t, "chain-depth")
		at := rapid.IntRange(0, n-1).Draw(t, "chain-at")
		inner := out[at]
		for l := 0; l < d; l++ {
			e := es[rapid.IntRange(0, len(es)-1).Draw(t, "chain-entry")]
			g := &AVP{Code: e.Code, Vendor: e.Vendor, Flags: 0x40, V: Val{T: TGrouped}, Children: []*AVP{inner}}
			if e.Vendor != 0 {
				g.Flags |= 0x80
			}
			if rapid.IntRange(0, 5).Draw(t, "chain-sibling") == 0 {
				sib := c.avp(t, app, TreeOpts{MaxTop: 1, MaxDepth: 1, Val: o.Val, NoDeep: true}, 1)
				if rapid.Bool().Draw(t, "sibling-first") {
					g.Children = []*AVP{sib, inner}
				} else {
					g.Children = append(g.Children, sib)
				}
			}
			inner = g
		}
		out[at] = inner
	}
	return out
}

func (c *Catalog) avp(t *rapid.T, app uint32, o TreeOpts, depth int) *AVP {
	a := &AVP{}
	a.Flags = rapid.Byte().Draw(t, "avp-flags") &^ 0x80
	var vbit bool
	k := rapid.IntRange(0, 19).Draw(t, "avp-kind")
	if k >= 11 && k < 15 {
		// a grouped AVP, so that nesting is common
		if es := c.reachable(app).byType[TGrouped]; len(es) > 0 && depth < o.MaxDepth && (len(o.OnlyTypes) == 0 || o.WithGroups) {
			e := es[rapid.IntRange(0, len(es)-1).Draw(t, "group-entry")]
			a.Code, a.Vendor = e.Code, e.Vendor
			if e.Vendor != 0 {
				a.Flags |= 0x80
			}
			a.V = Val{T: TGrouped}
			n := rapid.IntRange(0, 4).Draw(t, "n-children")
			for i := 0; i < n; i++ {
				a.Children = append(a.Children, c.avp(t, app, o, depth+1))
			}
			return a
		}
		k = 0
	}
	switch {
	case k < 11 && len(c.reachable(app).types) > 0: // a defined AVP, type chosen first so that rare types are reached
		ri := c.reachable(app)
		types := ri.types
		if len(o.OnlyTypes) > 0 {
			types = o.OnlyTypes
		}
		typ := rapid.SampledFrom(types).Draw(t, "type")
		es := ri.byType[typ]
		if len(es) == 0 {
			es = c.Entries
		}
		e := es[rapid.IntRange(0, len(es)-1).Draw(t, "entry")]
		a.Code, a.Vendor = e.Code, e.Vendor
		vbit = e.Vendor != 0
	case k < 17 && len(c.Entries) > 0: // a defined code with another / no / zero vendor
		e := c.Entries[rapid.IntRange(0, len(c.Entries)-1).Draw(t, "entry")]
		a.Code = e.Code
		switch rapid.IntRange(0, 3).Draw(t, "vendor-twist") {
		case 0:
			vbit, a.Vendor = true, 0 // V flag with Vendor-Id 0
		case 1:
			vbit, a.Vendor = true, e.Vendor+1
		case 2:
			vbit, a.Vendor = false, 0
		default:
			vbit, a.Vendor = true, rapid.SampledFrom(c.Vendors).Draw(t, "vendor")
		}
	default: // a code no dictionary defines
		a.Code = rapid.SampledFrom([]uint32{0, 99999, 0xfffffffe, 0xffffffff, 16777215, 70000, 424242}).Draw(t, "undef-code")
		if rapid.Bool().Draw(t, "random-code") {
			a.Code = 3000000 + rapid.Uint32Range(0, 1000).Draw(t, "undef-code2")
		}
		vbit = rapid.Bool().Draw(t, "undef-v")
		if vbit {
			a.Vendor = U32(t, "undef-vendor")
		}
	}
	if vbit {
		a.Flags |= 0x80
	}
	typ := c.Resolve(app, a.Code, a.Vendor)
	if typ == TGrouped {
		a.V = Val{T: TGrouped}
		if depth < o.MaxDepth {
			n := rapid.IntRange(0, 4).Draw(t, "n-children")
			for i := 0; i < n; i++ {
				a.Children = append(a.Children, c.avp(t, app, o, depth+1))
			}
		}
		return a
	}
	a.V = Value(t, typ, o.Val)
	return a
}

// ---------------------------------------------------------------------------
// generated dictionaries

// DictAVP is one AVP definition of a generated dictionary.
type DictAVP struct {
	Name   string   `json:"name"`
	Code   uint32   `json:"code"`
	Vendor uint32   `json:"vendor,omitempty"`
	Type   string   `json:"type"`
	Must   string   `json:"must,omitempty"`
	Rules  []string `json:"rules,omitempty"`
	// Items: that many <item code=.. name=../> elements inside <data> (documentation of the
	// values an AVP of any type may take; they do not change its type).
	Items int `json:"items,omitempty"`
}

// DictCmd is one command definition.
type DictCmd struct {
	Code  uint32   `json:"code"`
	Short string   `json:"short"`
	Name  string   `json:"name"`
	Req   []string `json:"req"`
	Ans   []string `json:"ans"`
}

// DictApp is one application element.
type DictApp struct {
	ID      uint32    `json:"id"`
	Type    string    `json:"type,omitempty"`
	Name    string    `json:"name,omitempty"`
	Vendors []uint32  `json:"vendors,omitempty"`
	Cmds    []DictCmd `json:"cmds,omitempty"`
	AVPs    []DictAVP `json:"avps,omitempty"`
}

// DictFile is one XML document.
type DictFile struct {
	Apps []DictApp `json:"apps"`
}

// XML renders the document in the dictionary format.
func (f DictFile) XML() string {
	var b strings.Builder
	b.WriteString("<?xml version=\"1.0\" encoding=\"UTF-8\"?>\n<diameter>\n")
	for _, a := range f.Apps {
		fmt.Fprintf(&b, " <application id=\"%d\"", a.ID)
		if a.Type != "" {
			fmt.Fprintf(&b, " type=\"%s\"", a.Type)
		}
		if a.Name != "" {
			fmt.Fprintf(&b, " name=\"%s\"", a.Name)
		}
		b.WriteString(">\n")
		for _, v := range a.Vendors {
			fmt.Fprintf(&b, "  <vendor id=\"%d\" name=\"V%d\"/>\n", v, v)
		}
		for _, c := range a.Cmds {
			fmt.Fprintf(&b, "  <command code=\"%d\" short=\"%s\" name=\"%s\">\n   <request>\n", c.Code, c.Short, c.Name)
			for _, r := range c.Req {
				fmt.Fprintf(&b, "    <rule avp=\"%s\" required=\"false\"/>\n", r)
			}
			b.WriteString("   </request>\n   <answer>\n")
			for _, r := range c.Ans {
				fmt.Fprintf(&b, "    <rule avp=\"%s\" required=\"false\"/>\n", r)
			}
			b.WriteString("   </answer>\n  </command>\n")
		}
		for _, d := range a.AVPs {
			fmt.Fprintf(&b, "  <avp name=\"%s\" code=\"%d\"", d.Name, d.Code)
			if d.Must != "" {
				fmt.Fprintf(&b, " must=\"%s\"", d.Must)
			}
			if d.Vendor != 0 {
				fmt.Fprintf(&b, " vendor-id=\"%d\"", d.Vendor)
			}
			fmt.Fprintf(&b, ">\n   <data type=\"%s\">", d.Type)
			for _, r := range d.Rules {
				fmt.Fprintf(&b, "<rule avp=\"%s\" required=\"false\"/>", r)
			}
			for k := 0; k < d.Items; k++ {
				fmt.Fprintf(&b, "<item code=\"%d\" name=\"Item-%d\"/>", k, k)
			}
			b.WriteString("</data>\n  </avp>\n")
		}
		b.WriteString(" </application>\n")
	}
	b.WriteString("</diameter>\n")
	return b.String()
}

// GenAppIDs are the application ids generated dictionaries use: the base,
// the ids with static parents, a plain one and large ones.
var GenAppIDs = []uint32{0, 1, 4, 16777238, 16777251, 7, 1000, 0xfffffffe}

// GenVendors are the vendor ids used by generated dictionaries.
var GenVendors = []uint32{0, 0, 10415, 13, 0xfffffffe}

// CodecDict draws a single-file dictionary made for codec checks: it
// defines at least one AVP of every type name (so Float64, IPv4, IPv6 and
// QoSFilterRule, which the embedded dictionaries barely use, are reached),
// in the base application and in a few others, plus commands with rules.
func CodecDict(t *rapid.T) DictFile {
	var f DictFile
	base := DictApp{ID: 0, Name: "Base"}
	code := uint32(1)
	for _, typ := range AllTypeNames {
		d := DictAVP{Name: "B-" + typ, Code: 100 + code, Type: typ, Must: pickMust(t)}
		if typ != TGrouped && rapid.IntRange(0, 3).Draw(t, "items") == 0 {
			d.Items = rapid.IntRange(1, 3).Draw(t, "n-items") // named values listed for an AVP of any type
		}
		base.AVPs = append(base.AVPs, d)
		code++
	}
	base.AVPs = append(base.AVPs, DictAVP{Name: "B-Group2", Code: 150, Type: TGrouped})
	base.Cmds = []DictCmd{{Code: 300, Short: "XA", Name: "X-A", Req: []string{"B-Grouped"}, Ans: []string{"B-Grouped"}},
		{Code: 301, Short: "XB", Name: "X-B", Req: []string{"B-Grouped"}, Ans: []string{"B-Time"}}}
	f.Apps = append(f.Apps, base)
	napps := rapid.IntRange(1, 3).Draw(t, "n-apps")
	ids := rapid.Permutation(GenAppIDs[1:]).Draw(t, "app-ids")
	for i := 0; i < napps; i++ {
		app := DictApp{ID: ids[i], Type: rapid.SampledFrom([]string{"auth", "acct", ""}).Draw(t, "app-type"), Name: fmt.Sprintf("A%d", ids[i])}
		n := rapid.IntRange(1, 8).Draw(t, "n-avps")
		for j := 0; j < n; j++ {
			typ := rapid.SampledFrom(AllTypeNames).Draw(t, "avp-type")
			d := DictAVP{Name: fmt.Sprintf("A%d-%d-%s", ids[i], j, typ), Type: typ, Must: pickMust(t)}
			// sometimes redefine a base code (with another type), sometimes a fresh code
			if rapid.IntRange(0, 3).Draw(t, "redefine") == 0 {
				d.Code = 100 + uint32(rapid.IntRange(1, len(AllTypeNames)).Draw(t, "redef-code"))
			} else {
				d.Code = 1000*uint32(i+1) + uint32(j)
			}
			d.Vendor = rapid.SampledFrom(GenVendors).Draw(t, "avp-vendor")
			app.AVPs = append(app.AVPs, d)
		}
		if rapid.Bool().Draw(t, "app-cmd") {
			app.Cmds = []DictCmd{{Code: 310 + uint32(i), Short: fmt.Sprintf("Y%d", i), Name: fmt.Sprintf("Y-%d", i),
				Req: []string{"B-Grouped"}, Ans: []string{"B-Grouped"}}}
		}
		f.Apps = append(f.Apps, app)
	}
	return f
}

// FixedCodecDict is the base application of CodecDict without any random choice: one AVP
// "B-<type>" (code 101, 102, ...) per type name, all with must="M", and the commands 300 / 301.
func FixedCodecDict() DictFile {
	base := DictApp{ID: 0, Name: "Base"}
	for i, typ := range AllTypeNames {
		base.AVPs = append(base.AVPs, DictAVP{Name: "B-" + typ, Code: 101 + uint32(i), Type: typ, Must: "M"})
	}
	base.AVPs = append(base.AVPs, DictAVP{Name: "B-Group2", Code: 150, Type: TGrouped})
	base.Cmds = []DictCmd{{Code: 300, Short: "XA", Name: "X-A", Req: []string{"B-Grouped"}, Ans: []string{"B-Grouped"}},
		{Code: 301, Short: "XB", Name: "X-B", Req: []string{"B-Grouped"}, Ans: []string{"B-Time"}}}
	return DictFile{Apps: []DictApp{base}}
}

func pickMust(t *rapid.T) string {
	return rapid.SampledFrom([]string{"", "M", "M", "V", "M,V", "P"}).Draw(t, "must")
}

// EntriesFor returns the definitions of the given type that a message of
// application app resolves to that type.
func (c *Catalog) EntriesFor(app uint32, typ string) []Entry {
	return c.reachable(app).byType[typ]
}

// TypesFor lists the type names reachable from application app.
func (c *Catalog) TypesFor(app uint32) []string { return c.reachable(app).types }
