package refcodec

import "math"

// RFC 6733 section 4.2/4.3 payload encodings of the basic and derived types.

func U32(v uint32) []byte { b := make([]byte, 4); put32(b, v); return b }
func U64(v uint64) []byte {
	b := make([]byte, 8)
	put32(b, uint32(v>>32))
	put32(b[4:], uint32(v))
	return b
}
func I32(v int32) []byte      { return U32(uint32(v)) }
func I64(v int64) []byte      { return U64(uint64(v)) }
func F32Bits(v uint32) []byte { return U32(v) }
func F64Bits(v uint64) []byte { return U64(v) }
func F32(v float32) []byte    { return U32(math.Float32bits(v)) }
func F64(v float64) []byte    { return U64(math.Float64bits(v)) }

// Seconds between 1900-01-01 and 1970-01-01.
const ntpUnixOffset = 2208988800

// TimeMinUnix and TimeMaxUnix bound the instants a 32-bit NTP timestamp can
// express under the RFC 5905 era rule used by RFC 6733 section 4.3.1:
// most significant bit set -> 1968-01-20T03:14:08Z .. 2036-02-07T06:28:15Z,
// clear -> 2036-02-07T06:28:16Z .. 2104-02-26T09:42:23Z.
const (
	TimeMinUnix int64 = 1<<31 - ntpUnixOffset             // -61505152
	TimeMaxUnix int64 = 1<<32 + 1<<31 - 1 - ntpUnixOffset // 4233462143
	// EraBoundaryUnix is 2036-02-07T06:28:16Z.
	EraBoundaryUnix int64 = 1<<32 - ntpUnixOffset
)

// Time encodes Unix seconds as seconds since 1900 modulo 2^32.
func Time(unix int64) []byte { return U32(uint32(unix + ntpUnixOffset)) }

// DecodeTime inverts Time under the era rule.
func DecodeTime(b []byte) int64 {
	v := int64(get32(b))
	if v&(1<<31) != 0 {
		return v - ntpUnixOffset
	}
	return v + (1 << 32) - ntpUnixOffset
}

// Address encodes family (2 bytes) followed by the address bytes.
func Address(family uint16, addr []byte) []byte {
	b := make([]byte, 2+len(addr))
	b[0], b[1] = byte(family>>8), byte(family)
	copy(b[2:], addr)
	return b
}

// Get32 reads a big-endian 32-bit value.
func Get32(b []byte) uint32 { return get32(b) }

// Get64 reads a big-endian 64-bit value.
func Get64(b []byte) uint64 { return uint64(get32(b))<<32 | uint64(get32(b[4:])) }
