// Package refcodec is an independent reference implementation of the
// RFC 6733 wire format (sections 3 and 4), written without importing or
// reading anything from the library under test. It is the oracle for the
// codec properties (C01-C05, C16, C19).
package refcodec

import (
	"errors"
	"fmt"
)

// Header is the 20-byte Diameter header.
type Header struct {
	Version  uint8  `json:"ver"`
	Length   uint32 `json:"len"` // 24 bits on the wire
	Flags    uint8  `json:"flags"`
	Code     uint32 `json:"code"` // 24 bits on the wire
	App      uint32 `json:"app"`
	HopByHop uint32 `json:"hbh"`
	EndToEnd uint32 `json:"e2e"`
}

// HeaderLen is the size of the Diameter header.
const HeaderLen = 20

// VBit is the vendor-specific flag of an AVP.
const VBit = 0x80

func put24(b []byte, v uint32) { b[0], b[1], b[2] = byte(v>>16), byte(v>>8), byte(v) }
func put32(b []byte, v uint32) {
	b[0], b[1], b[2], b[3] = byte(v>>24), byte(v>>16), byte(v>>8), byte(v)
}
func get24(b []byte) uint32 { return uint32(b[0])<<16 | uint32(b[1])<<8 | uint32(b[2]) }
func get32(b []byte) uint32 {
	return uint32(b[0])<<24 | uint32(b[1])<<16 | uint32(b[2])<<8 | uint32(b[3])
}

// Pad4 rounds n up to a multiple of four.
func Pad4(n int) int { return (n + 3) / 4 * 4 }

// EncodeHeader writes the header as it is (no field is computed).
func EncodeHeader(h Header) []byte {
	b := make([]byte, HeaderLen)
	b[0] = h.Version
	put24(b[1:], h.Length)
	b[4] = h.Flags
	put24(b[5:], h.Code)
	put32(b[8:], h.App)
	put32(b[12:], h.HopByHop)
	put32(b[16:], h.EndToEnd)
	return b
}

// DecodeHeader parses 20 bytes.
func DecodeHeader(b []byte) (Header, error) {
	if len(b) < HeaderLen {
		return Header{}, errors.New("short header")
	}
	return Header{Version: b[0], Length: get24(b[1:]), Flags: b[4], Code: get24(b[5:]),
		App: get32(b[8:]), HopByHop: get32(b[12:]), EndToEnd: get32(b[16:])}, nil
}

// Node is an AVP in abstract form: either a leaf with payload bytes or a
// group of child nodes. Declared, when non-nil, overrides the length field
// (used to build deliberately inconsistent wire images for C03/C04).
type Node struct {
	Code     uint32  `json:"code"`
	Flags    uint8   `json:"flags"`
	Vendor   uint32  `json:"vendor,omitempty"`
	Payload  []byte  `json:"payload,omitempty"`
	Group    bool    `json:"group,omitempty"`
	Children []*Node `json:"children,omitempty"`
	Declared *int    `json:"declared,omitempty"`
	// NoPad suppresses the padding bytes after this AVP (malformed tails).
	NoPad bool `json:"nopad,omitempty"`
	// Fill > 0: the payload continues with Fill further bytes of a fixed non-zero pattern
	// (keeps cases with payloads of megabytes small in their JSON form).
	Fill int `json:"fill,omitempty"`
}

// FillBytes is the pattern behind Node.Fill.
func FillBytes(n int) []byte {
	b := make([]byte, n)
	for i := range b {
		b[i] = byte(i*7 + 3)
	}
	return b
}

// HeaderSize is 12 with the V flag, 8 without.
func (n *Node) HeaderSize() int {
	if n.Flags&VBit != 0 {
		return 12
	}
	return 8
}

// Body returns the unpadded payload bytes of the node.
func (n *Node) Body() []byte {
	if !n.Group {
		if n.Fill > 0 {
			return append(append(make([]byte, 0, len(n.Payload)+n.Fill), n.Payload...), FillBytes(n.Fill)...)
		}
		return n.Payload
	}
	var b []byte
	for _, c := range n.Children {
		b = append(b, EncodeAVP(c)...)
	}
	return b
}

// EncodeAVP returns header + payload + zero padding to four bytes.
func EncodeAVP(n *Node) []byte {
	body := n.Body()
	hs := n.HeaderSize()
	length := hs + len(body)
	if n.Declared != nil {
		length = *n.Declared
	}
	total := Pad4(hs + len(body))
	if n.NoPad {
		total = hs + len(body)
	}
	b := make([]byte, total)
	put32(b, n.Code)
	b[4] = n.Flags
	put24(b[5:], uint32(length))
	if hs == 12 {
		put32(b[8:], n.Vendor)
	}
	copy(b[hs:], body)
	return b
}

// EncodeAVPs concatenates the encodings.
func EncodeAVPs(nodes []*Node) []byte {
	var b []byte
	for _, n := range nodes {
		b = append(b, EncodeAVP(n)...)
	}
	return b
}

// EncodeMessage computes the message length (20 + padded AVPs) and returns
// the wire image. h.Length is ignored unless keepLen is true.
func EncodeMessage(h Header, nodes []*Node, keepLen bool) []byte {
	body := EncodeAVPs(nodes)
	if !keepLen {
		h.Length = uint32(HeaderLen + len(body))
	}
	return append(EncodeHeader(h), body...)
}

// Record is what the reference framer reports for one AVP.
type Record struct {
	Code     uint32    `json:"code"`
	Flags    uint8     `json:"flags"`
	Vendor   uint32    `json:"vendor"`
	Declared int       `json:"declared"`
	Payload  []byte    `json:"payload"`
	Children []*Record `json:"children,omitempty"` // filled by FrameTree for grouped codes
	IsGroup  bool      `json:"is_group,omitempty"`
	Pad      []byte    `json:"pad,omitempty"` // the padding bytes that followed the payload
}

// ErrLenientTail marks a container whose last AVP lacks (some of) its
// padding bytes: the property texts do not decide this case.
var ErrLenientTail = errors.New("last AVP's padding is missing")

// Frame walks a container by declared length rounded up to four.
func Frame(b []byte) ([]*Record, error) {
	var out []*Record
	for off := 0; off < len(b); {
		rest := b[off:]
		if len(rest) < 8 {
			return out, fmt.Errorf("offset %d: %d bytes left, AVP header needs 8", off, len(rest))
		}
		r := &Record{Code: get32(rest), Flags: rest[4], Declared: int(get24(rest[5:]))}
		hs := 8
		if r.Flags&VBit != 0 {
			hs = 12
		}
		if r.Declared < hs {
			return out, fmt.Errorf("offset %d: declared length %d shorter than the %d-byte AVP header", off, r.Declared, hs)
		}
		if r.Declared > len(rest) {
			return out, fmt.Errorf("offset %d: declared length %d exceeds the %d bytes of the container", off, r.Declared, len(rest))
		}
		if hs == 12 {
			r.Vendor = get32(rest[8:])
		}
		r.Payload = rest[hs:r.Declared]
		out = append(out, r)
		adv := Pad4(r.Declared)
		if adv > len(rest) {
			return out, ErrLenientTail
		}
		r.Pad = rest[r.Declared:adv]
		off += adv
	}
	return out, nil
}

// FrameTree frames recursively; isGroup decides which records are grouped.
func FrameTree(b []byte, isGroup func(code uint32, flags uint8, vendor uint32) bool) ([]*Record, error) {
	recs, err := Frame(b)
	if err != nil {
		return recs, err
	}
	for _, r := range recs {
		if isGroup(r.Code, r.Flags, r.Vendor) {
			r.IsGroup = true
			r.Children, err = FrameTree(r.Payload, isGroup)
			if err != nil {
				return recs, fmt.Errorf("in group %d: %w", r.Code, err)
			}
		}
	}
	return recs, nil
}

// SplitMessages cuts a byte stream into messages by the declared message
// length. It returns the complete messages and the unconsumed tail.
func SplitMessages(b []byte) (msgs [][]byte, tail []byte, err error) {
	for len(b) > 0 {
		if len(b) < HeaderLen {
			return msgs, b, nil
		}
		l := int(get24(b[1:]))
		if l < HeaderLen {
			return msgs, b, fmt.Errorf("declared message length %d below the header size", l)
		}
		if l > len(b) {
			return msgs, b, nil
		}
		msgs = append(msgs, b[:l])
		b = b[l:]
	}
	return msgs, nil, nil
}
