// Package refdict is an independent reference model of a Diameter dictionary
// set: what a lookup of an AVP (by code or by name), of a command or of an
// application must yield after a sequence of XML documents has been loaded.
//
// It is written from the statement of property C17 and from the behaviour
// the library documents, not from the library's indexes: it has its own XML
// structs, keeps every definition it was fed (nothing is ever overwritten)
// and answers a query by walking the definitions in load order. It does not
// import the library.
//
// The rules, as the property states them:
//
//   - an AVP lookup for (application, code-or-name, vendor) visits the
//     application, then its static parent applications, then the base
//     application 0; at the first level that holds a matching definition
//     the most recently loaded matching definition wins;
//   - a definition matches when its vendor id equals the query vendor, or,
//     when the query vendor is the any-vendor wildcard, always;
//   - an undefined numeric code yields a placeholder of type Unknown (and an
//     error); an undefined name yields nothing;
//   - a command is looked up in the application, then in the base
//     application (no parent walk);
//   - nothing ever becomes unresolvable by loading more documents (the model
//     has this by construction: it only ever appends).
//
// Corners the statement does not decide are exposed instead of being decided
// here, so that the check can refrain from asserting on them:
//
//   - "most recently loaded" orders documents by load order. Inside ONE
//     document the model orders definitions by document position (later
//     wins), but when the winner has competitors in the same document at the
//     same level that differ from it, they are reported in Resolution.Alt:
//     the statement does not say in which order one document is taken in.
//   - a command defined twice for the same application (the library refuses
//     the second Load; the statement says nothing): both are kept and both
//     are returned.
//   - App(id, type) when the id was loaded both without a type and with other
//     types: verdict Unspecified.
package refdict

import (
	"encoding/xml"
	"fmt"
	"sort"
	"strings"
)

// AnyVendor is the any-vendor wildcard of a query (the library spells it
// dict.UndefinedVendorID).
const AnyVendor uint32 = 4294967295

// parents is the static child -> parent application relation of the
// property statement: S6a (16777251) and Gx (16777238) extend Credit Control
// (4), which extends NASREQ (1). Everything ends at the base application 0.
var parents = map[uint32]uint32{
	16777251: 4,
	16777238: 4,
	4:        1,
}

// Chain lists the levels a lookup for app visits, in order.
func Chain(app uint32) []uint32 {
	out := []uint32{app}
	seen := map[uint32]bool{app: true}
	for cur := app; cur != 0; {
		p, ok := parents[cur]
		if !ok || seen[p] {
			break
		}
		out = append(out, p)
		seen[p] = true
		cur = p
	}
	if !seen[0] {
		out = append(out, 0)
	}
	return out
}

// Related returns the applications whose lookups can be affected by a
// definition in app, plus app's own ancestors: app, its ancestors and every
// application that has app among its ancestors.
func Related(app uint32) []uint32 {
	set := map[uint32]bool{}
	for _, a := range Chain(app) {
		set[a] = true
	}
	for child := range parents {
		for _, a := range Chain(child) {
			if a == app {
				set[child] = true
			}
		}
	}
	out := make([]uint32, 0, len(set))
	for a := range set {
		out = append(out, a)
	}
	sort.Slice(out, func(i, j int) bool { return out[i] < out[j] })
	return out
}

// TypeNames are the data type names a dictionary may declare: the RFC 6733
// basic and derived formats plus the address/filter extras the library
// documents.
var TypeNames = []string{
	"Address", "DiameterIdentity", "DiameterURI", "Enumerated", "Float32", "Float64", "Grouped",
	"IPFilterRule", "IPv4", "IPv6", "Integer32", "Integer64", "OctetString", "QoSFilterRule", "Time",
	"UTF8String", "Unsigned32", "Unsigned64",
}

// ValidType reports whether a dictionary may declare the name.
func ValidType(name string) bool {
	for _, t := range TypeNames {
		if t == name {
			return true
		}
	}
	return false
}

// ---------------------------------------------------------------------------
// the model's own view of the XML format

type xFile struct {
	XMLName xml.Name `xml:"diameter"`
	Apps    []xApp   `xml:"application"`
}

type xApp struct {
	ID      uint32    `xml:"id,attr"`
	Type    string    `xml:"type,attr"`
	Name    string    `xml:"name,attr"`
	Vendors []xVendor `xml:"vendor"`
	Cmds    []xCmd    `xml:"command"`
	AVPs    []xAVP    `xml:"avp"`
}

type xVendor struct {
	ID   uint32 `xml:"id,attr"`
	Name string `xml:"name,attr"`
}

type xCmd struct {
	Code  uint32 `xml:"code,attr"`
	Name  string `xml:"name,attr"`
	Short string `xml:"short,attr"`
}

type xAVP struct {
	Name   string `xml:"name,attr"`
	Code   uint32 `xml:"code,attr"`
	Vendor uint32 `xml:"vendor-id,attr"`
	Data   struct {
		Type string `xml:"type,attr"`
	} `xml:"data"`
}

// ---------------------------------------------------------------------------
// definitions

// AVPDef is one <avp> element.
type AVPDef struct {
	App    uint32 `json:"app"`
	Name   string `json:"name"`
	Code   uint32 `json:"code"`
	Vendor uint32 `json:"vendor"`
	Type   string `json:"type"`
	File   int    `json:"file"` // index of the document in load order
	Seq    int    `json:"seq"`  // position among all definitions ever loaded
}

func (d *AVPDef) String() string {
	if d == nil {
		return "<none>"
	}
	return fmt.Sprintf("{app %d code %d name %q vendor %d type %s, document #%d}", d.App, d.Code, d.Name, d.Vendor, d.Type, d.File)
}

// Same reports whether two definitions are indistinguishable to a caller.
func (d *AVPDef) Same(o *AVPDef) bool {
	return d.App == o.App && d.Name == o.Name && d.Code == o.Code && d.Vendor == o.Vendor && d.Type == o.Type
}

// CmdDef is one <command> element.
type CmdDef struct {
	App   uint32 `json:"app"`
	Code  uint32 `json:"code"`
	Name  string `json:"name"`
	Short string `json:"short"`
	File  int    `json:"file"`
	Seq   int    `json:"seq"`
}

// AppDef is one <application> element.
type AppDef struct {
	ID      uint32   `json:"id"`
	Type    string   `json:"type"`
	Name    string   `json:"name"`
	Vendors []uint32 `json:"vendors,omitempty"`
	File    int      `json:"file"`
	Seq     int      `json:"seq"`
}

type codeKey struct{ app, code uint32 }
type nameKey struct {
	app  uint32
	name string
}

// Model is a dictionary set.
type Model struct {
	nfiles int
	seq    int
	Apps   []*AppDef
	AVPs   []*AVPDef
	Cmds   []*CmdDef
	byCode map[codeKey][]*AVPDef // definitions of a code at one level, in load order
	byName map[nameKey][]*AVPDef
	cmd    map[codeKey][]*CmdDef
	app    map[uint32][]*AppDef
}

// New returns an empty model.
func New() *Model {
	return &Model{byCode: map[codeKey][]*AVPDef{}, byName: map[nameKey][]*AVPDef{},
		cmd: map[codeKey][]*CmdDef{}, app: map[uint32][]*AppDef{}}
}

// Issue is a reason for which the library is documented (or observed) to
// refuse a document. The property statement does not speak about refused
// loads, so issues are informational: the model keeps the whole document in
// any case.
type Issue struct {
	Kind   string // "malformed" | "dup-command" | "unknown-type"
	Detail string
}

// Load feeds one XML document. A document that is not well-formed XML with a
// <diameter> root adds nothing (issue "malformed"). Otherwise every
// definition of the document is appended, and the conditions under which the
// library refuses a document are reported.
func (m *Model) Load(doc string) []Issue {
	var f xFile
	if err := xml.NewDecoder(strings.NewReader(doc)).Decode(&f); err != nil {
		return []Issue{{"malformed", err.Error()}}
	}
	file := m.nfiles
	m.nfiles++
	var issues []Issue
	for _, a := range f.Apps {
		ad := &AppDef{ID: a.ID, Type: a.Type, Name: a.Name, File: file, Seq: m.next()}
		for _, v := range a.Vendors {
			ad.Vendors = append(ad.Vendors, v.ID)
		}
		m.Apps = append(m.Apps, ad)
		m.app[a.ID] = append(m.app[a.ID], ad)
		for _, c := range a.Cmds {
			k := codeKey{a.ID, c.Code}
			if len(m.cmd[k]) > 0 {
				issues = append(issues, Issue{"dup-command", fmt.Sprintf("command %d of application %d is already defined", c.Code, a.ID)})
			}
			cd := &CmdDef{App: a.ID, Code: c.Code, Name: c.Name, Short: c.Short, File: file, Seq: m.next()}
			m.Cmds = append(m.Cmds, cd)
			m.cmd[k] = append(m.cmd[k], cd)
		}
		for _, x := range a.AVPs {
			d := &AVPDef{App: a.ID, Name: x.Name, Code: x.Code, Vendor: x.Vendor, Type: x.Data.Type, File: file, Seq: m.next()}
			if !ValidType(d.Type) {
				issues = append(issues, Issue{"unknown-type", fmt.Sprintf("AVP %q declares type %q", d.Name, d.Type)})
			}
			m.AVPs = append(m.AVPs, d)
			m.byCode[codeKey{a.ID, d.Code}] = append(m.byCode[codeKey{a.ID, d.Code}], d)
			m.byName[nameKey{a.ID, d.Name}] = append(m.byName[nameKey{a.ID, d.Name}], d)
		}
	}
	return issues
}

func (m *Model) next() int { m.seq++; return m.seq }

// Files is the number of documents loaded.
func (m *Model) Files() int { return m.nfiles }

// ---------------------------------------------------------------------------
// AVP lookups

// Resolution is the answer to an AVP lookup.
type Resolution struct {
	Found bool
	Def   *AVPDef   // the winner: latest document, latest position inside it
	Alt   []*AVPDef // equally acceptable: matching definitions of the same document and level that differ from Def
	Level uint32    // level at which Def was found
	Hops  int       // number of levels skipped before it (0 = the application itself)
	// Contested: along the chain the code/name is defined for two or more
	// vendors, or at two or more levels, so that the rule had to choose.
	Contested bool
	// OtherVendorOnly: not found, although the chain defines the code/name
	// for other vendors.
	OtherVendorOnly bool
}

// Accepts reports whether a definition is an acceptable answer.
func (r Resolution) Accepts(d *AVPDef) bool {
	if !r.Found {
		return false
	}
	if r.Def.Same(d) {
		return true
	}
	for _, a := range r.Alt {
		if a.Same(d) {
			return true
		}
	}
	return false
}

func matches(d *AVPDef, vendor uint32) bool {
	return vendor == AnyVendor || d.Vendor == vendor
}

func (m *Model) resolve(app uint32, vendor uint32, at func(level uint32) []*AVPDef) Resolution {
	var r Resolution
	vendors := map[uint32]bool{}
	levels := 0
	anyDef := false
	for hop, level := range Chain(app) {
		defs := at(level)
		if len(defs) > 0 {
			levels++
			anyDef = true
		}
		for _, d := range defs {
			vendors[d.Vendor] = true
		}
		if r.Found {
			continue // keep scanning only to classify
		}
		// definitions are stored in load order: the last match is the most recent
		for i := len(defs) - 1; i >= 0; i-- {
			if matches(defs[i], vendor) {
				r.Found, r.Def, r.Level, r.Hops = true, defs[i], level, hop
				break
			}
		}
		if r.Found {
			for _, d := range defs {
				if d != r.Def && d.File == r.Def.File && matches(d, vendor) && !d.Same(r.Def) {
					r.Alt = append(r.Alt, d)
				}
			}
		}
	}
	r.Contested = len(vendors) >= 2 || levels >= 2
	r.OtherVendorOnly = !r.Found && anyDef
	return r
}

// FindAVPByCode resolves a numeric code for (app, vendor).
func (m *Model) FindAVPByCode(app, code, vendor uint32) Resolution {
	return m.resolve(app, vendor, func(level uint32) []*AVPDef { return m.byCode[codeKey{level, code}] })
}

// FindAVPByName resolves a name for (app, vendor).
func (m *Model) FindAVPByName(app uint32, name string, vendor uint32) Resolution {
	return m.resolve(app, vendor, func(level uint32) []*AVPDef { return m.byName[nameKey{level, name}] })
}

// ---------------------------------------------------------------------------
// commands

// FindCommand returns the definitions of the command in the application or,
// when it has none, in the base application. More than one definition is
// returned only for a command that was defined more than once (see the
// package comment); fallback tells that the base application answered.
func (m *Model) FindCommand(app, code uint32) (defs []*CmdDef, fallback bool) {
	if d := m.cmd[codeKey{app, code}]; len(d) > 0 {
		return d, false
	}
	if app != 0 {
		if d := m.cmd[codeKey{0, code}]; len(d) > 0 {
			return d, true
		}
	}
	return nil, false
}

// ---------------------------------------------------------------------------
// applications

// Verdict is a three-valued answer.
type Verdict int

const (
	No Verdict = iota
	Yes
	Unspecified
)

func (v Verdict) String() string { return [...]string{"no", "yes", "unspecified"}[v] }

// App returns every loaded <application> element with the id (any of them is
// an acceptable answer of App(id): the statement only requires that the id
// resolves, and that it keeps resolving).
func (m *Model) App(id uint32) []*AppDef { return m.app[id] }

// AppTyped answers App(id, typ): an application element loaded with that id
// and type supports it; an id that was only ever loaded without a type
// supports every type (the base application is declared that way); an id
// that was never loaded, or only with other types, does not. A mix of
// untyped and differently typed elements is not decided.
func (m *Model) AppTyped(id uint32, typ string) (Verdict, []*AppDef) {
	var exact, untyped, other []*AppDef
	for _, a := range m.app[id] {
		switch {
		case a.Type == typ:
			exact = append(exact, a)
		case a.Type == "":
			untyped = append(untyped, a)
		default:
			other = append(other, a)
		}
	}
	switch {
	case len(exact) > 0:
		return Yes, exact
	case len(untyped) > 0 && len(other) == 0:
		return Yes, untyped
	case len(untyped) == 0:
		return No, nil
	}
	return Unspecified, untyped
}

// ---------------------------------------------------------------------------
// key space of the set (for exhaustive enumeration)

// Keys describes everything the loaded documents mention.
type Keys struct {
	Apps    []uint32 // application ids of <application> elements
	Codes   []uint32 // AVP codes
	Names   []string // AVP names
	Vendors []uint32 // vendor ids of AVP definitions (0 included when some AVP has none)
	Cmds    []uint32 // command codes
}

// Keys returns the sorted key space.
func (m *Model) Keys() Keys {
	apps, codes, vendors, cmds := map[uint32]bool{}, map[uint32]bool{}, map[uint32]bool{}, map[uint32]bool{}
	names := map[string]bool{}
	for _, a := range m.Apps {
		apps[a.ID] = true
	}
	for _, d := range m.AVPs {
		codes[d.Code] = true
		names[d.Name] = true
		vendors[d.Vendor] = true
	}
	for _, c := range m.Cmds {
		cmds[c.Code] = true
	}
	k := Keys{Apps: sorted(apps), Codes: sorted(codes), Vendors: sorted(vendors), Cmds: sorted(cmds)}
	for n := range names {
		k.Names = append(k.Names, n)
	}
	sort.Strings(k.Names)
	return k
}

func sorted(s map[uint32]bool) []uint32 {
	out := make([]uint32, 0, len(s))
	for v := range s {
		out = append(out, v)
	}
	sort.Slice(out, func(i, j int) bool { return out[i] < out[j] })
	return out
}
