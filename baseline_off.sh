#!/bin/bash
# Runs the repository's own test suite with the verification guard (build tag
# "verif") OFF and compares the set of passing tests with the pinned baseline
# (/root/.vp/BASELINE.json: 140 stable tests). Exit 0 iff every baseline test
# passes. The four SCTP-dependent tests fail in this sandbox with or without
# hooks (no kernel SCTP); they are listed as always_fail in the baseline.
set -u
export GOFLAGS=-mod=mod GOPROXY=off GOSUMDB=off GOTOOLCHAIN=local
OUT=$(mktemp)
trap 'rm -f "$OUT"' EXIT
(cd /repo && go test -mod=mod -json -vet=off -count=1 -timeout 25m ./... ) > "$OUT" 2>/dev/null
git -C /repo checkout -- go.sum 2>/dev/null
python3 - "$OUT" <<'PY'
import json, sys
base = json.load(open('/root/.vp/BASELINE.json'))['stable_pass']
passed = set()
for line in open(sys.argv[1], errors='replace'):
    try:
        e = json.loads(line)
    except Exception:
        continue
    if e.get('Action') == 'pass' and e.get('Test'):
        passed.add(e['Package'] + '::' + e['Test'])
missing = [t for t in base if t not in passed]
print('baseline tests: %d, passing now: %d, missing: %d' % (len(base), len(base) - len(missing), len(missing)))
for t in missing:
    print('  NOT PASSING:', t)
sys.exit(1 if missing else 0)
PY
