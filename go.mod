module verif

go 1.23

toolchain go1.23.5

require (
	github.com/fiorix/go-diameter/v4 v4.0.0
	github.com/ishidawataru/sctp v0.0.0-20230406120618-7ff4192f6ff2
	pgregory.net/rapid v1.3.0
)

replace github.com/fiorix/go-diameter/v4 => /repo
